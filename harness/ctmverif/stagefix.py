"""
Small generated inputs for the parallel stages of cell_type_mapper and one
uniform way to run them (groups C14 / C04 / C19).

    prob = RefProblem(rng)                 # tree + labelled reference cells
    st = STAGES['stats'](prob, workdir)    # prepares inputs in workdir
    st.run(n_processors)                   # calls the real entry function
    st.outputs()                           # requested output locations
    st.accepts()                           # would the next stage's reader take
                                           # what is at the output location?
    st.canonical()                         # schedule-independent content

Every stage object prepares its own upstream files with n_processors=1 paths
of the real code where possible (sequential, no worker processes), so that a
fault injected into one stage cannot hit the preparation of another.
"""
import copy
import hashlib
import json
import pathlib

import h5py
import numpy as np

from ctmverif import pipeline


class RefProblem(object):
    """a taxonomy with n_leaves leaves, labelled reference cells, a query"""

    def __init__(self, rng, n_leaves=None, n_genes=None, depth=None,
                 cells_per_leaf=(3, 6), n_query=None, wide=False,
                 group_sizes=None):
        """wide=True: three levels, 3-4 classes with 2-3 subclasses each, 2-3
        clusters per subclass (so every level above the leaves has >= 3
        parents with > 1 child), node names of varied length, >= 64 query
        cells - the shape on which the *order* in which sibling parents are
        visited (and so anything enumerated out of a set of node names)
        shows in the mapping"""
        self.seed = rng.randrange(2 ** 31)
        nprng = np.random.default_rng(self.seed)
        self.wide = wide
        if wide:
            depth = 3
            n_genes = n_genes or rng.randint(20, 28)
            n_query = n_query or rng.randint(64, 80)
            cells_per_leaf = (3, 4)

            def name(prefix, i):
                return '%s%d%s' % (prefix, i, 'abcdefgh'[:rng.randint(0, 7)])
            wide_tree = {'class': {}, 'subclass': {}}
            leaves = []
            n_sub = 0
            for ci in range(rng.randint(3, 4)):
                subs = []
                for _ in range(rng.randint(2, 3)):
                    sub = name('sub', n_sub)
                    n_sub += 1
                    subs.append(sub)
                    kids = [name('cl', len(leaves) + k)
                            for k in range(rng.randint(2, 3))]
                    leaves += kids
                    rng.shuffle(kids)
                    wide_tree['subclass'][sub] = kids
                rng.shuffle(subs)
                wide_tree['class'][name('class', ci)] = subs
            n_leaves = len(leaves)
        if group_sizes is not None:
            # two levels, the classes have exactly these numbers of leaves
            depth = 2
            n_leaves = sum(group_sizes)
        self.n_leaves = n_leaves or rng.randint(5, 8)
        self.n_genes = n_genes or rng.randint(10, 16)
        depth = depth or rng.choice([2, 3])
        self.hierarchy = ['class', 'subclass', 'cluster'][3 - depth:]
        if not wide:
            leaves = ['cl%02d' % i for i in range(self.n_leaves)]
        rng.shuffle(leaves)
        # group leaves into parents, level by level (each parent >= 1 child)
        self.tree = {'hierarchy': list(self.hierarchy)}
        children = leaves
        if wide:
            for lvl in ('class', 'subclass'):
                keys = list(wide_tree[lvl])
                rng.shuffle(keys)
                self.tree[lvl] = {k: wide_tree[lvl][k] for k in keys}
        for li in (range(depth - 2, -1, -1) if not wide else ()):
            lvl = self.hierarchy[li]
            n_par = max(1, min(len(children) - 1,
                               rng.randint(2, 3)))
            cuts = sorted(rng.sample(range(1, len(children)), n_par - 1)) \
                if n_par > 1 else []
            if group_sizes is not None:
                cuts = [sum(group_sizes[:k])
                        for k in range(1, len(group_sizes))]
            groups = [children[a:b] for a, b in
                      zip([0] + cuts, cuts + [len(children)])]
            names = ['%s%d' % (lvl[:2], i) for i in range(len(groups))]
            self.tree[self.hierarchy[li]] = {
                n: list(g) for n, g in zip(names, groups)}
            children = names
        # cells
        self.leaves = sorted(leaves)
        label = []
        for leaf in leaves:
            label += [leaf] * rng.randint(*cells_per_leaf)
        rng.shuffle(label)
        self.cell_leaf = label
        self.n_cells = len(label)
        self.cell_ids = ['r%03d' % i for i in
                         rng.sample(range(1000), self.n_cells)]
        self.tree[self.hierarchy[-1]] = {
            leaf: [i for i, l in enumerate(label) if l == leaf]
            for leaf in leaves}
        self.genes = ['g%02d' % i for i in range(self.n_genes)]
        rng.shuffle(self.genes)
        # expression: every leaf switches on its own genes strongly
        base = nprng.integers(0, 3, (self.n_cells, self.n_genes)) * (
            nprng.random((self.n_cells, self.n_genes)) < 0.12)
        prof = {}
        for leaf in leaves:
            on = nprng.random(self.n_genes) < 0.45
            prof[leaf] = on
        for i, l in enumerate(label):
            base[i, prof[l]] += nprng.integers(
                30, 60, int(prof[l].sum()))
        for i in range(self.n_cells):
            if base[i].sum() == 0:
                base[i, 0] = 1
        # float64 with noise in the low bits: per-worker partial sums then
        # depend on the order in which they are added up, so a merge in
        # completion order would show (float32 data sums exactly in float64)
        self.X = base.astype(np.float64)
        self.X[self.X > 0] += nprng.random(int((self.X > 0).sum())) * 0.5
        # query: reference-like cells, genes permuted
        nq = n_query or rng.randint(8, 20)
        # query genes: most reference genes (0-2 missing) in another order,
        # plus 0-2 genes the reference does not have
        shared = list(self.genes)
        rng.shuffle(shared)
        shared = shared[rng.randint(1 if wide else 0, 2):]
        self.shared_genes = sorted(shared)
        self.query_genes = shared + ['x%02d' % i
                                     for i in range(rng.randint(0, 2))]
        rng.shuffle(self.query_genes)
        qidx = [rng.randrange(self.n_cells) for _ in range(nq)]
        QX = np.zeros((nq, len(self.query_genes)))
        for j, g in enumerate(self.query_genes):
            if g in self.genes:
                QX[:, j] = np.floor(self.X[qidx][:, self.genes.index(g)])
        self.QX = (QX + nprng.integers(0, 3, QX.shape)).astype(np.float32)
        self.query_ids = ['q%03d' % i for i in rng.sample(range(1000), nq)]

    def taxonomy_tree(self):
        from cell_type_mapper.taxonomy.taxonomy_tree import TaxonomyTree
        return TaxonomyTree(data=copy.deepcopy(self.tree))

    def obs_columns(self):
        """label columns of the reference cells, one per level"""
        cols = {}
        h = self.hierarchy
        parent_of = {}
        for pl, cl in zip(h[:-1], h[1:]):
            for p, kids in self.tree[pl].items():
                for k in kids:
                    parent_of[(cl, k)] = p
        for i, leaf in enumerate(self.cell_leaf):
            node = leaf
            for lvl in reversed(h):
                cols.setdefault(lvl, [None] * self.n_cells)[i] = node
                if lvl != h[0]:
                    node = parent_of[(lvl, node)]
        return {lvl: cols[lvl] for lvl in h}

    def describe(self):
        return {'seed': self.seed, 'wide': self.wide, 'n_leaves': self.n_leaves,
                'n_genes': self.n_genes, 'hierarchy': self.hierarchy,
                'n_cells': self.n_cells, 'n_query': len(self.query_ids)}


def h5_digest(path, skip=()):
    """name -> sha1 of (dtype, shape, bytes) for every dataset"""
    out = {}
    if not pathlib.Path(path).is_file():
        return None

    def visit(name, obj):
        if isinstance(obj, h5py.Dataset) and name not in skip:
            v = obj[()]
            if isinstance(v, bytes):
                b = v
                meta = 'bytes'
            else:
                a = np.asarray(v)
                b = a.tobytes()
                meta = '%s%s' % (a.dtype.str, a.shape)
            out[name] = meta + ':' + hashlib.sha1(b).hexdigest()[:16]
    with h5py.File(path, 'r') as src:
        src.visititems(visit)
    return out


class StageRun(object):
    name = None
    #: module attribute holding the worker target: (module name, attr)
    worker = None
    #: where a 'mid' fault fires inside the worker: (module, attr, when)
    mid = None

    def __init__(self, prob, d):
        self.prob = prob
        self.d = pathlib.Path(d)
        self.tmp = self.d / ('tmp_%s' % self.name)
        self.tmp.mkdir(exist_ok=True)
        self.prepare()

    # -- helpers ------------------------------------------------------
    def ref_h5ad(self):
        p = self.d / 'ref.h5ad'
        if not p.is_file():
            pipeline.write_h5ad(p, self.prob.X, self.prob.cell_ids,
                                self.prob.genes, encoding='csr',
                                obs_cols=self.prob.obs_columns())
        return p

    def stats_file(self):
        """precomputed stats made sequentially (n_processors=1)"""
        p = self.d / 'stats_seq.h5'
        if not p.is_file():
            from cell_type_mapper.diff_exp.precompute_from_anndata import (
                precompute_summary_stats_from_h5ad_and_tree)
            with pipeline.quiet():
                precompute_summary_stats_from_h5ad_and_tree(
                    data_path=self.ref_h5ad(),
                    taxonomy_tree=self.prob.taxonomy_tree(),
                    output_path=p, rows_at_a_time=1000,
                    normalization='raw', tmp_dir=self.tmp, n_processors=1)
        return p

    def ref_marker_file(self):
        """reference markers made with one worker process per stage"""
        p = self.d / 'refmarkers_seq.h5'
        if not p.is_file():
            from cell_type_mapper.diff_exp.markers import (
                find_markers_for_all_taxonomy_pairs)
            with pipeline.quiet():
                find_markers_for_all_taxonomy_pairs(
                    precomputed_stats_path=self.stats_file(),
                    taxonomy_tree=self.prob.taxonomy_tree(),
                    output_path=p, n_processors=1, tmp_dir=self.tmp,
                    max_gb=1, n_valid=5)
            with h5py.File(p, 'a') as dst:
                dst.create_dataset('metadata', data=json.dumps(
                    {'precomputed_path': str(self.stats_file())}
                ).encode('utf-8'))
        return p

    def prepare(self):
        pass

    def run(self, n_processors):
        raise NotImplementedError

    def outputs(self):
        return []

    def accepts(self):
        """does a later stage accept what is at the output location?"""
        raise NotImplementedError

    def canonical(self):
        raise NotImplementedError


class Stats(StageRun):
    name = 'stats'
    worker = ('cell_type_mapper.diff_exp.precompute_from_anndata',
              '_process_chunk_spec')
    mid = ('cell_type_mapper.diff_exp.precompute_from_anndata',
           '_process_chunk', 'after')
    rows_at_a_time = 4
    copy_data_over = False

    def prepare(self):
        self.ref_h5ad()
        self.out = self.d / ('stats_out_%s.h5' % self.name.replace('.', '_'))

    def run(self, n_processors):
        from cell_type_mapper.diff_exp.precompute_from_anndata import (
            precompute_summary_stats_from_h5ad_and_tree)
        precompute_summary_stats_from_h5ad_and_tree(
            data_path=self.ref_h5ad(),
            taxonomy_tree=self.prob.taxonomy_tree(),
            output_path=self.out, rows_at_a_time=self.rows_at_a_time,
            normalization='raw', tmp_dir=self.tmp,
            n_processors=n_processors, copy_data_over=self.copy_data_over)

    def outputs(self):
        return [self.out]

    def accepts(self):
        """would the next stage take what is at the output location?  The
        real `find_markers_for_all_taxonomy_pairs` is run on it (it gets the
        taxonomy as an argument, so it does not need the `taxonomy_tree`
        dataset); and the readers that take the tree from the file"""
        if not self.out.is_file():
            return False
        from cell_type_mapper.diff_exp.markers import (
            find_markers_for_all_taxonomy_pairs)
        probe = self.d / 'probe_markers.h5'
        try:
            with pipeline.quiet():
                find_markers_for_all_taxonomy_pairs(
                    precomputed_stats_path=self.out,
                    taxonomy_tree=self.prob.taxonomy_tree(),
                    output_path=probe, n_processors=1, tmp_dir=self.tmp,
                    max_gb=1, n_valid=5)
            return True
        except BaseException as e:   # noqa
            if isinstance(e, KeyboardInterrupt):
                raise
        finally:
            if probe.exists():
                probe.unlink()
        # the readers of a statistics file: the tree, then the numbers
        from cell_type_mapper.taxonomy.taxonomy_tree import TaxonomyTree
        try:
            tree = TaxonomyTree.from_precomputed_stats(self.out)
            from cell_type_mapper.diff_exp.score_utils import (
                read_precomputed_stats)
            read_precomputed_stats(
                precomputed_stats_path=self.out, taxonomy_tree=tree,
                for_marker_selection=True)
            return True
        except Exception:
            return False

    def canonical(self):
        return h5_digest(self.out)


class StatsCopy(Stats):
    """reference statistics with `copy_data_over=True` (the data file is first
    copied into the scratch directory)"""
    name = 'stats.copy'
    copy_data_over = True


class RefMarkers(StageRun):
    name = 'refMarkers'
    worker = ('cell_type_mapper.diff_exp.markers', '_find_markers_worker')
    mid = ('cell_type_mapper.diff_exp.markers', '_write_to_tmp_file',
           'before')

    def prepare(self):
        self.stats_file()
        self.out = self.d / 'refmarkers_out.h5'

    def run(self, n_processors):
        from cell_type_mapper.diff_exp.markers import (
            find_markers_for_all_taxonomy_pairs)
        find_markers_for_all_taxonomy_pairs(
            precomputed_stats_path=self.stats_file(),
            taxonomy_tree=self.prob.taxonomy_tree(),
            output_path=self.out, n_processors=n_processors,
            tmp_dir=self.tmp, max_gb=1, n_valid=5)

    def outputs(self):
        return [self.out]

    def accepts(self):
        if not self.out.is_file():
            return False
        from cell_type_mapper.marker_selection.marker_array import (
            MarkerGeneArray)
        try:
            MarkerGeneArray.from_cache_path(
                cache_path=self.out,
                query_gene_names=list(self.prob.query_genes),
                tmp_dir=self.tmp)
            return True
        except Exception:
            return False

    def canonical(self):
        return h5_digest(self.out)


class RefMarkersTranspose(RefMarkers):
    """the transposition workers started inside the reference-marker stage"""
    name = 'refMarkers.transpose'
    worker = ('cell_type_mapper.utils.csc_to_csr_parallel',
              '_transpose_subset_of_indices')
    mid = ('cell_type_mapper.utils.csc_to_csr_parallel',
           'transpose_sparse_matrix_on_disk', 'after')


class PMask(StageRun):
    name = 'pMask'
    worker = ('cell_type_mapper.diff_exp.p_value_mask', '_p_values_worker')
    mid = ('cell_type_mapper.diff_exp.p_value_mask',
           'penetrance_parameter_distance', 'after')

    def prepare(self):
        self.stats_file()
        self.out = self.d / 'pmask_out.h5'

    def run(self, n_processors):
        from cell_type_mapper.diff_exp.p_value_mask import (
            create_p_value_mask_file)
        create_p_value_mask_file(
            precomputed_stats_path=self.stats_file(), dst_path=self.out,
            n_processors=n_processors, tmp_dir=self.tmp, n_per=8)

    def outputs(self):
        return [self.out]

    def accepts(self):
        """what the next stage (reference markers from the p-value mask)
        reads from the file"""
        if not self.out.is_file():
            return False
        try:
            with h5py.File(self.out, 'r') as src:
                json.loads(src['gene_names'][()].decode('utf-8'))
                json.loads(src['pair_to_idx'][()].decode('utf-8'))
                n_pairs = int(src['n_pairs'][()])
                indptr = src['indptr'][()]
                indices = src['indices'][()]
                data = src['data'][()]
            return (len(indptr) == n_pairs + 1
                    and indptr[-1] == len(indices) == len(data))
        except Exception:
            return False

    def canonical(self):
        return h5_digest(self.out)


class PMarkers(StageRun):
    name = 'pMarkers'
    worker = ('cell_type_mapper.diff_exp.p_value_markers',
              '_find_markers_from_p_mask_worker')
    mid = ('cell_type_mapper.diff_exp.p_value_markers',
           '_write_to_tmp_file', 'before')

    def prepare(self):
        self.stats_file()
        self.mask = self.d / 'pmask_seq.h5'
        if not self.mask.is_file():
            from cell_type_mapper.diff_exp.p_value_mask import (
                create_p_value_mask_file)
            with pipeline.quiet():
                create_p_value_mask_file(
                    precomputed_stats_path=self.stats_file(),
                    dst_path=self.mask, n_processors=1, tmp_dir=self.tmp,
                    n_per=10000)
        self.out = self.d / 'pmarkers_out.h5'

    def run(self, n_processors):
        from cell_type_mapper.diff_exp.p_value_markers import (
            find_markers_for_all_taxonomy_pairs_from_p_mask)
        find_markers_for_all_taxonomy_pairs_from_p_mask(
            precomputed_stats_path=self.stats_file(),
            p_value_mask_path=self.mask, output_path=self.out,
            n_processors=n_processors, tmp_dir=self.tmp, max_gb=1,
            n_valid=5)

    outputs = RefMarkers.outputs
    accepts = RefMarkers.accepts
    canonical = RefMarkers.canonical


class PMarkersTranspose(PMarkers):
    """the transposition workers started inside the p-mask marker stage"""
    name = 'pMarkers.transpose'
    worker = ('cell_type_mapper.utils.csc_to_csr_parallel',
              '_transpose_subset_of_indices')
    mid = ('cell_type_mapper.utils.csc_to_csr_parallel',
           'transpose_sparse_matrix_on_disk', 'after')


class Selection(StageRun):
    name = 'selection'
    worker = ('cell_type_mapper.marker_selection.selection_pipeline',
              '_marker_selection_worker')
    mid = ('cell_type_mapper.marker_selection.selection_pipeline',
           'select_marker_genes_v2', 'after')

    #: hand the query gene names over as a `set` (as cli/query_markers.py does
    #: when no query file is given): iteration order then depends on the
    #: hash seed
    query_as_set = False
    behemoth_cutoff = 1000000

    def prepare(self):
        self.ref_marker_file()
        self.result = None

    def run(self, n_processors):
        from cell_type_mapper.type_assignment.marker_cache_v2 import (
            create_marker_gene_lookup_from_ref_list)
        self.result = None
        self.result = create_marker_gene_lookup_from_ref_list(
            reference_marker_path_list=[self.ref_marker_file()],
            query_gene_names=(set(self.prob.query_genes)
                              if self.query_as_set
                              else list(self.prob.query_genes)),
            n_per_utility=2, n_per_utility_override=None,
            n_processors=n_processors, behemoth_cutoff=self.behemoth_cutoff,
            tmp_dir=self.tmp)

    def outputs(self):
        return []

    def accepts(self):
        return self.result is not None

    def canonical(self):
        if self.result is None:
            return None
        return {k: v for k, v in self.result.items() if k != 'log'}


class SelectionBehemoth(Selection):
    """query-marker selection on a taxonomy with classes of 4, 4 and 2 leaves
    and `behemoth_cutoff=5`: the root (32 leaf pairs) and the two big classes
    (6 pairs each) are "behemoths" - processed on the full table, one at a
    time - the small class is not.  With every small parent started and a
    behemoth still running, the scheduler is in its "traffic jam" wait."""
    name = 'selection.behemoth'
    behemoth_cutoff = 5

    def __init__(self, prob, d):
        import random
        own = RefProblem(random.Random(prob.seed), group_sizes=[4, 4, 2])
        sub = pathlib.Path(d) / 'behemoth'
        sub.mkdir(exist_ok=True)
        super().__init__(own, sub)


class SelectionMultiRef(Selection):
    """query-marker selection from THREE reference-marker files (each tied to
    its own precomputed-stats file): `create_marker_gene_lookup_from_mapping`
    gives every parent to the file that holds most of its cells, so the root
    and the first class are selected from file A, the second class from file
    B, the third from file C - one `select_all_markers` call (and its
    workers) per file.  The files are copies of the sequentially made ones
    with the `n_cells` of one class boosted."""
    name = 'selection.multiRef'

    def __init__(self, prob, d):
        import random
        own = RefProblem(random.Random(prob.seed), group_sizes=[3, 3, 2])
        sub = pathlib.Path(d) / 'multiref'
        sub.mkdir(exist_ok=True)
        super().__init__(own, sub)

    def prepare(self):
        import shutil
        base_ref = self.ref_marker_file()
        base_stats = self.stats_file()
        top = self.prob.hierarchy[0]
        classes = list(self.prob.tree[top].keys())
        self.ref_paths = []
        for i, cls in enumerate(classes):
            stats = self.d / ('stats_ref%d.h5' % i)
            ref = self.d / ('refmarkers_ref%d.h5' % i)
            if not ref.is_file():
                shutil.copy(base_stats, stats)
                shutil.copy(base_ref, ref)
                with h5py.File(stats, 'a') as dst:
                    c2r = json.loads(dst['cluster_to_row'][()].decode('utf-8'))
                    n_cells = dst['n_cells'][()]
                    boost = 1000 if i == 0 else 100
                    for leaf in self.prob.tree[top][cls]:
                        n_cells[c2r[leaf]] *= boost
                    dst['n_cells'][:] = n_cells
                with h5py.File(ref, 'a') as dst:
                    del dst['metadata']
                    dst.create_dataset('metadata', data=json.dumps(
                        {'precomputed_path': str(stats)}).encode('utf-8'))
            self.ref_paths.append(ref)
        self.result = None

    def run(self, n_processors):
        from cell_type_mapper.type_assignment.marker_cache_v2 import (
            create_marker_gene_lookup_from_ref_list)
        self.result = None
        self.result = create_marker_gene_lookup_from_ref_list(
            reference_marker_path_list=list(self.ref_paths),
            query_gene_names=list(self.prob.query_genes),
            n_per_utility=2, n_per_utility_override=None,
            n_processors=n_processors, behemoth_cutoff=1000000,
            tmp_dir=self.tmp)

    def accepts(self):
        """complete = every parent of the taxonomy has its entry"""
        if self.result is None:
            return False
        tt = self.prob.taxonomy_tree()
        keys = set('None' if p is None else '%s/%s' % (p[0], p[1])
                   for p in tt.all_parents)
        return keys <= set(self.result.keys())


class Transpose(StageRun):
    name = 'transpose'
    worker = ('cell_type_mapper.utils.csc_to_csr_parallel',
              '_transpose_subset_of_indices')
    mid = ('cell_type_mapper.utils.csc_to_csr_parallel',
           'transpose_sparse_matrix_on_disk', 'after')

    def prepare(self):
        import scipy.sparse
        m = scipy.sparse.csr_matrix(self.prob.X)
        self.src = self.d / 'csr_src.h5'
        with h5py.File(self.src, 'w') as dst:
            dst.create_dataset('data', data=m.data)
            dst.create_dataset('indices', data=m.indices.astype(np.int64))
            dst.create_dataset('indptr', data=m.indptr.astype(np.int64))
        self.out = self.d / 'transposed_out.h5'

    def run(self, n_processors):
        from cell_type_mapper.utils.csc_to_csr_parallel import (
            transpose_sparse_matrix_on_disk_v2)
        transpose_sparse_matrix_on_disk_v2(
            h5_path=self.src, indices_tag='indices', indptr_tag='indptr',
            data_tag='data', indices_max=self.prob.n_genes, max_gb=1,
            output_path=self.out, tmp_dir=self.tmp,
            n_processors=n_processors)

    def outputs(self):
        return [self.out]

    def accepts(self):
        if not self.out.is_file():
            return False
        try:
            with h5py.File(self.out, 'r') as src:
                indptr = src['indptr'][()]
                indices = src['indices'][()]
                data = src['data'][()]
            return (len(indptr) == self.prob.n_genes + 1
                    and indptr[-1] == len(indices) == len(data))
        except Exception:
            return False

    def canonical(self):
        return h5_digest(self.out)


class Mapping(StageRun):
    name = 'mapping'
    worker = ('cell_type_mapper.type_assignment.election',
              '_run_type_assignment_on_h5ad_worker')
    mid = ('cell_type_mapper.type_assignment.election',
           'run_type_assignment', 'after')
    chunk_size = 4
    rng_seed = 1137
    #: which outputs the run is asked for (the log always)
    want_json = True
    want_h5 = True
    want_csv = True

    def prepare(self):
        prob = self.prob
        self.stats_file()
        self.query = self.d / 'query.h5ad'
        if not self.query.is_file():
            pipeline.write_h5ad(self.query, prob.QX, prob.query_ids,
                                prob.query_genes, encoding='dense')
        # markers: every parent gets every shared gene
        tt = prob.taxonomy_tree()
        lookup = {}
        import random
        mrng = random.Random(prob.seed)
        for p in tt.all_parents:
            key = 'None' if p is None else '%s/%s' % (p[0], p[1])
            # a different subset (>= 4 genes, in no particular order) per
            # parent
            n = mrng.randint(min(4, len(prob.shared_genes)),
                             len(prob.shared_genes))
            lookup[key] = mrng.sample(prob.shared_genes, n)
        if prob.wide:
            # one branching subclass lists only genes the query does not
            # have: validate_marker_lookup patches it from its ancestors
            # (a union of sets of gene names)
            missing = [g for g in prob.genes if g not in prob.shared_genes]
            sub = [k for k, v in prob.tree['subclass'].items() if len(v) > 1]
            if missing and sub:
                lookup['subclass/%s' % mrng.choice(sorted(sub))] = missing
        self.markers = self.d / 'query_markers.json'
        self.markers.write_text(json.dumps(lookup))
        self.out_dir = self.d / ('mapping_out_%s' % self.name.replace('.', '_'))
        self.out_dir.mkdir(exist_ok=True)

    def config(self, n_processors):
        cfg = pipeline.mapping_config(
            self.query, self.stats_file(), self.markers, self.out_dir,
            self.tmp, n_processors=n_processors,
            chunk_size=self.chunk_size, bootstrap_factor=0.7,
            bootstrap_iteration=10, rng_seed=self.rng_seed, n_runners_up=2,
            normalization='raw', csv=self.want_csv)
        if not self.want_json:
            cfg['extended_result_path'] = None
        if not self.want_h5:
            cfg['hdf5_result_path'] = None
        return cfg

    def run(self, n_processors):
        from cell_type_mapper.cli.from_specified_markers import run_mapping
        cfg = self.config(n_processors)
        run_mapping(config=copy.deepcopy(cfg),
                    output_path=cfg['extended_result_path'],
                    log_path=cfg['log_path'],
                    hdf5_output_path=cfg['hdf5_result_path'])

    def outputs(self):
        return [self.out_dir / 'out.json', self.out_dir / 'out.csv',
                self.out_dir / 'out.h5', self.out_dir / 'log.txt']

    def observe(self):
        """what a mapping run left behind"""
        o = {}
        j = self.out_dir / 'out.json'
        o['json_exists'] = j.is_file()
        o['json_keys'] = None
        o['log_in_json'] = None
        if j.is_file():
            try:
                blob = json.loads(j.read_text())
                o['json_keys'] = sorted(blob.keys())
                o['log_in_json'] = list(blob.get('log', []))
            except Exception:
                o['json_keys'] = 'unparseable'
        o['csv_exists'] = (self.out_dir / 'out.csv').is_file()
        h = self.out_dir / 'out.h5'
        o['h5_exists'] = h.is_file()
        o['h5_datasets'] = None
        o['h5_metadata_keys'] = None
        if h.is_file():
            with h5py.File(h, 'r') as src:
                o['h5_datasets'] = sorted(src.keys())
                if 'metadata' in src:
                    o['h5_metadata_keys'] = sorted(json.loads(
                        src['metadata'][()].decode('utf-8')).keys())
        lg = self.out_dir / 'log.txt'
        o['log_exists'] = lg.is_file()
        o['log_text'] = lg.read_text() if lg.is_file() else None
        return o

    def accepts(self):
        o = self.observe()
        return bool(o['json_keys'] and 'results' in o['json_keys']) \
            or o['csv_exists'] \
            or bool(o['h5_datasets'] and o['h5_datasets'] != ['metadata']) \
            or bool(o['log_text'] and 'success' in o['log_text'].lower())

    def canonical(self):
        """JSON minus timestamps/durations/log/config paths, CSV body, HDF5
        datasets minus metadata"""
        out = {}
        blob = json.loads((self.out_dir / 'out.json').read_text())
        for k in ('results', 'marker_genes', 'taxonomy_tree',
                  'n_unmapped_genes'):
            out[k] = json.dumps(blob.get(k), sort_keys=False)
        csv = (self.out_dir / 'out.csv').read_text().splitlines()
        out['csv'] = [l for l in csv if not l.startswith('#')]
        out['h5'] = h5_digest(self.out_dir / 'out.h5', skip=('metadata',))
        return out

    def clear_outputs(self):
        for p in self.outputs():
            if p.exists():
                p.unlink()


class MappingCsvOnly(Mapping):
    """no extended (JSON) and no HDF5 output requested: CSV and log only"""
    name = 'mapping.csvOnly'
    want_json = False
    want_h5 = False


class MappingLogOnly(Mapping):
    name = 'mapping.logOnly'
    want_json = False
    want_h5 = False
    want_csv = False


class MappingJsonOnly(Mapping):
    name = 'mapping.jsonOnly'
    want_h5 = False
    want_csv = False


class MappingH5Only(Mapping):
    name = 'mapping.h5Only'
    want_json = False
    want_csv = False


class MappingMany(Mapping):
    """81-85 query cells and a `chunk_size` far above them: the configured
    `n_processors` alone decides the row chunks
    (`ceil(n_rows / n_processors)`); the cell counts are chosen so that 16 and
    17 processes give different chunks"""
    name = 'mappingMany'
    chunk_size = 1000

    def __init__(self, prob, d):
        import random
        r = random.Random(prob.seed)
        own = RefProblem(r, n_leaves=5, n_query=r.choice([81, 82, 83, 84, 85]))
        sub = pathlib.Path(d) / 'many'
        sub.mkdir(exist_ok=True)
        super().__init__(own, sub)


class MappingWide(Mapping):
    """the mapping on a `RefProblem(wide=True)`: >= 32 cells per chunk spread
    over >= 3 sibling parents per level, bootstrap factor 0.7, 10 iterations
    (hash-seed runs)"""
    name = 'mappingWide'
    chunk_size = 40


class StatsFromColumns(Stats):
    """reference statistics with the taxonomy read from the label columns of
    the h5ad (`column_hierarchy`): the children of every node go through a
    `set` (taxonomy/utils.py: get_taxonomy_tree)"""
    name = 'statsColumns'

    def prepare(self):
        self.ref_h5ad()
        self.out = self.d / 'stats_columns_out.h5'

    def run(self, n_processors):
        from cell_type_mapper.diff_exp.precompute_from_anndata import (
            precompute_summary_stats_from_h5ad)
        precompute_summary_stats_from_h5ad(
            data_path=self.ref_h5ad(),
            column_hierarchy=list(self.prob.hierarchy), taxonomy_tree=None,
            output_path=self.out, rows_at_a_time=self.rows_at_a_time,
            normalization='raw', tmp_dir=self.tmp,
            n_processors=n_processors)

    def canonical(self):
        out = h5_digest(self.out, skip=('taxonomy_tree',))
        with h5py.File(self.out, 'r') as src:
            tree = json.loads(src['taxonomy_tree'][()].decode('utf-8'))
        tree.pop('metadata', None)     # timestamp, absolute path
        # as text: the order of the children lists and of the nodes counts
        out['taxonomy_tree'] = json.dumps(tree)
        return out


#: fixtures that only the hash-seed runs use (on a wide problem)
HASHSEED_EXTRA = {c.name: c for c in (MappingWide, StatsFromColumns)}

#: fixture of the host-independence runs (C04)
HOST_FIXTURE = MappingMany

STAGES = {c.name: c for c in (Mapping, MappingCsvOnly, MappingLogOnly,
                              MappingJsonOnly, MappingH5Only, Stats,
                              StatsCopy, RefMarkers, RefMarkersTranspose,
                              PMask, PMarkers, PMarkersTranspose, Selection,
                              SelectionBehemoth, SelectionMultiRef,
                              Transpose)}


def run_wide_canonical(prob_seed, workdir, n_proc=2):
    """canonical outputs of the HASHSEED_EXTRA fixtures on the wide problem
    derived from prob_seed"""
    import random
    prob = RefProblem(random.Random(prob_seed), wide=True)
    out = {}
    for name, cls in HASHSEED_EXTRA.items():
        with pipeline.quiet():
            st = cls(prob, workdir)
            st.run(n_proc)
        out[name] = st.canonical()
    return out


def run_all_canonical(prob_seed, n_leaves, n_proc, fixtures, workdir,
                      selection_query_as_set=False):
    """canonical outputs of the listed fixtures (used in-process and, for the
    PYTHONHASHSEED runs, in a subprocess)"""
    import random
    prob = RefProblem(random.Random(prob_seed), n_leaves=n_leaves)
    out = {}
    for name in fixtures:
        with pipeline.quiet():
            st = STAGES[name](prob, workdir)
            if name == 'selection':
                st.query_as_set = selection_query_as_set
            st.run(n_proc)
        out[name] = st.canonical()
        if name == 'selection':
            out['selection.key_order'] = [
                k for k in st.result.keys() if k != 'log']
    return out


if __name__ == '__main__':
    import sys
    import warnings
    warnings.simplefilter('ignore')
    spec = json.loads(sys.argv[1])
    res = {}
    if spec.get('fixtures'):
        with pipeline.workdir('ctmverif_hashseed_') as wd:
            res = run_all_canonical(
                spec['prob_seed'], spec.get('n_leaves'), spec['n_proc'],
                spec['fixtures'], wd,
                spec.get('selection_query_as_set', False))
    if spec.get('wide'):
        with pipeline.workdir('ctmverif_hashseed_') as wd:
            res.update(run_wide_canonical(spec['prob_seed'], wd))
    sys.stdout.write('CANONICAL ' + json.dumps(res, sort_keys=True) + '\n')
