"""
Forcing the completion order of the worker processes of a real stage.

    with schedules.forced_order(stage, order, mode) as rec:
        stage.run(n_processors)

`order` lists the worker indices (dispatch order, 0 = first started) in the
order in which they must complete; the feasible orders for (n_workers,
n_processors) are enumerated by the Lean model (`procs.completionOrders`).
Built on the Process shim of faults.py: the workers inherit one pipe per
position of the order.  The worker at position i waits until the worker at
position i-1 has sent its pid through pipe i-1 *and* that pid is a zombie (or
gone), i.e. its exit code is visible to the parent's next poll; then

    mode 'entry': it does all its work (so also the *publication* of its
                  result - append to a shared list, store in a shared dict,
                  write a file - happens in the forced order), sends its pid
                  and exits;
    mode 'exit':  it has already done its work concurrently with the others
                  and only exits (sends its pid) in the forced order.

A wait that times out (an infeasible order) leaves a flag; `rec.gate_timeouts`
is then non-zero and the caller must treat the run as an infrastructure
failure, not as evidence.
"""
import contextlib
import os
import select
import time

from ctmverif import faults

WIDTH = 12


def _pid_done(pid):
    """exit code of `pid` is available to its parent (zombie) or already
    collected"""
    try:
        with open('/proc/%d/stat' % pid) as f:
            stat = f.read()
    except (FileNotFoundError, ProcessLookupError):
        return True
    try:
        state = stat.rsplit(')', 1)[1].split()[0]
    except IndexError:
        return True
    return state in ('Z', 'X')


def _wait_turn(gate, pos, rec, index):
    if pos == 0:
        return
    fd = gate['pipes'][pos - 1][0]
    deadline = time.time() + gate['timeout']
    buf = b''
    while len(buf) < WIDTH:
        left = deadline - time.time()
        if left <= 0:
            rec.flag('gate_timeout_%d' % index).write_text('read')
            return
        r, _, _ = select.select([fd], [], [], left)
        if r:
            chunk = os.read(fd, WIDTH - len(buf))
            if not chunk:
                break
            buf += chunk
    try:
        pid = int(buf.decode().strip())
    except ValueError:
        rec.flag('gate_timeout_%d' % index).write_text('pid')
        return
    while not _pid_done(pid):
        if time.time() > deadline:
            rec.flag('gate_timeout_%d' % index).write_text('zombie')
            return
        time.sleep(0.0005)


def _signal(gate, pos):
    os.write(gate['pipes'][pos][1], ('%*d' % (WIDTH, os.getpid())).encode())


def gated_call(index, target, args, kwargs, gate, rec):
    """runs in the worker process (called by faults._child_entry)"""
    order = gate['order']
    if index not in order:
        return target(*args, **kwargs)
    pos = order.index(index)
    if gate['mode'] == 'entry':
        _wait_turn(gate, pos, rec, index)
        try:
            return target(*args, **kwargs)
        finally:
            _signal(gate, pos)
    else:
        try:
            out = target(*args, **kwargs)
        except BaseException:
            _wait_turn(gate, pos, rec, index)
            _signal(gate, pos)
            raise
        _wait_turn(gate, pos, rec, index)
        _signal(gate, pos)
        return out


@contextlib.contextmanager
def forced_order(stage, order, mode='entry', timeout=30, observe=None):
    assert mode in ('entry', 'exit')
    pipes = [os.pipe() for _ in order]
    gate = {'order': list(order), 'mode': mode, 'pipes': pipes,
            'timeout': timeout}
    plan = {'gate': gate}
    if observe is not None:
        plan['observe'] = observe
    try:
        with faults.instrument(stage, plan) as rec:
            yield rec
    finally:
        for r, w in pipes:
            for fd in (r, w):
                try:
                    os.close(fd)
                except OSError:
                    pass


def sample_orders(orders, k, rng):
    """k of the feasible orders: always the dispatch order and the order that
    differs most from it, the rest at random"""
    orders = [list(o) for o in orders]
    if len(orders) <= k:
        return orders
    ident = sorted(orders[0])

    def displacement(o):
        return sum(abs(i - w) for i, w in enumerate(o))
    far = max(orders, key=displacement)
    picked = [ident if ident in orders else orders[0], far]
    rest = [o for o in orders if o not in picked]
    rng.shuffle(rest)
    return picked + rest[:max(0, k - len(picked))]
