"""
Helpers of the C07 suite (props/c07.py): exact-rational shipping, error
enum, h5ad fixtures with explicit HDF5 chunking, comparison of the 'results'
of two mapping runs.
"""
import json
import math
from fractions import Fraction

import numpy as np
import h5py

from ctmverif import pipeline


# ---------------------------------------------------------------------------
# rationals
# ---------------------------------------------------------------------------

def fr(v):
    """a number -> exact [num, den]"""
    if isinstance(v, (int, np.integer)) and not isinstance(v, (bool, np.bool_)):
        return [int(v), 1]
    return list(float(v).as_integer_ratio())


def fr_rows(X):
    return [[fr(v) for v in row] for row in X]


def F(p):
    return Fraction(int(p[0]), int(p[1]))


def as_fraction(v):
    """numpy / python scalar -> Fraction (exact)"""
    if isinstance(v, (int, np.integer)) and not isinstance(v, (bool, np.bool_)):
        return Fraction(int(v))
    return Fraction(float(v))


def close(a, b, rel=1e-9, abs_=1e-9):
    a = float(a)
    b = float(b)
    if math.isnan(a) or math.isnan(b):
        return math.isnan(a) and math.isnan(b)
    if a == b:
        return True
    return abs(a - b) <= max(abs_, rel * max(abs(a), abs(b)))


def rel_close_exact(impl, model, rel):
    """|impl - model| <= rel*|model| with exact arithmetic (model: Fraction)"""
    impl = float(impl)
    if math.isnan(impl) or math.isinf(impl):
        return False
    return abs(Fraction(impl) - model) <= Fraction(rel) * abs(model)


# ---------------------------------------------------------------------------
# errors of CellByGeneMatrix -> enum of CTM.Normalize.NErr
# ---------------------------------------------------------------------------

def classify_error(e):
    """by exception TYPE only; which documented situation an error belongs to
    is decided by the stage / state the suite constructed, never by wording"""
    if isinstance(e, KeyError):
        return 'keyError'
    return type(e).__name__


# exception class of each error constructor of the Lean model (CTM.Normalize)
MODEL_ERR_CLASS = {
    'badNormalization': 'RuntimeError', 'geneCountMismatch': 'RuntimeError',
    'dupGenes': 'RuntimeError', 'dupSelected': 'RuntimeError',
    'notRaw': 'RuntimeError', 'genesDownsampled': 'RuntimeError',
    'negativeRaw': 'RuntimeError', 'keyError': 'keyError',
    'emptyMin': 'ValueError',
}


def model_err_class(name):
    return MODEL_ERR_CLASS.get(name, name)


# ---------------------------------------------------------------------------
# h5ad fixtures
# ---------------------------------------------------------------------------

def write_matrix_file(path, X, dtype, encoding, chunk=None,
                      obs_names=None, var_names=None):
    """
    write an h5ad holding X (nested list) as `dtype` in `encoding`;
    chunk: None (as anndata writes it) | [r, c] for dense | k for sparse:
    re-create the dataset with that explicit HDF5 chunking (sparse, k = 0:
    re-create 'data' contiguous, i.e. not chunked).
    Returns dict(stored=<numpy array of what is stored>, chunks=<tuple|None>,
    dtype=<numpy dtype>)
    """
    arr = np.array(X, dtype=np.dtype(dtype))
    if arr.ndim != 2:
        arr = arr.reshape((len(X), 0 if not X else len(X[0])))
    n, g = arr.shape
    obs_names = obs_names or ['c%d' % i for i in range(n)]
    var_names = var_names or ['g%d' % i for i in range(g)]
    pipeline.write_h5ad(path, arr, obs_names, var_names, encoding=encoding)
    if chunk is not None:
        with h5py.File(path, 'a') as f:
            if encoding == 'dense':
                attrs = dict(f['X'].attrs)
                data = f['X'][()]
                del f['X']
                d = f.create_dataset('X', data=data,
                                     chunks=(int(chunk[0]), int(chunk[1])))
                for k, v in attrs.items():
                    d.attrs[k] = v
            else:
                grp = f['X']
                attrs = dict(grp['data'].attrs)
                data = grp['data'][()]
                if data.shape[0] > 0:
                    del grp['data']
                    if int(chunk) == 0:
                        d = grp.create_dataset('data', data=data)
                    else:
                        d = grp.create_dataset(
                            'data', data=data,
                            chunks=(max(1, min(int(chunk), data.shape[0])),))
                    for k, v in attrs.items():
                        d.attrs[k] = v
    with h5py.File(path, 'r') as f:
        if encoding == 'dense':
            ds = f['X']
        else:
            ds = f['X/data']
        return {'stored': ds[()], 'chunks': ds.chunks, 'dtype': ds.dtype}


def is_unsigned(dtype):
    return bool(np.issubdtype(np.dtype(dtype), np.unsignedinteger))


# ---------------------------------------------------------------------------
# comparison of mapping results
# ---------------------------------------------------------------------------

TIE_EPS = 1e-6


def results_bytes(results):
    return json.dumps(results, sort_keys=True)


def first_difference(a, b, path=''):
    """path of the first difference between two JSON values (None: equal)"""
    if type(a) is not type(b):
        return path or '/'
    if isinstance(a, dict):
        if sorted(a) != sorted(b):
            return path + '/<keys>'
        for k in sorted(a):
            d = first_difference(a[k], b[k], path + '/' + str(k))
            if d:
                return d
        return None
    if isinstance(a, list):
        if len(a) != len(b):
            return path + '/<len>'
        for i, (x, y) in enumerate(zip(a, b)):
            d = first_difference(x, y, '%s/%d' % (path, i))
            if d:
                return d
        return None
    if isinstance(a, float) and math.isnan(a) and math.isnan(b):
        return None
    return None if a == b else (path or '/')


def _candidates(entry):
    out = [(entry.get('assignment'), entry.get('avg_correlation'))]
    out += list(zip(entry.get('runner_up_assignment', []),
                    entry.get('runner_up_correlation', [])))
    return out


def _near_tie_evidence(eb, ev):
    """two candidates whose correlations are within TIE_EPS (inside one run,
    or the two differing winners across the runs)"""
    for e in (eb, ev):
        c = [x[1] for x in _candidates(e) if x[1] is not None]
        for i in range(len(c)):
            for j in range(i + 1, len(c)):
                if close(c[i], c[j], rel=0.0, abs_=TIE_EPS):
                    return True
    if eb.get('assignment') != ev.get('assignment'):
        if close(eb.get('avg_correlation'), ev.get('avg_correlation'),
                 rel=0.0, abs_=TIE_EPS):
            return True
    return False


def compare_tolerant(base_results, var_results, hierarchy, skip_cells=()):
    """
    comparison policy for the relations that perturb floats (factor 1).
    returns (problems, stats): problems = list of (class, cell, level, what);
    stats = dict of counters (excused-near-tie, cells, levels)
    """
    problems = []
    stats = {'cells-compared': 0, 'levels-compared': 0,
             'excused-near-tie': 0}
    b_by = {r['cell_id']: r for r in base_results}
    v_by = {r['cell_id']: r for r in var_results}
    if [r['cell_id'] for r in base_results] != \
            [r['cell_id'] for r in var_results]:
        problems.append(('cells', None, None,
                         'cell lists differ: %r vs %r'
                         % (sorted(b_by)[:5], sorted(v_by)[:5])))
        return problems, stats
    for cid in b_by:
        if cid in skip_cells:
            continue
        stats['cells-compared'] += 1
        rb, rv = b_by[cid], v_by[cid]
        for lvl in hierarchy:
            if lvl not in rb or lvl not in rv:
                if (lvl in rb) != (lvl in rv):
                    problems.append(('levels', cid, lvl, 'level missing in '
                                     'one of the runs'))
                continue
            eb, ev = rb[lvl], rv[lvl]
            diff = []
            if eb.get('assignment') != ev.get('assignment'):
                diff.append('assignment %r vs %r' % (eb.get('assignment'),
                                                     ev.get('assignment')))
            if eb.get('bootstrapping_probability') != \
                    ev.get('bootstrapping_probability'):
                diff.append('bootstrapping_probability %r vs %r' % (
                    eb.get('bootstrapping_probability'),
                    ev.get('bootstrapping_probability')))
            if eb.get('runner_up_assignment') != \
                    ev.get('runner_up_assignment'):
                diff.append('runner_up_assignment %r vs %r' % (
                    eb.get('runner_up_assignment'),
                    ev.get('runner_up_assignment')))
            elif eb.get('runner_up_probability') != \
                    ev.get('runner_up_probability'):
                diff.append('runner_up_probability %r vs %r' % (
                    eb.get('runner_up_probability'),
                    ev.get('runner_up_probability')))
            if eb.get('directly_assigned') != ev.get('directly_assigned'):
                diff.append('directly_assigned differs')
            if diff:
                if _near_tie_evidence(eb, ev):
                    stats['excused-near-tie'] += 1
                    break      # deeper levels follow a different branch
                problems.append(('assignment' if 'assignment' in diff[0][:10]
                                 else 'votes', cid, lvl, '; '.join(diff)))
                break
            stats['levels-compared'] += 1
            if not close(eb.get('avg_correlation'),
                         ev.get('avg_correlation')):
                problems.append(('correlation', cid, lvl,
                                 'avg_correlation %r vs %r' % (
                                     eb.get('avg_correlation'),
                                     ev.get('avg_correlation'))))
                break
            cb = eb.get('runner_up_correlation', [])
            cv = ev.get('runner_up_correlation', [])
            if len(cb) != len(cv) or \
                    not all(close(x, y) for x, y in zip(cb, cv)):
                problems.append(('correlation', cid, lvl,
                                 'runner_up_correlation %r vs %r' % (cb, cv)))
                break
            if not close(eb.get('aggregate_probability'),
                         ev.get('aggregate_probability')):
                problems.append(('votes', cid, lvl,
                                 'aggregate_probability %r vs %r' % (
                                     eb.get('aggregate_probability'),
                                     ev.get('aggregate_probability'))))
                break
    return problems, stats


def constant_marker_cells(X, genes, cell_ids, marker_genes):
    """cells whose values over the markers of some parent are all equal:
    their correlation is 0/0 up to round-off, nothing can be compared"""
    col = {g: i for i, g in enumerate(genes)}
    out = set()
    for p, ms in marker_genes.items():
        idx = [col[g] for g in ms if g in col]
        if len(idx) == 0:
            continue
        for i, cid in enumerate(cell_ids):
            vals = set(X[i][j] for j in idx)
            if len(vals) <= 1:
                out.add(cid)
    return out


# ---------------------------------------------------------------------------
# deep cells in narrow integer dtypes
# ---------------------------------------------------------------------------

def deep_counts(rng, nprng, n, g, dtype):
    """n x g matrix of non-negative integers representable in `dtype`, as
    float64; most rows have a total above the dtype's maximum (a few genes
    with counts near the maximum)"""
    import numpy as np
    hi = int(np.iinfo(np.dtype(dtype)).max)
    X = nprng.integers(0, min(hi, 50) + 1, (n, g)).astype(np.float64)
    for r in range(n):
        if rng.random() < 0.85:
            cols = rng.sample(range(g), rng.randint(2, min(g, 4)))
            for c in cols:
                X[r, c] = float(rng.randint(int(0.55 * hi), hi))
    return X


def deepen(rng, X, genes, markers, dtype):
    """copy of the integer count matrix X (float64) with, in most cells, a few
    genes raised to counts near the maximum of `dtype`, so that the cell total
    exceeds the dtype's range; marker vectors stay non-constant"""
    import numpy as np
    hi = int(np.iinfo(np.dtype(dtype)).max)
    X = np.minimum(np.asarray(X, dtype=np.float64), float(hi)).copy()
    n, g = X.shape
    for r in range(n):
        if rng.random() < 0.85:
            k = rng.randint(2, min(g, 4))
            for c in rng.sample(range(g), k):
                X[r, c] = float(rng.randint(int(0.55 * hi), hi))
    col = {x: j for j, x in enumerate(genes)}
    for _ in range(20):
        changed = False
        for v in markers.values():
            idx = [col[x] for x in v if x in col]
            for r in range(n):
                if len(idx) >= 2 and len(set(X[r, idx])) <= 1:
                    j = idx[0]
                    X[r, j] = X[r, j] - 1.0 if X[r, j] >= hi else X[r, j] + 1.0
                    changed = True
        if not changed:
            break
    return X


def write_h5ad_csr_permuted(path, X, perm, obs_names, var_names):
    """h5ad whose X is csr_matrix(X)[:, perm] with the column indices of every
    row left in the order the permutation produced (not sorted);
    var_names are the names AFTER the permutation"""
    import warnings
    import anndata
    import numpy as np
    import pandas as pd
    import scipy.sparse
    base = scipy.sparse.csr_matrix(np.asarray(X))
    n, g = base.shape
    inv = np.empty(g, dtype=np.int64)
    inv[np.asarray(perm)] = np.arange(g)        # old column -> new column
    sp = scipy.sparse.csr_matrix(
        (base.data.copy(), inv[base.indices].astype(base.indices.dtype),
         base.indptr.copy()), shape=(n, g))
    sp.has_sorted_indices = False
    obs = pd.DataFrame(index=pd.Index([str(o) for o in obs_names],
                                      name='cell_id'))
    var = pd.DataFrame(index=pd.Index([str(v) for v in var_names],
                                      name='gene_id'))
    with warnings.catch_warnings():
        warnings.simplefilter('ignore')
        a = anndata.AnnData(X=sp, obs=obs, var=var)
        a.write_h5ad(path)
    import h5py
    with h5py.File(path, 'r') as f:
        idx = f['X/indices'][()]
        ptr = f['X/indptr'][()]
    unsorted = any((np.diff(idx[ptr[r]:ptr[r + 1]]) < 0).any()
                   for r in range(n))
    return unsorted
