"""
C18, first sentence ("... produced by the pipeline's own stages are accepted by
the next stage and identify clusters and genes consistently by name"): the
NAME TABLES that link the stage files, model CTM/Model/StageFiles.lean.

`check_names(ctx, rng)` runs one generated reference through

    real precompute  ->  rows AND gene columns of the statistics file permuted
    -> get_leaf_means          (~ stats.leafMeans, + census by (leaf, gene) name)
    -> _prep_output_file       (~ stats.refFile, pair_to_idx is the inverse of
                                idx_to_pair, gene_names = col_names)
    -> leaves_to_compare + _idx_of_pair per parent   (~ stats.taxonomyIdx)
    -> create_marker_cache_from_specified_markers + assemble_query_data per
       consulted parent        (~ stats.mapperNode; predicate: column j of the
                                query and of the reference matrix carry the
                                same gene NAME, reference entries are the
                                census means of (leaf name, gene name))

It is called from harness/props/c09.py (statistics-file addressing) and can be
called from harness/props/c18.py (`stagefiles_util.run_c18(ctx)`).
Signatures are `<prop>/names/...`.
"""
import itertools
import json
import pathlib

import h5py
import numpy as np

from ctmverif import pipeline, treeio
from ctmverif.stats_util import jrat, unrat, close

STAT_KEYS = ('sum', 'sumsq', 'gt0', 'gt1', 'ge1')


def permute_stats_genes(path, perm):
    """column j of col_names and of every per-gene array moves to perm[j]"""
    with h5py.File(path, 'r') as f:
        keys = list(f.keys())
        data = {k: f[k][()] for k in keys}
    cols = json.loads(data['col_names'].decode('utf-8'))
    n = len(cols)
    inv = [0] * n
    for j, pj in enumerate(perm):
        inv[pj] = j
    new_cols = [cols[inv[i]] for i in range(n)]
    with h5py.File(path, 'w') as f:
        for k in keys:
            if k == 'col_names':
                f.create_dataset(k, data=json.dumps(new_cols).encode('utf-8'))
            elif k in STAT_KEYS:
                f.create_dataset(k, data=data[k][:, inv])
            else:
                f.create_dataset(k, data=data[k])


class Canon(object):
    """order-preserving ids for the tree (treeio.TreeCanon) and the genes"""

    def __init__(self, tree, genes):
        self.tc = treeio.TreeCanon(tree)
        self.tree_json = self.tc.tree_json(tree)
        self.node = self.tc.node_id
        self.level = self.tc.level_id
        self.genes = sorted(set(genes))
        self.gene = {g: i for i, g in enumerate(self.genes)}

    def key(self, parent):
        if parent is None:
            return None
        return [self.level[parent[0]], self.node[parent[1]]]


def file_json(stats, canon, tree_json):
    rows = []
    n = stats['n_cells']
    for r in range(len(n)):
        genes = []
        for g in range(stats['sum'].shape[1]):
            genes.append([jrat(stats['sum'][r, g]), jrat(stats['sumsq'][r, g]),
                          int(stats['gt0'][r, g]), int(stats['gt1'][r, g]),
                          int(stats['ge1'][r, g])])
        rows.append([int(n[r]), genes])
    return {'clusterToRow': [[canon.node[l], int(r)] for l, r in
                             stats['cluster_to_row'].items()],
            'colNames': [canon.gene[g] for g in stats['col_names']],
            'data': rows, 'tree': tree_json}


def matrix_close(model, ids, genes, data, tol=1e-9):
    """model matrix (exact) vs implementation matrix"""
    if model['cellIds'] != ids:
        return 'cellIds'
    if model['geneIds'] != genes:
        return 'geneIds'
    if len(model['data']) != len(data):
        return 'n_rows'
    for mrow, irow in zip(model['data'], data):
        if len(mrow) != len(irow):
            return 'n_cols'
        for a, b in zip(mrow, irow):
            if not close(float(unrat(a)), float(b), rel=tol, abs_=1e-12):
                return 'values'
    return None


def check_names(ctx, rng):
    from props import c09
    from cell_type_mapper.taxonomy.taxonomy_tree import TaxonomyTree
    from cell_type_mapper.type_assignment.matching import (
        get_leaf_means, assemble_query_data)
    from cell_type_mapper.diff_exp.markers import _prep_output_file
    from cell_type_mapper.marker_selection.marker_array_utils import (
        _idx_of_pair)
    from cell_type_mapper.type_assignment.marker_cache_v2 import (
        create_marker_cache_from_specified_markers)
    from cell_type_mapper.cell_by_gene.cell_by_gene import CellByGeneMatrix
    P = ctx.prop
    ref = c09.Reference(rng)
    cfg = c09.RunConfig(rng, ref, force={'cell_set': None, 'dtype': 'float64'})
    n_leaves = len(ref.leaves)
    row_perm = c09.random_perm(rng, n_leaves)
    gene_perm = c09.random_perm(rng, ref.n_genes)
    # query: reference genes in an independent order, some dropped, some
    # foreign
    qgenes = [g for g in ref.genes if rng.random() < 0.85] or [ref.genes[0]]
    qgenes += ['foreign_%d' % i for i in range(rng.randint(0, 2))]
    rng.shuffle(qgenes)
    nprng = np.random.default_rng(rng.randrange(2 ** 31))
    qX = np.round(nprng.random((rng.randint(1, 3), len(qgenes))) * 9, 3)
    qcells = ['q%d' % i for i in range(qX.shape[0])]
    tree = ref.tree_with_cells()
    tt = TaxonomyTree(data=json.loads(json.dumps(tree)))
    parents = tt.all_parents
    shared = [g for g in ref.genes if g in qgenes]
    lookup = {}
    for p in parents:
        k = 'None' if p is None else '%s/%s' % (p[0], p[1])
        pool = shared if rng.random() < 0.85 else list(ref.genes)
        lookup[k] = rng.sample(pool, rng.randint(0 if p is not None else 1,
                                                 min(3, len(pool)))) \
            if pool else []
    # tables the next stage must refuse: root without a query gene, a gene
    # the reference does not have
    r = rng.random()
    if r < 0.12:
        outside = [g for g in ref.genes if g not in qgenes]
        lookup['None'] = outside[:2]
    elif r < 0.2:
        k = rng.choice(list(lookup))
        lookup[k] = list(lookup[k]) + ['gene_unknown_to_reference']
    min_markers = rng.choice([1, 1, 2])
    detail = c09.ref_detail(ref, cfg, {
        'kind': 'names', 'row_perm': row_perm, 'gene_perm': gene_perm,
        'query_genes': qgenes, 'query_X': qX.tolist(), 'lookup': lookup,
        'min_markers': min_markers})
    return run_names_case(ctx, ref, cfg, detail)


def run_names_case(ctx, ref, cfg, detail):
    from props import c09
    from cell_type_mapper.taxonomy.taxonomy_tree import TaxonomyTree
    from cell_type_mapper.type_assignment.matching import (
        get_leaf_means, assemble_query_data)
    from cell_type_mapper.diff_exp.markers import _prep_output_file
    from cell_type_mapper.marker_selection.marker_array_utils import (
        _idx_of_pair)
    from cell_type_mapper.type_assignment.marker_cache_v2 import (
        create_marker_cache_from_specified_markers)
    from cell_type_mapper.cell_by_gene.cell_by_gene import CellByGeneMatrix
    P = ctx.prop
    row_perm, gene_perm = detail['row_perm'], detail['gene_perm']
    qgenes = detail['query_genes']
    qX = np.array(detail['query_X'], dtype=float).reshape(-1, len(qgenes))
    qcells = ['q%d' % i for i in range(qX.shape[0])]
    lookup = detail['lookup']
    min_markers = detail['min_markers']
    tree = ref.tree_with_cells()
    canon = Canon(tree, list(ref.genes) + list(qgenes) +
                  [g for v in lookup.values() for g in v])
    probs = []

    def viol(sig, what, found=True, **extra):
        probs.append(sig)
        ctx.violation('%s/names/%s' % (P, sig), what, dict(detail, **extra),
                      found_input=found)

    with pipeline.workdir('names_') as d:
        d = pathlib.Path(d)
        res = c09.run_precompute(ref, cfg, d)
        if not res['ok']:
            return
        c09.permute_stats_file(res['path'], row_perm)
        permute_stats_genes(res['path'], gene_perm)
        stats = c09.read_stats(res['path'])
        tt = TaxonomyTree(data=json.loads(json.dumps(tree)))
        leaf_level = tt.leaf_level
        leaves = sorted(tt.all_leaves)
        # ---------------------------------------------------- leaf means
        with pipeline.quiet():
            try:
                means = get_leaf_means(tt, res['path'])
                err = None
            except Exception as e:   # noqa
                err = c09.classify(e)
        ctx.case(json.dumps(detail, sort_keys=True, default=repr))
        ctx.count('names:cases')
        if err is not None:
            viol('leaf-means-crash', 'get_leaf_means fails on a statistics '
                 'file written by the precompute stage (rows and columns '
                 'permuted): %s' % err)
            return
        # census by (leaf name, gene name)
        V = c09.model_values(ref, cfg).astype(np.float64)
        in_files = set(j for f in cfg.files for j in f)
        want = {}
        for leaf in ref.leaves:
            members = [j for j, nm in enumerate(ref.names)
                       if j in in_files and ref.label[nm] == leaf]
            for gi, g in enumerate(ref.genes):
                want[(leaf, g)] = float(np.mean(V[members, gi])) \
                    if members else 0.0
        # (row / column ORDER of the matrix is compared with the model; the
        # property only needs every (leaf name, gene name) entry to be right)
        if sorted(means.cell_identifiers) != leaves:
            viol('leaf-means-rows', 'rows of get_leaf_means are %r, not the '
                 'leaves' % (list(means.cell_identifiers),))
        elif sorted(means.gene_identifiers) != sorted(stats['col_names']):
            viol('leaf-means-cols', 'columns of get_leaf_means are not '
                 'the genes of col_names')
        else:
            for i, leaf in enumerate(means.cell_identifiers):
                for j, g in enumerate(means.gene_identifiers):
                    if not close(means.data[i, j], want[(leaf, g)], rel=1e-9,
                                 abs_=1e-9):
                        viol('leaf-means-value',
                             'mean read for (leaf %r, gene %r) = %r, the '
                             'member cells give %r' % (
                                 leaf, g, float(means.data[i, j]),
                                 want[(leaf, g)]))
                        break
                if probs:
                    break
        fj = file_json(stats, canon, canon.tree_json)
        if ctx.driver_ok:
            mo = ctx.model('stats.leafMeans', {'file': fj})
            bad = 'model-error:' + mo['err'] if 'err' in mo else matrix_close(
                mo['ok'], [canon.node[l] for l in means.cell_identifiers],
                [canon.gene[g] for g in means.gene_identifiers], means.data)
            if bad:
                ctx.disagreements_checked += 1
                if not probs:
                    viol('correspondence/leafMeans/' + bad.split(':')[0],
                         'correspondence stats.leafMeans no longer checks: %s'
                         % bad, found=False,
                         broken='correspondence CTM.StageFiles.leafMeans ~ '
                                'get_leaf_means')
        # --------------------------------------------- reference-marker file
        ref_path = d / 'refmarkers.h5'
        with pipeline.quiet():
            idx_to_pair = _prep_output_file(ref_path, tt,
                                            list(stats['col_names']))
        with h5py.File(ref_path, 'r') as f:
            r_genes = json.loads(f['gene_names'][()].decode())
            pair_to_idx = json.loads(f['pair_to_idx'][()].decode())
            n_pairs = int(f['n_pairs'][()])
        ctx.evaluations += 1
        all_pairs = list(itertools.combinations(leaves, 2))
        flat = {}
        for lvl, d1 in pair_to_idx.items():
            for a, d2 in d1.items():
                for b, k in d2.items():
                    flat[(lvl, a, b)] = k
        # what the later stages need of the table (not its exact shape):
        # every unordered leaf pair, asked for in sorted orientation as
        # leaves_to_compare does, resolves to its own row below n_pairs, and
        # that row is the pair the marker finder scores there (idx_to_pair)
        resolved = {}
        unresolved = None
        for a, b in all_pairs:
            try:
                resolved[(a, b)] = int(_idx_of_pair(pair_to_idx, leaf_level,
                                                    a, b))
            except Exception as e:   # noqa
                unresolved = (a, b, c09.classify(e))
        if r_genes != list(stats['col_names']):
            viol('ref-gene-names', 'gene_names of the reference-marker file '
                 'differ from col_names of the statistics file')
        elif unresolved is not None:
            viol('pair-to-idx', 'leaf pair %r is not in pair_to_idx (%s)'
                 % (unresolved[:2], unresolved[2]))
        elif len(set(resolved.values())) != len(all_pairs) or any(
                not (0 <= k < n_pairs) for k in resolved.values()):
            viol('pair-to-idx', 'two leaf pairs share a row of the marker '
                 'tables, or a row is outside 0..n_pairs-1')
        elif any(tuple(idx_to_pair[k])[1:] != key
                 for key, k in resolved.items()):
            viol('pair-to-idx-inverse', 'pair_to_idx is not the inverse of '
                 'idx_to_pair')
        if ctx.driver_ok:
            mo = ctx.model('stats.refFile', {
                'leaves': [canon.node[l] for l in tt.all_leaves],
                'geneNames': [canon.gene[g] for g in stats['col_names']]})
            impl_p = sorted([canon.node[a], canon.node[b], k]
                            for (_, a, b), k in flat.items())
            if mo['geneNames'] != [canon.gene[g] for g in r_genes] or \
                    mo['nPairs'] != n_pairs or \
                    sorted(mo['pairToIdx']) != impl_p:
                ctx.disagreements_checked += 1
                if not probs:
                    viol('correspondence/refFile',
                         'correspondence stats.refFile no longer checks',
                         found=False,
                         broken='correspondence CTM.StageFiles.prepOutput ~ '
                                '_prep_output_file')
        # ------------------------------------------------ pairs per parent
        for parent in tt.all_parents:
            ctx.evaluations += 1
            lps = tt.leaves_to_compare(parent)
            try:
                idxs = sorted(int(_idx_of_pair(pair_to_idx, *lp))
                              for lp in lps)
                perr = None
            except Exception as e:   # noqa
                perr = c09.classify(e)
            if perr is not None:
                viol('pair-unresolved', 'a pair leaves_to_compare(%r) asks '
                     'for is not in pair_to_idx: %s' % (parent, perr))
                continue
            if any(tuple(idx_to_pair[_idx_of_pair(pair_to_idx, *lp)]) !=
                   tuple(lp) for lp in lps):
                viol('pair-wrong-row', 'a pair of parent %r resolves to the '
                     'row of another pair' % (parent,))
            if ctx.driver_ok:
                mo = ctx.model('stats.taxonomyIdx', {
                    'tree': canon.tree_json,
                    'geneNames': [canon.gene[g] for g in stats['col_names']],
                    'parent': canon.key(parent)})
                if mo.get('ok') != idxs:
                    ctx.disagreements_checked += 1
                    if not probs:
                        viol('correspondence/taxonomyIdx',
                             'correspondence stats.taxonomyIdx no longer '
                             'checks (parent %r: impl %r model %r)'
                             % (parent, idxs, mo), found=False,
                             broken='correspondence CTM.StageFiles.'
                                    'taxonomyIdx ~ _get_taxonomy_idx')
        # ------------------------------------ marker cache + node matrices
        cache_path = d / 'cache.h5'
        with pipeline.quiet():
            try:
                create_marker_cache_from_specified_markers(
                    marker_lookup=json.loads(json.dumps(lookup)),
                    reference_gene_names=list(stats['col_names']),
                    query_gene_names=list(qgenes),
                    output_cache_path=cache_path,
                    taxonomy_tree=tt, min_markers=min_markers)
                cerr = None
            except Exception as e:   # noqa
                cerr = c09.classify(e)
        ctx.count('names:cache-%s' % ('refused' if cerr else 'ok'))
        key_of = {}
        for p in tt.all_parents:
            key_of['None' if p is None else '%s/%s' % (p[0], p[1])] = p
        lk_json = [[canon.key(key_of[k]), [canon.gene[g] for g in v]]
                   for k, v in lookup.items()]
        q_json = {'cellIds': list(range(len(qcells))),
                  'geneIds': [canon.gene[g] for g in qgenes],
                  'data': [[jrat(x) for x in row] for row in qX]}
        if cerr is not None:
            if ctx.driver_ok:
                mo = ctx.model('stats.mapperNode', {
                    'file': fj, 'lookup': lk_json, 'query': q_json,
                    'm': min_markers, 'parent': None})
                if 'err' not in mo or not mo['err'].startswith('markers:'):
                    ctx.disagreements_checked += 1
                    viol('correspondence/cache-verdict',
                         'the marker cache is refused (%s) but the model '
                         'says %r' % (cerr, mo.get('err')), found=False,
                         broken='correspondence CTM.Markers.createCache ~ '
                                'create_marker_cache_from_specified_markers')
            return
        full_q = CellByGeneMatrix(data=qX, gene_identifiers=list(qgenes),
                                  normalization='log2CPM',
                                  cell_identifiers=list(qcells))
        for parent in tt.all_parents:
            kids = tt.children(parent[0], parent[1]) if parent is not None \
                else tt.nodes_at_level(tt.hierarchy[0])
            if len(kids) < 2:
                continue
            ctx.evaluations += 1
            with pipeline.quiet():
                try:
                    out = assemble_query_data(
                        full_query_data=full_q, mean_profile_matrix=means,
                        taxonomy_tree=tt, marker_cache_path=cache_path,
                        parent_node=parent)
                    aerr = None
                except Exception as e:   # noqa
                    aerr = c09.classify(e)
            if aerr is not None:
                viol('assemble-crash', 'assemble_query_data(%r) fails after '
                     'the marker cache was accepted: %s' % (parent, aerr))
                continue
            qd, rd = out['query_data'], out['reference_data']
            names = list(qd.gene_identifiers)
            under = sorted(l for k in kids
                           for l in tt.as_leaves[
                               tt.hierarchy[0] if parent is None else
                               tt.hierarchy[tt.hierarchy.index(parent[0]) + 1]
                           ][k])
            pbad = None
            if names != list(rd.gene_identifiers):
                pbad = 'query and reference columns carry different names'
            elif len(set(names)) != len(names) or any(
                    g not in qgenes or g not in stats['col_names']
                    for g in names):
                pbad = 'a column name is repeated or unknown to a side'
            elif list(rd.cell_identifiers) != under:
                pbad = 'reference rows are %r, leaves below are %r' % (
                    list(rd.cell_identifiers), under)
            else:
                for j, g in enumerate(names):
                    qi = qgenes.index(g)
                    if not np.array_equal(qd.data[:, j], qX[:, qi]):
                        pbad = 'query column %d is not gene %r' % (j, g)
                    for i, leaf in enumerate(under):
                        if not close(rd.data[i, j], want[(leaf, g)],
                                     rel=1e-9, abs_=1e-9):
                            pbad = ('reference entry (leaf %r, gene %r) = %r,'
                                    ' member cells give %r' % (
                                        leaf, g, float(rd.data[i, j]),
                                        want[(leaf, g)]))
            if pbad:
                viol('node-matrices', 'node %r: %s' % (parent, pbad))
            if ctx.driver_ok:
                mo = ctx.model('stats.mapperNode', {
                    'file': fj, 'lookup': lk_json, 'query': q_json,
                    'm': min_markers, 'parent': canon.key(parent)})
                if 'err' in mo:
                    bad = 'model-error:' + mo['err']
                else:
                    bad = matrix_close(
                        mo['ok']['query'], list(range(len(qcells))),
                        [canon.gene[g] for g in names], qd.data) or \
                        matrix_close(
                        mo['ok']['reference'],
                        [canon.node[l] for l in rd.cell_identifiers],
                        [canon.gene[g] for g in rd.gene_identifiers],
                        rd.data)
                if bad:
                    ctx.disagreements_checked += 1
                    if not pbad and not probs:
                        viol('correspondence/mapperNode/' + bad.split(':')[0],
                             'correspondence stats.mapperNode no longer '
                             'checks at %r: %s' % (parent, bad), found=False,
                             broken='correspondence CTM.StageFiles.mapperNode'
                                    ' ~ get_leaf_means + create_marker_cache'
                                    ' + assemble_query_data')


def replay_names(ctx, d):
    from props import c09
    ref, cfg = c09.ref_from_detail(d)
    run_names_case(ctx, ref, cfg, d)


def run_c18(ctx, n=None):
    """hook for harness/props/c18.py"""
    n = n if n is not None else (12 if ctx.tier == 'quick' else 80)
    for _ in range(n):
        check_names(ctx, ctx.rng)
