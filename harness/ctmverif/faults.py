"""
Fault injection into the worker processes of the real parallel stages.

The stage modules create workers with `multiprocessing.Process(target=<module
level worker function>, kwargs=...)`.  While a stage is instrumented the name
`multiprocessing` *inside that stage's module* is replaced by a shim whose
`Process` numbers the workers in dispatch order (0 = first started, exactly the
model's worker id) and routes their target through `_child_entry`.  The start
method is fork, so the plan travels to the child by inheritance; nothing in
/repo is edited.

    with faults.inject(stage, worker_index, point, mode) as rec:
        stage.run(n_processors)          # must raise
    rec.started   # number of workers the stage created
    rec.fired     # did the fault actually fire in worker `worker_index`?

`stage` is anything with attributes `worker = (module, attr)` and
`mid = (module, attr, 'before'|'after')` (see stagefix.py); `point` is
'before' | 'mid' | 'after'; `mode` is 'raise' | 'exit' | 'kill'.

`faults.watchdog(seconds)` bounds a stage call; `faults.reap()` collects the
orphans a failed stage leaves running.
"""
import contextlib
import importlib
import multiprocessing
import os
import pathlib
import shutil
import signal
import sys
import tempfile
import time

POINTS = ('before', 'mid', 'after')
MODES = ('raise', 'exit', 'kill')
EXPECTED_EXIT = {'raise': 1, 'exit': 3, 'kill': -9}


class InjectedFault(RuntimeError):
    pass


class StageTimeout(BaseException):
    """the stage call did not return in time (a spinning poll loop)"""


class Record(object):
    def __init__(self, flag_dir):
        self.started = 0
        self.processes = []
        self.flag_dir = pathlib.Path(flag_dir)
        self._frozen = None

    def flag(self, name):
        return self.flag_dir / name

    def freeze(self):
        """remember the flags before the flag directory is removed"""
        self._frozen = (self.flag('fired').exists(),
                        len(list(self.flag_dir.glob('gate_timeout_*'))))

    @property
    def fired(self):
        if self._frozen is not None:
            return self._frozen[0]
        return self.flag('fired').exists()

    @property
    def gate_timeouts(self):
        if self._frozen is not None:
            return self._frozen[1]
        return len(list(self.flag_dir.glob('gate_timeout_*')))


def _die(mode, rec):
    rec.flag('fired').write_text(mode)
    if mode == 'raise':
        raise InjectedFault('injected worker fault')
    if mode == 'exit':
        os._exit(3)
    if mode == 'kill':
        os.kill(os.getpid(), signal.SIGKILL)
        time.sleep(60)
    raise ValueError(mode)


def _child_entry(index, target, args, kwargs, plan, rec):
    """runs in the worker process"""
    # keep the worker's chatter (tracebacks of injected faults and of orphaned
    # siblings whose scratch directory disappeared) off the check's stderr
    try:
        sys.stderr = open(os.devnull, 'w')
    except Exception:
        pass
    gate = plan.get('gate')
    if gate is not None:
        from ctmverif import schedules
        return schedules.gated_call(index, target, args, kwargs, gate, rec)
    fault = plan.get('fault')
    if fault is None or fault['index'] != index:
        return target(*args, **kwargs)
    point, mode = fault['point'], fault['mode']
    if point == 'before':
        _die(mode, rec)
    if point == 'after':
        target(*args, **kwargs)
        _die(mode, rec)
    if point == 'mid':
        mod_name, attr, when = fault['mid']
        mod = importlib.import_module(mod_name)
        orig = getattr(mod, attr)

        def hooked(*a, **k):
            if when == 'before':
                _die(mode, rec)
            out = orig(*a, **k)
            _die(mode, rec)
            return out
        setattr(mod, attr, hooked)
        return target(*args, **kwargs)
    raise ValueError(point)


class _Shim(object):
    """stands in for the `multiprocessing` module inside one stage module"""

    def __init__(self, real, worker_fn, plan, rec):
        self._real = real
        self._worker_fn = worker_fn
        self._plan = plan
        self._rec = rec

    def __getattr__(self, name):
        return getattr(self._real, name)

    def Process(self, *a, **kw):
        target = kw.get('target')
        if target is not self._worker_fn or a:
            return self._real.Process(*a, **kw)
        index = self._rec.started
        self._rec.started += 1
        p = self._real.Process(
            target=_child_entry,
            args=(index, target, tuple(kw.get('args', ())),
                  dict(kw.get('kwargs', {})), self._plan, self._rec))
        self._rec.processes.append(p)
        return p


@contextlib.contextmanager
def instrument(stage, plan):
    """route the stage's workers through `_child_entry` with `plan`"""
    mod_name, attr = stage.worker
    mod = importlib.import_module(mod_name)
    worker_fn = getattr(mod, attr)
    real = mod.multiprocessing
    flag_dir = tempfile.mkdtemp(
        dir='/dev/shm' if os.path.isdir('/dev/shm') else None,
        prefix='ctmverif_flags_')
    rec = Record(flag_dir)
    mod.multiprocessing = _Shim(real, worker_fn, plan, rec)
    try:
        yield rec
    finally:
        mod.multiprocessing = real
        reap(workers=rec.processes)
        rec.freeze()
        shutil.rmtree(flag_dir, ignore_errors=True)


def inject(stage, worker_index, point, mode):
    """context manager: crash worker `worker_index` of `stage` at `point` by
    `mode`"""
    assert point in POINTS and mode in MODES
    plan = {'fault': {'index': worker_index, 'point': point, 'mode': mode,
                      'mid': getattr(stage, 'mid', None)}}
    return instrument(stage, plan)


def count_workers(stage):
    """context manager that only numbers the workers (no fault)"""
    return instrument(stage, {})


@contextlib.contextmanager
def watchdog(seconds):
    def handler(signum, frame):
        raise StageTimeout('stage call exceeded %ds' % seconds)
    old = signal.signal(signal.SIGALRM, handler)
    signal.alarm(int(seconds))
    try:
        yield
    finally:
        signal.alarm(0)
        signal.signal(signal.SIGALRM, old)


def reap(grace=2.0, workers=None):
    """collect the child processes a failed stage leaves behind: the orphaned
    workers get `grace` seconds to finish, anything else (a Manager server)
    is killed at once"""
    t0 = time.time()
    for p in multiprocessing.active_children():
        if workers is not None and p not in workers:
            continue
        left = max(0.0, grace - (time.time() - t0))
        try:
            p.join(left)
        except Exception:
            pass
    for p in multiprocessing.active_children():
        try:
            p.kill()
            p.join(2)
        except Exception:
            pass
