"""
Fault injection into the worker processes of the real parallel stages.

The stage modules create workers with `multiprocessing.Process(target=<module
level worker function>, kwargs=...)`.  While a stage is instrumented the name
`multiprocessing` *inside that stage's module* is replaced by a shim whose
`Process` numbers the workers in dispatch order (0 = first started, exactly the
model's worker id) and routes their target through `_child_entry`.  The start
method is fork, so the plan travels to the child by inheritance; nothing in
/repo is edited.

    with faults.inject(stage, worker_index, point, mode) as rec:
        stage.run(n_processors)          # must raise
    rec.started   # number of workers the stage created
    rec.fired     # did the fault actually fire in worker `worker_index`?

`stage` is anything with attributes `worker = (module, attr)` and
`mid = (module, attr, 'before'|'after')` (see stagefix.py); `point` is
'before' | 'mid' | 'after'; `mode` is 'raise' | 'exit' | 'kill' | 'term'.

`faults.watchdog(seconds)` bounds a stage call; `faults.reap()` collects the
orphans a failed stage leaves running.
"""
import contextlib
import importlib
import multiprocessing
import os
import pathlib
import shutil
import signal
import sys
import tempfile
import time

POINTS = ('before', 'mid', 'after')
MODES = ('raise', 'exit', 'kill', 'term')
EXPECTED_EXIT = {'raise': 1, 'exit': 3, 'kill': -9, 'term': -15}


class InjectedFault(RuntimeError):
    pass


class StageTimeout(BaseException):
    """the stage call did not return in time (a spinning poll loop)"""


class Record(object):
    def __init__(self, flag_dir):
        self.started = 0
        self.processes = []
        self.flag_dir = pathlib.Path(flag_dir)
        self._frozen = None
        self.orphan_wrote = False
        self.forced_state = {}
        self.observed = []

    def flag(self, name):
        return self.flag_dir / name

    def freeze(self):
        """remember the flags before the flag directory is removed"""
        self._frozen = (self.flag('fired').exists(),
                        len(list(self.flag_dir.glob('gate_timeout_*'))))
        self.orphan_wrote = self.flag('orphan_wrote').exists()

    @property
    def fired(self):
        if self._frozen is not None:
            return self._frozen[0]
        return self.flag('fired').exists()

    @property
    def gate_timeouts(self):
        if self._frozen is not None:
            return self._frozen[1]
        return len(list(self.flag_dir.glob('gate_timeout_*')))


def _die(mode, rec):
    rec.flag('fired').write_text(mode)
    if mode == 'raise':
        raise InjectedFault('injected worker fault')
    if mode == 'exit':
        os._exit(3)
    if mode == 'kill':
        os.kill(os.getpid(), signal.SIGKILL)
        time.sleep(60)
    if mode == 'term':
        # death by SIGTERM (what `kill <pid>`, a batch scheduler or
        # Process.terminate() send); if the worker inherited a handler that
        # turns it into a clean exit, that is what happens here
        os.kill(os.getpid(), signal.SIGTERM)
        time.sleep(60)
    raise ValueError(mode)


def _child_entry(index, target, args, kwargs, plan, rec):
    """runs in the worker process"""
    # keep the worker's chatter (tracebacks of injected faults and of orphaned
    # siblings whose scratch directory disappeared) off the check's stderr
    try:
        sys.stderr = open(os.devnull, 'w')
    except Exception:
        pass
    gate = plan.get('gate')
    if gate is not None:
        from ctmverif import schedules
        return schedules.gated_call(index, target, args, kwargs, gate, rec)
    orphan = plan.get('orphan')
    if orphan is not None:
        return _orphan_child(index, target, args, kwargs, orphan, rec)
    fault = plan.get('fault')
    if fault is None or fault['index'] != index:
        return target(*args, **kwargs)
    point, mode = fault['point'], fault['mode']
    if point == 'before':
        _die(mode, rec)
    if point == 'after':
        target(*args, **kwargs)
        _die(mode, rec)
    if point == 'mid':
        mod_name, attr, when = fault['mid']
        mod = importlib.import_module(mod_name)
        orig = getattr(mod, attr)

        def hooked(*a, **k):
            if when == 'before':
                _die(mode, rec)
            out = orig(*a, **k)
            _die(mode, rec)
            return out
        setattr(mod, attr, hooked)
        return target(*args, **kwargs)
    raise ValueError(point)


def _wait_byte(fd, seconds):
    import select
    r, _, _ = select.select([fd], [], [], seconds)
    if not r:
        return None
    return os.read(fd, 1)


def _orphan_child(index, target, args, kwargs, orphan, rec):
    """worker `crash` dies at once; worker `writer` does its work but holds
    back the publication of its result (the call of `hook`) until the parent
    is about to remove the directory it publishes into"""
    if index == orphan['crash']:
        _die('exit', rec)
    if index != orphan['writer']:
        return target(*args, **kwargs)
    mod = importlib.import_module(orphan['hook'][0])
    orig = getattr(mod, orphan['hook'][1])

    def held(*a, **k):
        got = _wait_byte(orphan['go'][0], 20)
        if got is None:
            rec.flag('gate_timeout_writer').write_text('x')
        try:
            return orig(*a, **k)
        finally:
            rec.flag('orphan_wrote').write_text('x')
            os.write(orphan['done'][1], b'x')
    setattr(mod, orphan['hook'][1], held)
    return target(*args, **kwargs)


@contextlib.contextmanager
def orphan_writes_during_cleanup(stage, crash, writer, hook,
                                 root=None):
    """Forced interleaving: worker `crash` exits with code 3 before its work;
    the surviving sibling `writer` publishes its result exactly when the
    parent, cleaning up after the failure, has listed the first directory
    under `root` it removes and is about to `rmdir` it.  The real clean-up code runs
    unmodified; `pathlib.Path.rmdir` is only delayed until the sibling has
    written.  Yields the Record (`rec.forced` tells whether the interleaving
    was actually produced)."""
    go = os.pipe()
    done = os.pipe()
    plan = {'orphan': {'crash': crash, 'writer': writer, 'hook': hook,
                       'go': go, 'done': done}}
    real_rmdir = pathlib.Path.rmdir
    state = {'forced': False}

    def rmdir(self):
        # the first directory removed under the stage's scratch root: the
        # clean-up works depth first, so this is the innermost buffer
        # directory the workers write into (whatever it is called)
        under = root is None or str(self).startswith(str(root))
        if under and not state['forced']:
            state['forced'] = True
            os.write(go[1], b'x')
            _wait_byte(done[0], 5)
        return real_rmdir(self)
    pathlib.Path.rmdir = rmdir
    try:
        with instrument(stage, plan) as rec:
            rec.forced_state = state
            yield rec
    finally:
        pathlib.Path.rmdir = real_rmdir
        # release a writer that is still waiting
        try:
            os.write(go[1], b'x')
        except OSError:
            pass
        for fd in go + done:
            try:
                os.close(fd)
            except OSError:
                pass


class _Shim(object):
    """stands in for the `multiprocessing` module inside one stage module"""

    def __init__(self, real, worker_fn, plan, rec):
        self._real = real
        self._worker_fn = worker_fn
        self._plan = plan
        self._rec = rec

    def __getattr__(self, name):
        return getattr(self._real, name)

    def Process(self, *a, **kw):
        target = kw.get('target')
        if target is not self._worker_fn or a:
            return self._real.Process(*a, **kw)
        index = self._rec.started
        self._rec.started += 1
        observe = self._plan.get('observe')
        if observe is not None:
            # parent side, at dispatch: what the worker is handed
            self._rec.observed.append(
                observe(index, dict(kw.get('kwargs', {}))))
        p = self._real.Process(
            target=_child_entry,
            args=(index, target, tuple(kw.get('args', ())),
                  dict(kw.get('kwargs', {})), self._plan, self._rec))
        self._rec.processes.append(p)
        return p


@contextlib.contextmanager
def instrument(stage, plan):
    """route the stage's workers through `_child_entry` with `plan`"""
    mod_name, attr = stage.worker
    mod = importlib.import_module(mod_name)
    worker_fn = getattr(mod, attr, None)
    if worker_fn is None:
        # the worker function was renamed: take the (only) function this
        # module hands to Process(target=...)
        import ast
        import inspect
        names = set()
        for n in ast.walk(ast.parse(inspect.getsource(mod))):
            if isinstance(n, ast.Call):
                for k in n.keywords:
                    if k.arg == 'target' and isinstance(k.value, ast.Name):
                        names.add(k.value.id)
        if len(names) != 1:
            raise AttributeError('%s has no %s and %d Process targets'
                                 % (mod_name, attr, len(names)))
        worker_fn = getattr(mod, names.pop())
    real = mod.multiprocessing
    flag_dir = tempfile.mkdtemp(
        dir='/dev/shm' if os.path.isdir('/dev/shm') else None,
        prefix='ctmverif_flags_')
    rec = Record(flag_dir)
    mod.multiprocessing = _Shim(real, worker_fn, plan, rec)
    try:
        yield rec
    finally:
        mod.multiprocessing = real
        reap(workers=rec.processes)
        rec.freeze()
        shutil.rmtree(flag_dir, ignore_errors=True)


def inject(stage, worker_index, point, mode):
    """context manager: crash worker `worker_index` of `stage` at `point` by
    `mode`"""
    assert point in POINTS and mode in MODES
    plan = {'fault': {'index': worker_index, 'point': point, 'mode': mode,
                      'mid': getattr(stage, 'mid', None)}}
    return instrument(stage, plan)


def count_workers(stage, observe=None):
    """context manager that only numbers the workers (no fault);
    observe(index, kwargs) is called in the parent for every worker at
    dispatch and its value appended to rec.observed"""
    return instrument(stage, {'observe': observe} if observe else {})


@contextlib.contextmanager
def watchdog(seconds):
    def handler(signum, frame):
        raise StageTimeout('stage call exceeded %ds' % seconds)
    old = signal.signal(signal.SIGALRM, handler)
    signal.alarm(int(seconds))
    try:
        yield
    finally:
        signal.alarm(0)
        signal.signal(signal.SIGALRM, old)


def reap(grace=2.0, workers=None):
    """collect the child processes a failed stage leaves behind: the orphaned
    workers get `grace` seconds to finish, anything else (a Manager server)
    is killed at once"""
    t0 = time.time()
    for p in multiprocessing.active_children():
        if workers is not None and p not in workers:
            continue
        left = max(0.0, grace - (time.time() - t0))
        try:
            p.join(left)
        except Exception:
            pass
    for p in multiprocessing.active_children():
        try:
            p.kill()
            p.join(2)
        except Exception:
            pass
