"""
Canonicalisation of taxonomy trees for the Lean model, error classification
of the real validator, and implementation-only predicates for C10.
"""
import copy
import itertools
import json
import warnings
import ast

IGNORABLE = {'metadata', 'name_mapper', 'hierarchy_mapper'}


def _skey(x):
    return (0, x) if isinstance(x, str) else (1, repr(x))


class _Subst(ast.NodeTransformer):
    """replace parameter names by the argument expressions of a call"""

    def __init__(self, mapping):
        self.mapping = mapping

    def visit_Name(self, node):
        if node.id in self.mapping:
            return copy.deepcopy(self.mapping[node.id])
        return node


def _inline_calls(stmts, funcs, depth):
    """statement list in which every statement that is just a call of a
    function defined in the same module (`helper(a, b)`, also
    `x = helper(a, b)` is left alone) is replaced by the helper's body with
    its parameters replaced by the arguments; applied inside nested blocks
    too, `depth` levels of helpers deep"""
    out = []
    for st in stmts:
        st = copy.deepcopy(st)
        call = st.value if isinstance(st, ast.Expr) and \
            isinstance(st.value, ast.Call) else None
        if call is not None and isinstance(call.func, ast.Name) and \
                call.func.id in funcs and depth > 0:
            helper = funcs[call.func.id]
            params = [a.arg for a in helper.args.args]
            mapping = {}
            for prm, arg in zip(params, call.args):
                mapping[prm] = arg
            for kw in call.keywords:
                if kw.arg is not None:
                    mapping[kw.arg] = kw.value
            body = [b for b in helper.body
                    if not (isinstance(b, ast.Expr) and
                            isinstance(b.value, ast.Constant))]   # docstring
            body = [_Subst(mapping).visit(copy.deepcopy(b)) for b in body]
            out.extend(_inline_calls(body, funcs, depth - 1))
            continue
        for field in ('body', 'orelse', 'finalbody'):
            if hasattr(st, field) and isinstance(getattr(st, field), list):
                setattr(st, field,
                        _inline_calls(getattr(st, field), funcs, depth))
        out.append(st)
    return out


def _flatten_elif(stmts):
    """top-level statements, an `if … elif …` chain whose branches end in a
    raise being listed branch by branch"""
    out = []
    for st in stmts:
        out.append(st)
        cur = st
        while isinstance(cur, ast.If) and len(cur.orelse) == 1 and \
                isinstance(cur.orelse[0], ast.If):
            cur = cur.orelse[0]
            out.append(cur)
    return out


def normalised_validator(path):
    """validate_taxonomy_tree of the source file as one statement list:
    same-module helpers inlined at their call sites (two levels), the tree
    parameter renamed `taxonomy_tree`, every local bound to
    `<tree>['hierarchy']` renamed `hierarchy`.  None if the function is not
    there."""
    mod = ast.parse(open(path).read())
    funcs = {n.name: n for n in mod.body if isinstance(n, ast.FunctionDef)}
    fn = funcs.get('validate_taxonomy_tree')
    if fn is None or not fn.args.args:
        return None
    body = _inline_calls(fn.body, {k: v for k, v in funcs.items()
                                   if k != 'validate_taxonomy_tree'}, 2)
    tree_param = fn.args.args[0].arg
    rename = {tree_param: ast.Name(id='taxonomy_tree', ctx=ast.Load())}
    holder = ast.Module(body=body, type_ignores=[])
    for n in ast.walk(holder):
        if isinstance(n, ast.Assign) and len(n.targets) == 1 and \
                isinstance(n.targets[0], ast.Name) and \
                isinstance(n.value, ast.Subscript) and \
                isinstance(n.value.value, ast.Name) and \
                n.value.value.id == tree_param and \
                isinstance(n.value.slice, ast.Constant) and \
                n.value.slice.value == 'hierarchy':
            rename[n.targets[0].id] = ast.Name(id='hierarchy', ctx=ast.Load())

    class _Ren(ast.NodeTransformer):
        def visit_Name(self, node):
            if node.id in rename:
                return ast.Name(id=rename[node.id].id, ctx=node.ctx)
            return node
    holder = _Ren().visit(holder)
    return holder.body


def _raises(ifnode):
    return any(isinstance(b, ast.Raise) for b in ast.walk(
        ast.Module(body=ifnode.body, type_ignores=[])))


def _norm(expr):
    return ast.unparse(expr).replace(' ', '')


def extract_validator_constants(path):
    """(ignorable_keys or None, has_repeated_child_test,
    has_no_children_test, recognised), read off the NORMALISED validator
    (helpers inlined, locals renamed): facts, not the shape of the source"""
    body = normalised_validator(path)
    if body is None:
        return None, False, False, False
    holder = ast.Module(body=body, type_ignores=[])
    # the set of ignorable keys: a set literal of strings that is
    # subtracted from the tree's key set (directly or through a local)
    set_locals = {}
    for node in ast.walk(holder):
        if isinstance(node, ast.Assign) and len(node.targets) == 1 and \
                isinstance(node.targets[0], ast.Name) and \
                isinstance(node.value, ast.Set) and \
                all(isinstance(e, ast.Constant) and isinstance(e.value, str)
                    for e in node.value.elts):
            set_locals[node.targets[0].id] = sorted(
                e.value for e in node.value.elts)
    keys = None
    for n in ast.walk(holder):
        if isinstance(n, ast.BinOp) and isinstance(n.op, ast.Sub) and \
                'taxonomy_tree.keys()' in _norm(n.left):
            if isinstance(n.right, ast.Name) and n.right.id in set_locals:
                keys = set_locals[n.right.id]
            elif isinstance(n.right, ast.Set) and all(
                    isinstance(e, ast.Constant) and isinstance(e.value, str)
                    for e in n.right.elts):
                keys = sorted(e.value for e in n.right.elts)
    # child-list tests: inside a loop over hierarchy[:-1], for ONE list X of
    # the loop: `if len(X) == 0 (or: not X, len(X) < 1): raise` and
    # `if len(set(X)) != len(X): raise`
    strict = False
    nochild = False
    for loop in ast.walk(holder):
        if not isinstance(loop, ast.For):
            continue
        if _norm(loop.iter) not in ('hierarchy[:-1]',
                                    'hierarchy[:len(hierarchy)-1]',
                                    'hierarchy[0:-1]'):
            continue
        for n in _flatten_elif([x for x in ast.walk(loop)
                                if isinstance(x, ast.If)]):
            if not _raises(n):
                continue
            t = _norm(n.test)
            m = None
            import re
            m = re.fullmatch(r'len\(set\((\w+)\)\)!=len\((\w+)\)', t) or \
                re.fullmatch(r'len\((\w+)\)!=len\(set\((\w+)\)\)', t)
            if m and m.group(1) == m.group(2):
                strict = True
            if re.fullmatch(r'len\(\w+\)==0|0==len\(\w+\)|not\w+|'
                            r'len\(\w+\)<1|notlen\(\w+\)', t):
                nochild = True
    return keys, strict, nochild, keys is not None


def extract_validator_tests(path):
    """{'dupLevel': bool, 'noNodes': bool}: are the tests
    `len(set(hierarchy)) != len(hierarchy)` and
    `len(hierarchy) == 0 or len(taxonomy_tree[hierarchy[0]]) == 0`
    (each guarding a `raise`) among the top-level statements of the
    normalised validator?"""
    out = {'dupLevel': False, 'noNodes': False}
    body = normalised_validator(path)
    if body is None:
        return out
    for n in _flatten_elif(body):
        if not (isinstance(n, ast.If) and _raises(n)):
            continue
        test = _norm(n.test)
        if test in ('len(set(hierarchy))!=len(hierarchy)',
                    'len(hierarchy)!=len(set(hierarchy))'):
            out['dupLevel'] = True
        if test in ('len(hierarchy)==0orlen(taxonomy_tree[hierarchy[0]])==0',
                    'nothierarchyornottaxonomy_tree[hierarchy[0]]',
                    'len(hierarchy)<1orlen(taxonomy_tree[hierarchy[0]])<1',
                    'nothierarchyorlen(taxonomy_tree[hierarchy[0]])==0'):
            out['noNodes'] = True
    return out


class TreeCanon(object):
    """order-preserving name <-> id tables for one tree (plus extras)"""

    def __init__(self, tree, extra_nodes=(), extra_levels=()):
        level_keys = [k for k in tree.keys()
                      if k != 'hierarchy' and k not in IGNORABLE]
        hierarchy = list(tree.get('hierarchy', []))
        lv = set(level_keys) | set(hierarchy) | set(extra_levels)
        self.levels = sorted(lv, key=_skey)
        self.level_id = {k: i for i, k in enumerate(self.levels)}
        leaf = hierarchy[-1] if hierarchy else None
        nodes = set(extra_nodes)
        for k in level_keys:
            if not isinstance(tree[k], dict):
                continue
            for n, kids in tree[k].items():
                nodes.add(n)
                if k != leaf:
                    for c in kids:
                        nodes.add(c)
        self.nodes = sorted(nodes, key=_skey)
        self.node_id = {k: i for i, k in enumerate(self.nodes)}
        rows = set()
        if leaf in tree and isinstance(tree[leaf], dict):
            for n, kids in tree[leaf].items():
                rows |= set(kids)
        self.rows = sorted(rows, key=lambda x: (0, x) if isinstance(x, int)
                           else (1, repr(x)))
        self.row_id = {k: i for i, k in enumerate(self.rows)}
        self.leaf = leaf
        self.hierarchy = hierarchy

    def tree_json(self, tree):
        level_keys = [k for k in tree.keys()
                      if k != 'hierarchy' and k not in IGNORABLE]
        levels = []
        nodes_are_str = True
        for k in level_keys:
            entries = []
            for n, kids in tree[k].items():
                if not isinstance(n, str):
                    nodes_are_str = False
                if k == self.leaf:
                    vals = [self.row_id[r] for r in kids]
                else:
                    vals = [self.node_id[c] for c in kids]
                entries.append([self.node_id[n], vals])
            levels.append([self.level_id[k], entries])
        return {'hasHierarchy': 'hierarchy' in tree,
                'hierarchy': [self.level_id[h] for h in self.hierarchy],
                'levels': levels, 'nodesAreStr': nodes_are_str}

    def tree_from_json(self, j, raw_rows=False):
        """model tree (ids) -> dict of names, for comparison"""
        out = {'hierarchy': [self.levels[i] for i in j['hierarchy']]}
        leaf = out['hierarchy'][-1] if out['hierarchy'] else None
        for lid, entries in j['levels']:
            lv = self.levels[lid]
            d = {}
            for nid, vals in entries:
                if lv == leaf:
                    d[self.nodes[nid]] = (list(vals) if raw_rows else
                                          [self.rows[v] for v in vals])
                else:
                    d[self.nodes[nid]] = [self.nodes[v] for v in vals]
            out[lv] = d
        return out


ERR_PATTERNS = [
    ("has no 'hierarchy'", 'noHierarchy'),
    ('Expect tree to have keys', 'badKeys'),
    ('is not a str', 'nonStrNode'),
    ('has no parent at level', 'orphan'),
    ('is not present in the keys at', 'missingChild'),
    ('has at least two parents', 'twoParents'),
    ('expected to have a parent at level', 'badParentLevel'),
    ('lists a level more than once', 'dupLevel'),
    ('has no nodes at its top level', 'noNodes'),
    ('has no children', 'noChildren'),
    ('more than once as a child', 'repeatedChild'),
    ('Some rows appear more than once', 'dupRows'),
    ('It is flat', 'flatTree'),
    ('That level is not in the hierarchy', 'levelNotInTree'),
    ('That is the leaf level', 'isLeafLevel'),
    ('is not a valid level', 'badLevel'),
    ('not a valid node', 'badNode'),
]


def classify_error(exc):
    msg = str(exc)
    # `hierarchy[-1]` on an empty hierarchy (validator, get_taxonomy_tree)
    if isinstance(exc, IndexError) and 'list index out of range' in msg:
        return 'emptyHierarchy'
    for pat, name in ERR_PATTERNS:
        if pat in msg:
            return name
    return 'other:%s:%s' % (type(exc).__name__, msg[:80])


def unclassified(verdict):
    """a rejection whose message matches none of ERR_PATTERNS"""
    return verdict.startswith('other:')


def verdicts_agree(impl, model):
    """accept / reject must agree exactly.  The rejection CLASS is compared
    only when the implementation's message is recognised: the property says a
    malformed tree is rejected, not with which words.  An unrecognised
    RuntimeError (the exception type the package raises deliberately) agrees
    with any rejection class of the model; other exception types do not."""
    if impl == 'ok' or model == 'ok':
        return impl == model
    if impl == model:
        return True
    return impl.startswith('other:RuntimeError:')


def rel(tree):
    """a tree dict as a RELATION: level dicts sorted by node, child / row
    lists sorted — C10 constrains the tree as a relation, never the order of
    a child list"""
    out = {}
    for k, v in tree.items():
        if k in IGNORABLE:
            continue
        if isinstance(v, dict):
            out[k] = {n: sorted(c, key=_skey) if isinstance(c, (list, tuple, set))
                      else c for n, c in sorted(v.items(), key=lambda kv: _skey(kv[0]))}
        else:
            out[k] = list(v) if isinstance(v, (list, tuple)) else v
    return out


def impl_validate(tree):
    from cell_type_mapper.taxonomy.utils import validate_taxonomy_tree
    with warnings.catch_warnings():
        warnings.simplefilter('ignore')
        try:
            validate_taxonomy_tree(copy.deepcopy(tree))
            return 'ok'
        except Exception as e:
            return classify_error(e)


def impl_tree(tree):
    from cell_type_mapper.taxonomy.taxonomy_tree import TaxonomyTree
    with warnings.catch_warnings():
        warnings.simplefilter('ignore')
        return TaxonomyTree(data=copy.deepcopy(tree))


def impl_query_all(tt, canon):
    """every public answer of a TaxonomyTree in the model's canonical form"""
    nid = canon.node_id
    lid = canon.level_id
    h = tt.hierarchy
    leaf = tt.leaf_level

    def per_node(f):
        return [[lid[l], [[nid[n], f(l, n)] for n in tt.nodes_at_level(l)]]
                for l in h]

    def kids(l, n):
        c = tt.children(l, n)
        if l == leaf:
            return [canon.row_id[x] for x in c]
        return [nid[x] for x in c]

    as_leaves = tt.as_leaves

    def par(p):
        return None if p is None else [lid[p[0]], nid[p[1]]]

    plist = list(tt.all_parents) + [(leaf, n) for n in tt.nodes_at_level(leaf)]
    pairs = []
    for p in plist:
        res = tt.leaves_to_compare(p)
        assert all(r[0] == leaf for r in res)
        pairs.append([par(p), [[nid[r[1]], nid[r[2]]] for r in res]])
    return {
        'nodesAt': [[lid[l], [nid[n] for n in tt.nodes_at_level(l)]]
                    for l in h],
        'children': per_node(kids),
        'rootChildren': {'ok': [nid[n] for n in tt.children(None, None)]},
        'parents': per_node(
            lambda l, n: [[lid[k], nid[v]]
                          for k, v in tt.parents(l, n).items()]),
        'asLeaves': per_node(lambda l, n: [nid[x] for x in as_leaves[l][n]]),
        'allParents': [par(p) for p in tt.all_parents],
        'leafPairs': pairs,
    }


# --------------------------------------------------------------------------
# implementation-only predicates (the failing-input search for C10)
# --------------------------------------------------------------------------

def strict_tree_facts(tree):
    """Independent census from the raw dict: is it a strict tree?
    returns list of problems (empty = strict tree)"""
    probs = []
    h = tree['hierarchy']
    for pl, cl in zip(h[:-1], h[1:]):
        count = {}
        for p, kids in tree[pl].items():
            for c in kids:
                count[c] = count.get(c, 0) + 1
                if c not in tree[cl]:
                    probs.append('listed child %r of %s:%r does not exist'
                                 % (c, pl, p))
        for c in tree[cl]:
            if count.get(c, 0) != 1:
                probs.append('%s:%r has %d parent entries'
                             % (cl, c, count.get(c, 0)))
    rows = []
    for n, r in tree[h[-1]].items():
        rows += list(r)
    if len(rows) != len(set(rows)):
        probs.append('a reference cell belongs to two leaves')
    return probs


def indep_leaves(tree, level, node):
    """leaves under (level,node), by an independent recursion; as a list
    (multiset)"""
    h = tree['hierarchy']
    i = h.index(level)
    if i == len(h) - 1:
        return [node]
    out = []
    for c in tree[level][node]:
        out += indep_leaves(tree, h[i + 1], c)
    return out


def indep_pairs(tree, parent):
    """sorted multiset of unordered leaf pairs under two different children"""
    h = tree['hierarchy']
    if parent is None:
        sibs = list(tree[h[0]].keys())
        cl = h[0]
    else:
        if parent[0] == h[-1]:
            return []
        cl = h[h.index(parent[0]) + 1]
        sibs = list(tree[parent[0]][parent[1]])
    out = []
    for i in range(len(sibs)):
        for j in range(i + 1, len(sibs)):
            for a in indep_leaves(tree, cl, sibs[i]):
                for b in indep_leaves(tree, cl, sibs[j]):
                    out.append((min(a, b), max(a, b)))
    return sorted(out)


def check_tree_object(tt, tree):
    """C10 on the real object's public answers. returns list of failures"""
    fails = []
    h = tt.hierarchy
    leaf = tt.leaf_level
    as_leaves = tt.as_leaves
    # partition
    for i, l in enumerate(h[:-1]):
        for n in tt.nodes_at_level(l):
            mine = as_leaves[l][n]
            union = []
            for c in tt.children(l, n):
                union += as_leaves[h[i + 1]][c]
            if sorted(mine) != sorted(union) or len(set(union)) != len(union):
                fails.append(('partition', l, n, mine, union))
            # inverse
            for c in tt.children(l, n):
                if tt.parents(h[i + 1], c).get(l) != n:
                    fails.append(('inverse', l, n, c))
    for i, l in enumerate(h[1:]):
        for n in tt.nodes_at_level(l):
            p = tt.parents(l, n)
            if set(p.keys()) != set(h[:i + 1]):
                fails.append(('parents-levels', l, n, p))
                continue
            if n not in tt.children(h[i], p[h[i]]):
                fails.append(('inverse2', l, n, p))
    # every leaf once in the top-level union
    top_union = []
    for n in tt.nodes_at_level(h[0]):
        top_union += as_leaves[h[0]][n]
    if sorted(top_union) != sorted(tt.all_leaves):
        fails.append(('top-partition', top_union))
    # pairs
    plist = list(tt.all_parents) + [(leaf, n) for n in tt.nodes_at_level(leaf)]
    for p in plist:
        got = sorted((r[1], r[2]) for r in tt.leaves_to_compare(p))
        want = indep_pairs(tree, p)
        if got != want:
            fails.append(('pairs', p, got, want))
        if any(r[0] != leaf or not (r[1] < r[2])
               for r in tt.leaves_to_compare(p)):
            fails.append(('pair-form', p))
    return fails


def indep_leaf_paths(tree):
    """{leaf: {level: ancestor}} computed from the raw dict of a valid tree
    (independent of the code under test)"""
    h = tree['hierarchy']
    out = {leaf: {} for leaf in tree[h[-1]]}
    cur = {leaf: leaf for leaf in tree[h[-1]]}
    for i in range(len(h) - 2, -1, -1):
        par = {}
        for p, kids in tree[h[i]].items():
            for c in kids:
                par[c] = p
        for leaf in out:
            cur[leaf] = par[cur[leaf]]
            out[leaf][h[i]] = cur[leaf]
    return out


def leaf_ancestors(tt):
    """{leaf: {level: ancestor}}"""
    out = {}
    leaf = tt.leaf_level
    for n in tt.nodes_at_level(leaf):
        d = dict(tt.parents(leaf, n))
        out[n] = d
    return out


# --------------------------------------------------------------------------
# malformed stream: classes gen.malformed_variants lacks, and the exhaustive
# (every position) enumeration of one-edit variants used on small shapes
# --------------------------------------------------------------------------

def extra_malformed_variants(rng, tree):
    """one-edit variants not produced by gen.malformed_variants:
    (label, tree) pairs; labels ending in '_valid' must still be accepted"""
    out = []
    h = tree['hierarchy']

    def cp():
        return copy.deepcopy(tree)

    # hierarchy emptied (validator indexes hierarchy[-1])
    t = {'hierarchy': []}
    out.append(('empty_hierarchy', t))
    t = cp(); t['hierarchy'] = []; out.append(('empty_hierarchy_with_levels', t))
    if len(h) > 1:
        i = rng.randrange(len(h) - 1)
        t = cp()
        hh = list(h); hh[i], hh[i + 1] = hh[i + 1], hh[i]
        t['hierarchy'] = hh
        out.append(('hierarchy_swapped', t))
        # a parent lists a node of its own level
        pl = h[i]
        ps = list(tree[pl].keys())
        if ps:
            t = cp()
            p = rng.choice(ps)
            t[pl][p] = list(t[pl][p]) + [rng.choice(ps)]
            out.append(('own_level_child', t))
        # repeated child, inserted at a random position (not only appended)
        ps2 = [p for p in ps if len(tree[pl][p]) > 0]
        if ps2:
            t = cp()
            p = rng.choice(ps2)
            kids = list(t[pl][p])
            kids.insert(rng.randrange(len(kids) + 1), rng.choice(kids))
            t[pl][p] = kids
            out.append(('repeated_child', t))
        # second parent listed FIRST in dict order (new parent key moved to front)
        if len(ps) > 1:
            p1, p2 = rng.sample(ps, 2)
            if tree[pl][p1]:
                t = cp()
                c = rng.choice(list(t[pl][p1]))
                new = {p2: [c] + list(t[pl][p2])}
                for k, v in t[pl].items():
                    if k != p2:
                        new[k] = v
                t[pl] = new
                out.append(('two_parents', t))
        # (a) a non-leaf node whose child list is emptied: its former
        #     children become orphans
        j = rng.randrange(len(h) - 1)
        cand = [p for p in tree[h[j]] if len(tree[h[j]][p]) > 0]
        if cand:
            t = cp()
            t[h[j]][rng.choice(cand)] = []
            out.append(('childless_parent', t))
        # (b) an extra node without children at a non-leaf level (listed by
        #     a parent of the level above, so that it is no orphan)
        t = cp()
        t[h[j]]['lonely_zz'] = []
        if j > 0:
            ups = list(t[h[j - 1]].keys())
            if ups:
                pp = rng.choice(ups)
                t[h[j - 1]][pp] = list(t[h[j - 1]][pp]) + ['lonely_zz']
        out.append(('childless_node', t))
        # (c) childless AND repeated child in the same level: the first
        #     offending parent in dict order decides the error class
        pl0 = h[j]
        ps0 = [p for p in tree[pl0] if len(tree[pl0][p]) > 0]
        if ps0:
            t = cp()
            p0 = rng.choice(ps0)
            t[pl0][p0] = list(t[pl0][p0]) + [t[pl0][p0][0]]
            new = {}
            if rng.random() < 0.5:
                new['lonely_zz'] = []
            for k, v in t[pl0].items():
                new[k] = v
            new.setdefault('lonely_zz', [])
            t[pl0] = new
            if j > 0:
                ups = list(t[h[j - 1]].keys())
                if ups:
                    pp = rng.choice(ups)
                    t[h[j - 1]][pp] = list(t[h[j - 1]][pp]) + ['lonely_zz']
            out.append(('childless_and_repeated', t))
    # a level name listed twice (the validator tests this before the key set)
    t = cp(); t['hierarchy'] = list(h) + [rng.choice(h)]
    out.append(('duplicate_level', t))
    t = cp(); t['hierarchy'] = [h[0]] + list(h)
    out.append(('duplicate_level', t))
    if len(h) == 2:
        # ['a','b','a'] with a: {x: [y]}, b: {y: [x]}: the cycle x -> y -> x
        t = {'hierarchy': [h[0], h[1], h[0]],
             h[0]: {'x': ['y']}, h[1]: {'y': ['x']}}
        out.append(('duplicate_level_cycle', t))
    # duplicate level AND a stray key: the duplicate test fires first
    t = cp(); t['hierarchy'] = list(h) + [h[-1]]; t['stray'] = {}
    out.append(('duplicate_level_and_stray', t))
    # top level emptied (its former nodes' children become orphans, but the
    # no-nodes test fires first)
    t = cp(); t[h[0]] = {}
    out.append(('empty_top_level', t))
    # every level emptied: a node-less taxonomy
    t = cp()
    for l in h:
        t[l] = {}
    out.append(('no_nodes_at_all', t))
    # ignorable keys
    t = cp()
    t['name_mapper'] = {}
    t['hierarchy_mapper'] = {}
    out.append(('ignorable_keys_valid', t))
    # duplicate row inside one leaf
    leaf = h[-1]
    with_rows = [k for k in tree[leaf] if len(tree[leaf][k]) > 0]
    if with_rows:
        t = cp()
        a = rng.choice(with_rows)
        t[leaf][a] = list(t[leaf][a]) + [t[leaf][a][-1]]
        out.append(('dup_row_same_leaf', t))
    return out


def all_one_edit_variants(tree):
    """EVERY one-edit corruption (of the classes below) at EVERY position of a
    valid tree; deterministic.  (label, tree) pairs."""
    out = []
    h = tree['hierarchy']

    def cp():
        return copy.deepcopy(tree)

    t = cp(); t.pop('hierarchy'); out.append(('no_hierarchy', t))
    t = cp(); t['stray'] = {}; out.append(('stray_key', t))
    t = cp(); t['hierarchy'] = h + ['ghost']; out.append(('ghost_level', t))
    t = cp(); t['hierarchy'] = ['ghost'] + h; out.append(('ghost_level', t))
    t = cp(); t['hierarchy'] = []; out.append(('empty_hierarchy_with_levels', t))
    out.append(('empty_hierarchy', {'hierarchy': []}))
    t = cp(); t[h[0]] = {}; out.append(('empty_top_level', t))
    t = cp()
    for l in h:
        t[l] = {}
    out.append(('no_nodes_at_all', t))
    for i in range(len(h)):
        for j in range(len(h) + 1):
            t = cp()
            hh = list(h); hh.insert(j, h[i]); t['hierarchy'] = hh
            out.append(('duplicate_level', t))
        if len(h) > 1:
            t = cp(); t['hierarchy'] = h[:i] + h[i + 1:]
            out.append(('unlisted_level', t))
            t = cp(); t.pop(h[i]); out.append(('missing_level_dict', t))
        if i + 1 < len(h):
            t = cp()
            hh = list(h); hh[i], hh[i + 1] = hh[i + 1], hh[i]
            t['hierarchy'] = hh
            out.append(('hierarchy_swapped', t))
        for k in tree[h[i]]:
            t = cp()
            new = {}
            for kk, vv in t[h[i]].items():
                new[7 if kk == k else kk] = vv
            t[h[i]] = new
            out.append(('non_str_node', t))
    for i in range(len(h) - 1):
        pl, cl = h[i], h[i + 1]
        parents = list(tree[pl].keys())
        kids = list(tree[cl].keys())
        for c in kids:
            t = cp(); t[cl].pop(c); out.append(('missing_child_key', t))
        t = cp(); t[cl]['orphan_zz'] = []; out.append(('orphan', t))
        for p in parents:
            for j, c in enumerate(tree[pl][p]):
                t = cp()
                t[pl][p] = list(t[pl][p]) + [c]
                out.append(('repeated_child', t))
                t = cp()
                kk = list(t[pl][p]); kk.insert(0, c); t[pl][p] = kk
                out.append(('repeated_child', t))
                for p2 in parents:
                    if p2 != p:
                        t = cp()
                        t[pl][p2] = list(t[pl][p2]) + [c]
                        out.append(('two_parents', t))
            t = cp()
            t[pl][p] = list(t[pl][p]) + [p]
            out.append(('own_level_child', t))
            t = cp()
            t[pl][p] = list(t[pl][p]) + ['nowhere_zz']
            out.append(('missing_child_key', t))
    leaf = h[-1]
    for a in tree[leaf]:
        for r in tree[leaf][a]:
            for b in tree[leaf]:
                t = cp()
                t[leaf][b] = list(t[leaf][b]) + [r]
                out.append(('dup_row', t))
    for i in range(len(h) - 1):
        for p in tree[h[i]]:
            t = cp(); t[h[i]][p] = []
            out.append(('childless_parent', t))
        t = cp(); t[h[i]]['lonely_zz'] = []
        if i > 0:
            for pp in tree[h[i - 1]]:
                t2 = copy.deepcopy(t)
                t2[h[i - 1]][pp] = list(t2[h[i - 1]][pp]) + ['lonely_zz']
                out.append(('childless_node', t2))
        else:
            out.append(('childless_node', t))
    return out


# --------------------------------------------------------------------------
# isolation: the tree object must not share state with the caller's dict nor
# with the containers it hands out (the Lean model is a value: immutable by
# construction; its value semantics is the specification of the deepcopy)
# --------------------------------------------------------------------------

def public_snapshot(tt):
    """every public answer of a TaxonomyTree as plain, freshly built Python
    data; an exception is part of the answer"""
    try:
        h = list(tt.hierarchy)
        leaf = tt.leaf_level
        snap = {'hierarchy': h, 'leaf_level': leaf,
                'all_leaves': list(tt.all_leaves),
                'n_leaves': tt.n_leaves,
                'all_parents': [None if p is None else tuple(p)
                                for p in tt.all_parents],
                'leaf_to_cells': {k: list(v)
                                  for k, v in tt.leaf_to_cells.items()},
                'nodes': {}, 'children': {}, 'parents': {}, 'rows': {},
                'root_children': list(tt.children(None, None)),
                'siblings': [tuple(x) for x in tt.siblings]}
        as_leaves = tt.as_leaves
        snap['as_leaves'] = {l: {n: list(v) for n, v in as_leaves[l].items()}
                             for l in as_leaves}
        for l in h:
            snap['nodes'][l] = list(tt.nodes_at_level(l))
            for n in snap['nodes'][l]:
                snap['children'][(l, n)] = list(tt.children(l, n))
                snap['parents'][(l, n)] = dict(tt.parents(l, n))
        for n in snap['all_leaves']:
            snap['rows'][n] = list(tt.rows_for_leaf(n))
        pairs = {}
        for p in list(tt.all_parents) + [(leaf, n) for n in snap['all_leaves']]:
            pairs[p] = sorted(tuple(r) for r in tt.leaves_to_compare(p))
        snap['pairs'] = pairs
        snap['to_str'] = json.loads(tt.to_str())
        snap['to_str_nocells'] = json.loads(tt.to_str(drop_cells=True))
        snap['flatten'] = {k: v for k, v in tt.flatten()._data.items()
                           if k not in IGNORABLE}
        return snap
    except Exception as e:
        return {'raises': '%s: %s' % (type(e).__name__, str(e)[:200])}


def snapshot_diff(a, b):
    """first key on which two snapshots differ (None = equal)"""
    if a == b:
        return None
    for k in sorted(set(a) | set(b), key=str):
        if a.get(k) != b.get(k):
            return k
    return '?'


def apply_in_place(d, target):
    """make the caller-owned dict `d` equal to `target` by IN-PLACE edits of
    the containers it already holds (nested dicts and lists keep their
    identity wherever the key survives)"""
    for k in list(d.keys()):
        if k not in target:
            del d[k]
    for k, v in target.items():
        if k in d and isinstance(d[k], dict) and isinstance(v, dict):
            apply_in_place(d[k], v)
            # key order of the level dict follows the target
            if list(d[k].keys()) != list(v.keys()):
                items = [(kk, d[k][kk]) for kk in v.keys()]
                d[k].clear()
                d[k].update(items)
        elif k in d and isinstance(d[k], list) and isinstance(v, list):
            d[k][:] = copy.deepcopy(v)
        else:
            d[k] = copy.deepcopy(v)


def returned_container_mutators(tt):
    """(name, thunk) pairs: each thunk fetches a container from a public
    accessor and mutates what it got"""
    out = []
    h = tt.hierarchy
    leaf = tt.leaf_level

    def mut_list(x):
        x.append('zz_intruder')
        if len(x) > 1:
            x[0] = x[-1]

    def mut_rows(x):
        x.append(987654)
        x.extend(list(x))

    out.append(('hierarchy', lambda: mut_list(tt.hierarchy)))
    out.append(('all_leaves', lambda: mut_list(tt.all_leaves)))
    out.append(('all_parents', lambda: tt.all_parents.clear()))
    out.append(('children(None,None)',
                lambda: mut_list(tt.children(None, None))))
    for l in h:
        out.append(('nodes_at_level', lambda l=l: mut_list(tt.nodes_at_level(l))))
        for n in tt.nodes_at_level(l):
            if l == leaf:
                out.append(('children(leaf)',
                            lambda l=l, n=n: mut_rows(tt.children(l, n))))
                out.append(('rows_for_leaf',
                            lambda n=n: mut_rows(tt.rows_for_leaf(n))))
            else:
                out.append(('children',
                            lambda l=l, n=n: mut_list(tt.children(l, n))))
            out.append(('parents',
                        lambda l=l, n=n: tt.parents(l, n).clear()))

    def mut_ltc():
        x = tt.leaf_to_cells
        for k in x:
            mut_rows(x[k])
        x['zz_intruder'] = [1]
    out.append(('leaf_to_cells', mut_ltc))

    def mut_as_leaves():
        x = tt.as_leaves
        for l in x:
            for n in x[l]:
                mut_list(x[l][n])
    out.append(('as_leaves', mut_as_leaves))

    def mut_pairs():
        for p in tt.all_parents:
            tt.leaves_to_compare(p).clear()
    out.append(('leaves_to_compare', mut_pairs))
    return out


# --------------------------------------------------------------------------
# factories: every way a TaxonomyTree is made from a tree dict
# --------------------------------------------------------------------------

def write_stats_tree_file(path, tree_json_text):
    """a minimal precomputed-stats HDF5 file: only the taxonomy_tree dataset"""
    import h5py
    with h5py.File(path, 'w') as dst:
        dst.create_dataset('taxonomy_tree',
                           data=tree_json_text.encode('utf-8'))


def factory_verdict(name, tree, wd):
    """('ok', tree object) or (error class, None) for one factory fed with
    the tree dict; file based factories write under `wd`"""
    from cell_type_mapper.taxonomy.taxonomy_tree import TaxonomyTree
    with warnings.catch_warnings():
        warnings.simplefilter('ignore')
        try:
            if name == 'constructor':
                tt = TaxonomyTree(data=copy.deepcopy(tree))
            elif name == 'from_str':
                tt = TaxonomyTree.from_str(json.dumps(tree))
            elif name == 'from_json_file':
                path = wd / 'tree.json'
                path.write_text(json.dumps(tree))
                try:
                    tt = TaxonomyTree.from_json_file(path)
                finally:
                    path.unlink(missing_ok=True)
            elif name == 'from_precomputed_stats':
                path = wd / 'stats.h5'
                write_stats_tree_file(path, json.dumps(tree))
                try:
                    tt = TaxonomyTree.from_precomputed_stats(path)
                finally:
                    path.unlink(missing_ok=True)
            else:
                raise ValueError(name)
            return 'ok', tt
        except Exception as e:
            return classify_error(e), None


FACTORIES = ('constructor', 'from_str', 'from_json_file',
             'from_precomputed_stats')
