"""
Shared helpers of the C09 / C16 suites:

* translators (Python `ast`) that regenerate the literal constants the Lean
  models depend on from the *current* source of the repository:
    - lean/CTM/Generated/StatsThresholds.lean  <- utils/stats_utils.py
    - lean/CTM/Generated/IntLadder.lean        <- utils/utils.py
* exact-rational transport of floats, comparison helpers.
"""
import ast
import fractions
import pathlib

import numpy as np

from ctmverif import core

GEN_DIR = core.LEAN / 'CTM' / 'Generated'


# ---------------------------------------------------------------------------
# numbers
# ---------------------------------------------------------------------------

def frac(x):
    """exact value of a Python/numpy number"""
    if isinstance(x, fractions.Fraction):
        return x
    if isinstance(x, (int, np.integer)):
        return fractions.Fraction(int(x))
    return fractions.Fraction(*float(x).as_integer_ratio())


def jrat(x):
    """[num, den] as the Lean driver expects it (CTM.Drive.asRat)"""
    f = frac(x)
    if f.denominator == 1:
        return int(f.numerator)
    return [int(f.numerator), int(f.denominator)]


def unrat(j):
    if isinstance(j, list):
        return fractions.Fraction(int(j[0]), int(j[1]))
    return fractions.Fraction(int(j))


def close(a, b, rel=1e-9, abs_=1e-12):
    """tolerance policy of DESIGN 3.3 for values"""
    a = float(a)
    b = float(b)
    return abs(a - b) <= abs_ + rel * max(abs(a), abs(b))


def lean_rat(f):
    f = frac(f)
    if f.denominator == 1:
        return '(%d : Rat)' % f.numerator
    return '((%d : Rat) / %d)' % (f.numerator, f.denominator)


def lean_int(i):
    i = int(i)
    return '(%d : Int)' % i if i >= 0 else '(%d : Int)' % i


def write_if_changed(path, text):
    path = pathlib.Path(path)
    path.parent.mkdir(parents=True, exist_ok=True)
    if path.is_file() and path.read_text() == text:
        return False
    path.write_text(text)
    return True


class TranslateError(Exception):
    pass


def _func(tree, name):
    for node in ast.walk(tree):
        if isinstance(node, ast.FunctionDef) and node.name == name:
            return node
    raise TranslateError('function %s not found' % name)


def _with_helpers(tree, fn, depth=2):
    """fn plus the module-level functions it calls by bare name (private
    helpers of the same module), `depth` levels deep: their bodies are read
    as if inlined at the call site"""
    defs = {n.name: n for n in tree.body if isinstance(n, ast.FunctionDef)}
    out = [fn]
    frontier = [fn]
    seen = {fn.name}
    for _ in range(depth):
        nxt = []
        for f in frontier:
            for node in ast.walk(f):
                if isinstance(node, ast.Call) and isinstance(
                        node.func, ast.Name) and node.func.id in defs \
                        and node.func.id not in seen:
                    seen.add(node.func.id)
                    nxt.append(defs[node.func.id])
        out += nxt
        frontier = nxt
    return out


def _walk_all(fns):
    for f in fns:
        for node in ast.walk(f):
            yield node


def _eval_float(node, env):
    """evaluate a float expression made of literals, names and + - * /"""
    if isinstance(node, ast.Constant) and isinstance(
            node.value, (int, float)) and not isinstance(node.value, bool):
        return node.value
    if isinstance(node, ast.Name) and node.id in env:
        return env[node.id]
    if isinstance(node, ast.UnaryOp) and isinstance(node.op, ast.USub):
        return -_eval_float(node.operand, env)
    if isinstance(node, ast.BinOp):
        a = _eval_float(node.left, env)
        b = _eval_float(node.right, env)
        if isinstance(node.op, ast.Add):
            return a + b
        if isinstance(node.op, ast.Sub):
            return a - b
        if isinstance(node.op, ast.Mult):
            return a * b
        if isinstance(node.op, ast.Div):
            return a / b
    raise TranslateError('unsupported expression %s' % ast.dump(node))


# ---------------------------------------------------------------------------
# C09: thresholds of summary_stats_for_chunk
# ---------------------------------------------------------------------------

def extract_thresholds(repo=None):
    """
    returns {'gt0': (strict, cut_as_float), 'gt1': ..., 'ge1': ...} from
    `result['gt0'] = (data > zero_cutoff).sum(axis=0)` etc.
    """
    repo = pathlib.Path(repo or core.REPO)
    src = (repo / 'src' / 'cell_type_mapper' / 'utils' /
           'stats_utils.py').read_text()
    fn = _func(ast.parse(src), 'summary_stats_for_chunk')
    env = {}
    out = {}
    for node in ast.walk(fn):
        if not isinstance(node, ast.Assign) or len(node.targets) != 1:
            continue
        tgt = node.targets[0]
        if isinstance(tgt, ast.Name):
            try:
                env[tgt.id] = _eval_float(node.value, env)
            except TranslateError:
                pass
            continue
        if isinstance(tgt, ast.Subscript) and isinstance(
                tgt.value, ast.Name) and tgt.value.id == 'result':
            key = tgt.slice
            if not (isinstance(key, ast.Constant) and
                    key.value in ('gt0', 'gt1', 'ge1')):
                continue
            # (data <op> expr).sum(axis=0)
            v = node.value
            if not (isinstance(v, ast.Call) and
                    isinstance(v.func, ast.Attribute) and
                    v.func.attr == 'sum' and
                    isinstance(v.func.value, ast.Compare)):
                raise TranslateError('unexpected shape of result[%r]'
                                     % key.value)
            cmp_ = v.func.value
            if len(cmp_.ops) != 1 or not (
                    isinstance(cmp_.left, ast.Name) and
                    cmp_.left.id == 'data'):
                raise TranslateError('unexpected comparison for %r'
                                     % key.value)
            op = cmp_.ops[0]
            if isinstance(op, ast.Gt):
                strict = True
            elif isinstance(op, ast.GtE):
                strict = False
            else:
                raise TranslateError('comparison %s for %r'
                                     % (type(op).__name__, key.value))
            out[key.value] = (strict,
                              float(_eval_float(cmp_.comparators[0], env)))
    if set(out) != {'gt0', 'gt1', 'ge1'}:
        raise TranslateError('thresholds found: %s' % sorted(out))
    return out


def thresholds_lean(th):
    lines = [
        '/-',
        '  GENERATED by harness/ctmverif/stats_util.py from',
        '  src/cell_type_mapper/utils/stats_utils.py '
        '(summary_stats_for_chunk).',
        '  Do not edit: rewritten by `./check C09` when the source changes.',
        '  `xStrict = true` means the source compares with `>`, false `>=`;',
        '  `xCut` is the exact value of the float the data is compared with.',
        '-/',
        'namespace CTM.Generated',
        '']
    for k in ('gt0', 'gt1', 'ge1'):
        strict, cut = th[k]
        lines.append('def %sStrict : Bool := %s'
                     % (k, 'true' if strict else 'false'))
        lines.append('def %sCut : Rat := %s' % (k, lean_rat(cut)))
        lines.append('')
    lines.append('end CTM.Generated')
    return '\n'.join(lines) + '\n'


def translate_thresholds(ctx=None, repo=None):
    th = extract_thresholds(repo)
    changed = write_if_changed(GEN_DIR / 'StatsThresholds.lean',
                               thresholds_lean(th))
    if ctx is not None:
        ctx.log('StatsThresholds.lean %s' %
                ('rewritten' if changed else 'unchanged'))
        ctx.extra_cov['generated_thresholds'] = {
            k: [v[0], v[1]] for k, v in th.items()}
    return th


def extract_buffer_bits(repo=None):
    """
    integer width of the per-worker scratch buffers and of the reduction's
    accumulators in diff_exp/precompute_from_anndata.py:
      buffer_dict[k] = np.zeros(.., dtype=int)            (int64: 63 value bits)
      dst.create_dataset(k, data=buffer_dict[k])           (written as they are)
      final_output[k] = np.zeros(src[k].shape, dtype=src[k].dtype)
    Any other shape is not recognised (TranslateError).
    """
    repo = pathlib.Path(repo or core.REPO)
    src = (repo / 'src' / 'cell_type_mapper' / 'diff_exp' /
           'precompute_from_anndata.py').read_text()
    tree = ast.parse(src)
    fn = _func(tree, '_process_chunk_spec')
    worker_fns = _with_helpers(tree, fn)
    int_keys = set()
    for node in _walk_all(worker_fns):
        if isinstance(node, ast.Assign) and len(node.targets) == 1 and \
                isinstance(node.targets[0], ast.Subscript) and \
                ast.unparse(node.targets[0].value) == 'buffer_dict':
            txt = ast.unparse(node.value).replace(' ', '')
            key = ast.literal_eval(node.targets[0].slice)
            if txt.startswith('np.zeros(') and txt.endswith(',dtype=int)'):
                int_keys.add(key)
            elif txt.startswith('np.zeros(') and txt.endswith(',dtype=float)'):
                pass
            else:
                raise TranslateError('buffer_dict[%r] = %s' % (key, txt))
    if int_keys != {'n_cells', 'gt0', 'gt1', 'ge1'}:
        raise TranslateError('integer buffers: %s' % sorted(int_keys))
    # the buffers must reach the scratch file AS THEY ARE: inside the loop over
    # buffer_dict every create_dataset call takes `buffer_dict[k]` itself (or a
    # local that is only ever assigned `buffer_dict[k]`) as data and no dtype;
    # layout options (chunks, compression, ...) are lossless and irrelevant
    written = None
    for node in _walk_all(worker_fns):
        if isinstance(node, ast.For) and ast.unparse(node.iter) in (
                'buffer_dict', 'buffer_dict.keys()'):
            key = ast.unparse(node.target)
            want = 'buffer_dict[%s]' % key
            calls = [c for c in ast.walk(node) if isinstance(c, ast.Call)
                     and isinstance(c.func, ast.Attribute)
                     and c.func.attr == 'create_dataset']
            if not calls:
                continue
            problems = []
            for c in calls:
                kws = {k.arg: k.value for k in c.keywords}
                data = kws.get('data', c.args[1] if len(c.args) > 1 else None)
                if data is None or 'dtype' in kws:
                    problems.append(ast.unparse(c))
                    continue
                txt = ast.unparse(data).replace(' ', '')
                if txt == want:
                    continue
                if isinstance(data, ast.Name):
                    assigned = [ast.unparse(n.value).replace(' ', '')
                                for n in ast.walk(node)
                                if isinstance(n, ast.Assign)
                                and any(isinstance(tg, ast.Name)
                                        and tg.id == data.id
                                        for tg in n.targets)]
                    if assigned and all(x == want for x in assigned):
                        continue
                problems.append(ast.unparse(c))
            written = problems
    if written is None or written:
        raise TranslateError('buffers are not written as they are: %s'
                             % written)
    # the reduction may live in the caller or in a private helper of the same
    # module (its body is read as if inlined at the call site)
    red = _func(tree, '_precompute_summary_stats_from_h5ad_and_lookup')
    alloc = [ast.unparse(n.value).replace(' ', '')
             for n in _walk_all(_with_helpers(tree, red))
             if isinstance(n, ast.Assign) and len(n.targets) == 1 and
             isinstance(n.targets[0], ast.Subscript) and
             isinstance(n.targets[0].value, ast.Name) and
             n.targets[0].value.id != 'buffer_dict' and
             ast.unparse(n.value).replace(' ', '').startswith('np.zeros(')]
    alloc = sorted(set(alloc))
    if alloc != ['np.zeros(src[k].shape,dtype=src[k].dtype)']:
        raise TranslateError('accumulators: %s' % alloc)
    return int(np.iinfo(int).bits) - 1


def translate_buffer_bits(ctx=None, repo=None):
    bits = extract_buffer_bits(repo)
    text = '\n'.join([
        '/-',
        '  GENERATED by harness/ctmverif/stats_util.py from',
        '  src/cell_type_mapper/diff_exp/precompute_from_anndata.py',
        '  (_process_chunk_spec, reduction of the worker buffers).',
        '  Do not edit: rewritten by `./check C09` when the source changes.',
        '  Number of value bits of the integer arrays of the per-worker',
        '  scratch buffers (np.zeros(.., dtype=int), written as they are) and',
        '  hence of the accumulators the reduction allocates with the dtype',
        '  of the first buffer.',
        '-/',
        'namespace CTM.Generated',
        '',
        'def statsBufferIntBits : Nat := %d' % bits,
        '',
        'end CTM.Generated', ''])
    changed = write_if_changed(GEN_DIR / 'StatsBuffers.lean', text)
    if ctx is not None:
        ctx.log('StatsBuffers.lean %s' % ('rewritten' if changed else 'unchanged'))
        ctx.extra_cov['generated_buffer_int_bits'] = bits
    return bits


# ---------------------------------------------------------------------------
# C16: the ladder of choose_int_dtype
# ---------------------------------------------------------------------------

def extract_int_ladder(repo=None):
    """
    the candidate tuple of `choose_int_dtype`, the comparison it applies and
    the default, as [(name, min, max)], default_name
    """
    repo = pathlib.Path(repo or core.REPO)
    src = (repo / 'src' / 'cell_type_mapper' / 'utils' /
           'utils.py').read_text()
    fn = _func(ast.parse(src), 'choose_int_dtype')
    ladder = None
    test = None
    default = None
    for node in ast.walk(fn):
        if isinstance(node, ast.For) and isinstance(node.iter, ast.Tuple):
            names = []
            for el in node.iter.elts:
                if not (isinstance(el, ast.Attribute) and
                        isinstance(el.value, ast.Name) and
                        el.value.id == 'np'):
                    raise TranslateError('candidate %s' % ast.dump(el))
                names.append(el.attr)
            ladder = names
            for sub in node.body:
                if isinstance(sub, ast.If):
                    test = sub.test
        if isinstance(node, ast.If) and isinstance(node.test, ast.Compare) \
                and isinstance(node.test.left, ast.Name) \
                and node.test.left.id == 'output_dtype' \
                and isinstance(node.test.ops[0], ast.Is):
            a = node.body[0]
            if isinstance(a, ast.Assign) and isinstance(a.value, ast.Name):
                default = a.value.id
    if ladder is None or test is None or default is None:
        raise TranslateError('choose_int_dtype: shape not recognised')
    # the acceptance test must be
    #   int_min >= this_info.min and int_max <= this_info.max
    ok = (isinstance(test, ast.BoolOp) and isinstance(test.op, ast.And)
          and len(test.values) == 2)
    if ok:
        a, b = test.values
        ok = (isinstance(a, ast.Compare) and isinstance(b, ast.Compare)
              and isinstance(a.ops[0], ast.GtE)
              and isinstance(b.ops[0], ast.LtE)
              and ast.unparse(a.left) == 'int_min'
              and ast.unparse(a.comparators[0]) == 'this_info.min'
              and ast.unparse(b.left) == 'int_max'
              and ast.unparse(b.comparators[0]) == 'this_info.max')
    if not ok:
        raise TranslateError('choose_int_dtype: acceptance test is %s'
                             % ast.unparse(test))
    # how int_min / int_max are obtained and compared:
    #   np.round(x)                      -> "native"  (scalar's own type)
    #   ... then np.float64(int_min)     -> "float64"
    #   int(np.round(x)) / int(int_min)  -> "exact"
    mode = {}
    for node in ast.walk(fn):
        if isinstance(node, ast.Assign) and len(node.targets) == 1 \
                and isinstance(node.targets[0], ast.Name) \
                and node.targets[0].id in ('int_min', 'int_max'):
            nm_ = node.targets[0].id
            txt = ast.unparse(node.value).replace(' ', '')
            idx = '0' if nm_ == 'int_min' else '1'
            if txt == 'np.round(x_minmax[%s])' % idx:
                mode[nm_] = 'native'
            elif txt == 'int(np.round(x_minmax[%s]))' % idx:
                mode[nm_] = 'exact'
            elif txt == 'np.float64(%s)' % nm_ and nm_ in mode:
                mode[nm_] = 'float64'
            elif txt == 'int(%s)' % nm_ and nm_ in mode:
                mode[nm_] = 'exact'
            else:
                raise TranslateError('choose_int_dtype: %s = %s'
                                     % (nm_, txt))
    if set(mode) != {'int_min', 'int_max'} or \
            mode['int_min'] != mode['int_max']:
        raise TranslateError('choose_int_dtype: rounding not recognised')
    rungs = []
    for nm in ladder:
        info = np.iinfo(getattr(np, nm))
        rungs.append((nm, int(info.min), int(info.max)))
    if default != 'int':
        raise TranslateError('default dtype %s' % default)
    dinfo = np.iinfo(int)
    return rungs, ('int64', int(dinfo.min), int(dinfo.max)), mode['int_min']


def int_ladder_lean(rungs, default, mode):
    lines = [
        '/-',
        '  GENERATED by harness/ctmverif/stats_util.py from',
        '  src/cell_type_mapper/utils/utils.py (choose_int_dtype).',
        '  Do not edit: rewritten by `./check C16` when the source changes.',
        '  Each rung is (numpy dtype name, iinfo.min, iinfo.max), in the',
        '  order the source tries them; `intLadderDefault` is the dtype used',
        '  when no rung accepts (Python `int` = int64).',
        '  `intLadderCompare` says how the rounded bounds are compared with',
        '  the limits: "native" = as numpy scalars of the stored type,',
        '  "float64" = after np.float64(..), "exact" = as Python ints.',
        '-/',
        'namespace CTM.Generated',
        '',
        'def intLadder : List (String × Int × Int) := [']
    body = []
    for nm, lo, hi in rungs:
        body.append('  ("%s", %s, %s)' % (nm, lean_int(lo), lean_int(hi)))
    lines.append(',\n'.join(body) + ']')
    lines.append('')
    lines.append('def intLadderDefault : String × Int × Int := '
                 '("%s", %s, %s)' % (default[0], lean_int(default[1]),
                                     lean_int(default[2])))
    lines.append('')
    lines.append('def intLadderCompare : String := "%s"' % mode)
    lines.append('')
    lines.append('end CTM.Generated')
    return '\n'.join(lines) + '\n'


def translate_int_ladder(ctx=None, repo=None):
    rungs, default, mode = extract_int_ladder(repo)
    changed = write_if_changed(GEN_DIR / 'IntLadder.lean',
                               int_ladder_lean(rungs, default, mode))
    if ctx is not None:
        ctx.log('IntLadder.lean %s' % ('rewritten' if changed else 'unchanged'))
        ctx.extra_cov['generated_int_ladder'] = {
            'rungs': [list(r) for r in rungs], 'default': list(default),
            'compare': mode}
    return rungs, default, mode
