"""
Pipeline level of the election suites: generate a mapping problem, run the
real run_mapping with the trace hook, recompute every vote from the files and
the traced subsets and compare with the JSON output (C02); evaluate the
arithmetic contract on every record and compare the post-loops / inferred
levels with the model (C03).  C18 reuses `analyse_run` with a callback.
"""
import copy
import json
import pathlib

import numpy as np

from ctmverif import election_util as eu
from ctmverif import gen, pipeline


# ---------------------------------------------------------------------------
# case generation (a case is plain JSON: it is its own replay)
# ---------------------------------------------------------------------------

LEVEL_NAMES = ['class', 'subclass', 'supertype', 'cluster', 'L0', 'zeta']


def gen_tree(rng, depth, max_leaves=8, single_top=False, chain_prob=0.25,
             share_names=True):
    """a valid tree of exactly `depth` levels (no cell rows), with
    single-child chains, optionally a single top-level node; dict order is
    not sorted order"""
    levels = rng.sample(LEVEL_NAMES, depth)
    tree = {'hierarchy': levels}
    used = set()

    def fresh(n, taken):
        out = []
        while len(out) < n:
            c = gen.fresh_names(rng, 1)[0]
            if c in out or c in taken or (not share_names and c in used):
                continue
            out.append(c)
            used.add(c)
        return out

    n_top = 1 if single_top else rng.randint(2, 3)
    if depth == 1:
        n_top = rng.randint(2, max_leaves) if not single_top else 1
    current = fresh(n_top, set())
    for i, lv in enumerate(levels):
        tree[lv] = {}
        if i == depth - 1:
            for n in current:
                tree[lv][n] = []
            break
        nxt = []
        budget = max_leaves
        for j, n in enumerate(current):
            remaining_parents = len(current) - j - 1
            room = max(1, budget - len(nxt) - remaining_parents)
            k = 1 if rng.random() < chain_prob else rng.randint(1, 3)
            k = min(k, room)
            kids = fresh(k, set(nxt))
            tree[lv][n] = kids
            nxt += kids
        rng.shuffle(nxt)
        current = nxt
    return tree


def gen_pipeline_case(rng, i, c03_bias=False, many_iters=False):
    depth = 1 + (i % 3) if i % 11 else 4
    if many_iters:
        depth = 1 + (i % 2)
    tree = gen_tree(rng, depth,
                    single_top=(depth > 1 and rng.random() < 0.2),
                    chain_prob=0.3, share_names=(i % 2 == 0))
    mp = pipeline.MappingProblem(rng, tree=tree, n_genes=rng.randint(8, 16),
                                 integer_counts=(i % 3 != 1
                                                 and not many_iters))
    # marker lists: mostly >= 5 genes (with 2 genes every correlation is
    # +-1 and every vote a tie), now and then tiny
    shared = [g for g in mp.ref_genes if g in mp.query_genes]
    for p in mp.parents():
        if rng.random() < 0.95:
            k = rng.randint(min(5, len(shared)), len(shared))
        else:
            k = rng.randint(1, 3)
        mp.markers[p] = rng.sample(shared, min(k, len(shared)))
    normalization = 'raw' if (i % 3 != 1 and not many_iters) else 'log2CPM'
    h = mp.tree['hierarchy']
    leaves = mp.leaves
    label = [normalization, 'depth%d' % len(h)]
    # aimed rows
    if len(leaves) > 2 and rng.random() < 0.15:
        a, b = rng.sample(leaves, 2)
        mp.leaf_mean[b] = mp.leaf_mean[a].copy()
        mp.leaf_sum[b] = mp.leaf_mean[b] * mp.leaf_n[b]
        label.append('dup-centroid')
    if len(leaves) > 2 and i % 4 == 2:
        # 1-2 leaves of the taxonomy have NO cells in the reference: n_cells 0,
        # sum 0 -> mean profile 0/max(1, 0) = all zeros (a constant row)
        for leaf in rng.sample(leaves, rng.randint(1, min(2, len(leaves) - 2))):
            mp.leaf_n[leaf] = 0
            mp.leaf_sum[leaf] = mp.leaf_sum[leaf] * 0.0
            mp.leaf_mean[leaf] = mp.leaf_mean[leaf] * 0.0
        label.append('empty-leaf')
    flat = (i % 5 == 3)
    flat_centroid = flat and len(leaves) > 2 and i % 10 == 3
    if flat_centroid:
        import math
        lf = rng.choice(leaves)
        v = rng.choice([0.1, 1.0 / 3.0, 7.3, math.log2(1.0 + 1.0e6 / 37.0),
                        math.log2(1.0 + 1.0e6 / rng.randint(8, 70)),
                        rng.uniform(0.05, 14.0)])
        mp.leaf_mean[lf] = mp.leaf_mean[lf] * 0.0 + v
        mp.leaf_sum[lf] = mp.leaf_mean[lf] * mp.leaf_n[lf]
        label.append('flat-centroid')
    X = np.array(mp.X, dtype=float)
    if flat and not flat_centroid:
        # query rows constant and NON-zero over every marker: a low-depth
        # cell with one count per gene (raw) / a flat log2CPM profile
        import math
        # every flat row gets its OWN constant (raw: one count per gene plus a
        # pile of counts on a gene that is no marker anywhere, so the CPM of
        # the markers is 1e6/(n_genes + pile)): whether an unstable formula
        # cancels to a negative number depends on the value and on the number
        # of sampled genes, so a case should try many (value, n) pairs
        in_marker = set(g for m in mp.markers.values() for g in m)
        nonmarker = [c for c, g in enumerate(mp.query_genes)
                     if g not in in_marker]
        for r in range(X.shape[0]):
            if rng.random() < 0.6:
                if normalization == 'raw':
                    X[r, :] = 1.0
                    u = rng.random()
                    if u < 0.6 and nonmarker:
                        X[r, rng.choice(nonmarker)] += float(
                            rng.randint(1, 60))
                    elif u < 0.8:
                        X[r, rng.randrange(X.shape[1])] += 2.0
                else:
                    X[r, :] = rng.choice(
                        [0.1, 1.0 / 3.0, 7.3,
                         math.log2(1.0 + 1.0e6 / 11.0),
                         math.log2(1.0 + 1.0e6 / rng.randint(8, 70)),
                         rng.uniform(0.05, 14.0)])
                    if rng.random() < 0.3:
                        X[r, rng.randrange(X.shape[1])] += 2.0
        label.append('flat-nonzero-cell')
    if normalization == 'log2CPM':
        qcol = {g: k for k, g in enumerate(mp.query_genes)}
        for r in range(X.shape[0]):
            if rng.random() < (0.9 if many_iters else 0.3):
                leaf = rng.choice(leaves)
                for k, g in enumerate(mp.ref_genes):
                    if g in qcol:
                        X[r, qcol[g]] = mp.leaf_sum[leaf][k] / max(1, mp.leaf_n[leaf])
                label.append('query=centroid')
    else:
        for r in range(X.shape[0]):
            if rng.random() < 0.1:
                X[r, :] = 0.0
                X[r, rng.randrange(X.shape[1])] = 3.0
                label.append('one-gene-cell')
    if normalization == 'raw' and i % 6 == 2:
        # 'raw' rows that are not counts: non-negative fractions whose rows sum
        # to LESS THAN 1 (library-size normalised abundances on a panel); CPM
        # divides by the row sum whatever its size
        for r in range(X.shape[0]):
            tot = X[r].sum()
            if tot > 0:
                X[r, :] = X[r, :] / tot * rng.choice([0.9, 0.5, 0.03, 1e-3])
        label.append('raw-rows-sum-lt-1')
    if normalization == 'raw' and i % 6 == 5:
        # empty cells (no count at all) among the others: CPM 0, log2(1+0) = 0,
        # a constant row -> correlation 0 with every leaf (never NaN)
        for r in range(X.shape[0]):
            if rng.random() < 0.4 or r == 0:
                X[r, :] = 0.0
        label.append('raw-empty-cells')
    sparse = (i % 7 == 5) and normalization == 'raw'
    if sparse:
        # sparse cells: zero on most genes, so that some drawn subsets see a
        # flat (all-zero) profile -> correlation 0 with every leaf, the vote
        # goes to the first leaf with correlation exactly 0.0
        for r in range(X.shape[0]):
            X[r, :] = 0.0
            for c in rng.sample(range(X.shape[1]), rng.randint(2, 4)):
                X[r, c] = float(rng.randint(1, 30))
        label.append('sparse-cells')
    n_min = min(len(v) for v in mp.markers.values())
    u = rng.random()
    if u < 0.2:
        factor = 1.0
    elif u < 0.35:
        factor = 0.5
    elif u < 0.38:
        factor = 1.0 / n_min
    elif u < 0.55:
        factor = (rng.randint(min(2, n_min - 1), n_min - 1) + 0.5) / n_min
    else:
        factor = rng.uniform(0.3, 1.0)
    if sparse:
        factor = min(1.0, rng.choice([2.0, 3.0]) / n_min)
    opts = {
        'bootstrap_factor': factor,
        'bootstrap_iteration': (rng.randint(10, 16) if sparse else
                                rng.choice([1, 1, 2, 3, 5, 8, 12])
                                if c03_bias else rng.randint(1, 12)),
        'rng_seed': rng.randrange(2 ** 31),
        'n_runners_up': 5 if sparse else rng.choice([0, 0, 1, 2, 5]),
        'n_processors': rng.randint(1, 3),
        'chunk_size': rng.randint(1, 6),
        'normalization': normalization,
        'encoding': rng.choice(['dense', 'csr', 'csc'])
        if normalization == 'raw' else 'dense',
        'flatten': False, 'drop_level': None,
    }
    opts['bootstrap_factor_lookup'] = None
    if len(h) >= 2 and rng.random() < 0.4:
        # a different factor per parent level
        opts['bootstrap_factor_lookup'] = [
            [lv, rng.choice([1.0, 0.5, rng.uniform(0.3, 1.0)])]
            for lv in ['None'] + h[:-1]]
        label.append('factor-per-level')
    if len(h) >= 2:
        u = rng.random()
        if u < (0.3 if c03_bias else 0.15):
            opts['flatten'] = True
            label.append('flatten')
        elif u < (0.6 if c03_bias else 0.3):
            opts['drop_level'] = rng.choice(h[:-1])
            label.append('drop_level')
    if many_iters:
        # >= 256 iterations: the vote counter leaves uint8; few cells
        opts['bootstrap_iteration'] = rng.choice([256, 257, 300, 700])
        label.append('iters>=256')
        X = X[:3]
        mp.cell_ids = mp.cell_ids[:3]
    return {
        'kind': 'pipeline', 'label': sorted(set(label)), 'tree': mp.tree,
        'ref_genes': mp.ref_genes, 'leaf_n': mp.leaf_n,
        'leaf_sum': {k: [float(v) for v in mp.leaf_sum[k]]
                     for k in mp.leaves},
        'query_genes': mp.query_genes, 'cell_ids': mp.cell_ids,
        'X': X.tolist(), 'markers': mp.markers, 'opts': opts}


def write_case(case, d):
    d = pathlib.Path(d)
    stats = pipeline.write_stats_file(
        d / 'stats.h5', case['tree'], case['ref_genes'],
        {k: np.array(v, dtype=float) for k, v in case['leaf_sum'].items()},
        case['leaf_n'])
    q = pipeline.write_h5ad(d / 'query.h5ad', np.array(case['X']),
                            case['cell_ids'], case['query_genes'],
                            encoding=case['opts'].get('encoding', 'dense'))
    m = d / 'markers.json'
    m.write_text(json.dumps(case['markers']))
    return stats, q, m


def config_for(case, stats, q, m, d):
    o = case['opts']
    return pipeline.mapping_config(
        q, stats, m, d, d, n_processors=o['n_processors'],
        chunk_size=o['chunk_size'], bootstrap_factor=o['bootstrap_factor'],
        bootstrap_iteration=o['bootstrap_iteration'], rng_seed=o['rng_seed'],
        n_runners_up=o['n_runners_up'], normalization=o['normalization'],
        flatten=o['flatten'], drop_level=o['drop_level'],
        bootstrap_factor_lookup=o.get('bootstrap_factor_lookup'))


# ---------------------------------------------------------------------------
# the check
# ---------------------------------------------------------------------------

def check_pipeline(ctx, case, sig, do_votes=True, do_c03=False,
                   _shrinking=False):
    n0 = len(ctx.violations)
    ok = _check_pipeline(ctx, case, sig, do_votes, do_c03, _shrinking)
    if not _shrinking and len(ctx.violations) > n0:
        _shrink(ctx, case, sig, do_votes, do_c03, n0)
    return ok


def _shrink(ctx, case, sig, do_votes, do_c03, n0):
    """try to reduce a failing pipeline case to the single offending cell
    (the drawn subsets change with the chunking, so this may not reproduce;
    then the full case is kept)"""
    v = ctx.violations[n0]
    d = v['detail']
    cid = d.get('cell')
    if cid is None and isinstance(d.get('record'), dict):
        cid = d['record'].get('cell_id')
    if not v['found_input'] or cid not in case.get('cell_ids', []) or \
            len(case['cell_ids']) < 2:
        return
    i = case['cell_ids'].index(cid)
    small = copy.deepcopy({k: case[k] for k in case})
    small['cell_ids'] = [case['cell_ids'][i]]
    small['X'] = [case['X'][i]]
    small['opts'] = dict(case['opts'], n_processors=1, chunk_size=1)
    small['label'] = list(case.get('label', [])) + ['shrunk']
    n1 = len(ctx.violations)
    saved = (ctx.evaluations, ctx.traces, dict(ctx.dist),
             set(ctx.nontrivial_keys), list(ctx.samples))
    try:
        check_pipeline(ctx, small, sig, do_votes, do_c03, _shrinking=True)
    except Exception:   # noqa  (never let the shrinker change the verdict)
        pass
    new = ctx.violations[n1:]
    del ctx.violations[n1:]
    (ctx.evaluations, ctx.traces, ctx.dist, ctx.nontrivial_keys,
     ctx.samples) = saved
    for w in new:
        if w['signature'] == v['signature'] and w['found_input']:
            w['detail']['shrunk_from_cells'] = len(case['cell_ids'])
            ctx.violations[n0] = w
            break


def _check_pipeline(ctx, case, sig, do_votes, do_c03, _shrinking):
    for lb in case.get('label', []):
        if not _shrinking:
            ctx.count('pipeline:' + lb)
    with pipeline.workdir() as d:
        stats, q, m = write_case(case, d)
        cfg = config_for(case, stats, q, m, d)
        res = eu.run_traced_mapping(d, cfg)
        genes, means, tree = eu.read_stats_means(stats)
        names, qgenes, xlog = eu.read_query(q, case['opts']['normalization'])
    inputs = {'ref_genes': genes, 'means': means, 'tree': tree,
              'cell_names': names, 'query_genes': qgenes, 'xlog': xlog}
    return analyse_run(ctx, sig, case, res, inputs, case['opts'],
                       do_votes=do_votes, do_c03=do_c03)


def analyse_run(ctx, sig, case, res, inputs, opts, do_votes=True,
                do_c03=False, on_iteration=None):
    """returns True if the run could be analysed"""

    def violation(cls, what, found=True, **extra):
        dd = dict(case)
        dd.update(extra)
        if not found:
            dd['broken'] = what
        ctx.violation('%s/pipeline/%s' % (sig, cls), what, dd,
                      found_input=found)

    if not res['ok'] or res['json'] is None:
        e = res['error']
        violation('run-fails/%s' % type(e).__name__,
                  'run_mapping failed on a valid problem: %r' % (e,))
        return False
    tv = eu.TreeView(inputs['tree'])
    run_h = tv.run_hierarchy(flatten=opts['flatten'],
                             drop_level=opts['drop_level'])
    iters = opts['bootstrap_iteration']
    n_runners = opts['n_runners_up']
    results = res['json']['results']
    by_id = {}
    for r in results:
        by_id[r['cell_id']] = r
    if [r['cell_id'] for r in results] != list(inputs['cell_names']):
        violation('cells/order', 'results do not list the query cells in '
                  'order', found=True)
        return False
    has_choice = False
    # ---------------- C03 on every record
    if do_c03:
        for r in results:
            ctx.evaluations += 1
            probs = eu.c03_record_problems(r, tv, run_h, iters, n_runners)
            if probs:
                violation('record/' + probs[0][0],
                          'cell %r: %s' % (r['cell_id'], probs[:4]),
                          record=r, run_hierarchy=run_h)
                return True
            if ctx.driver_ok:
                if not model_record(ctx, sig, case, r, tv, run_h, violation):
                    return True
    # ---------------- C02: recompute the votes
    chunks = res['chunks']
    row_of = {c: i for i, c in enumerate(inputs['cell_names'])}
    qcol = {g: i for i, g in enumerate(inputs['query_genes'])}
    rcol = {g: i for i, g in enumerate(inputs['ref_genes'])}
    seen_cells = []
    n_amb = 0
    for ch in chunks:
        if ch.get('unterminated') or ch['cell_ids'] is None:
            violation('trace/unterminated', 'trace without chunk event',
                      found=False)
            return False
        seen_cells += ch['cell_ids']
        node_of = {}
        for nd in ch['nodes']:
            key = None if nd['parent'] is None else tuple(nd['parent'])
            node_of[key] = nd
        # which parents must have voted in this chunk
        needed = {}
        for cid in ch['cell_ids']:
            rec = by_id[cid]
            parent = None
            for lv in run_h:
                pl, pn = (None, None) if parent is None else parent
                _, sibs = tv.children(run_h, pl, pn)
                if len(sibs) > 1:
                    needed.setdefault(parent, []).append(cid)
                parent = (lv, rec[lv]['assignment'])
        if set(needed) != set(node_of):
            violation('trace/nodes', 'nodes voted on %r, records need %r'
                      % (sorted(map(repr, node_of)),
                         sorted(map(repr, needed))), found=False)
            return False
        for parent, cids in needed.items():
            has_choice = True
            nd = node_of[parent]
            pl, pn = (None, None) if parent is None else parent
            cl, sibs = tv.children(run_h, pl, pn)
            leaves = tv.leaves_under(pl, pn)
            types = [tv.anc[l][cl] for l in leaves]
            g = list(nd['query_genes'])
            n_markers = len(g)
            ctx.count('pipeline:node-children-%d' % min(len(sibs), 4))
            # --- predicates on the node event
            if list(nd['reference_leaves']) != leaves or \
                    list(nd['reference_types']) != types:
                violation('node/leaves', 'node %r: reference rows %r / types '
                          '%r are not the leaves below the node %r / %r'
                          % (parent, nd['reference_leaves'],
                             nd['reference_types'], leaves, types))
                return True
            if ctx.driver_ok:
                all_leaves = sorted(tv.leaves)
                lid_ = {l: i for i, l in enumerate(all_leaves)}
                kid_ = {c: i for i, c in enumerate(sorted(sibs))}
                # children in dict order of the tree (not sorted), leaves of a
                # child in sorted order (as_leaves)
                out = ctx.model('election.assemble', {
                    'kids': [kid_[c] for c in reversed(sorted(sibs))],
                    'leaves': [[kid_[c], [lid_[l] for l in leaves
                                          if tv.anc[l][cl] == c]]
                               for c in sibs]})
                if [all_leaves[i] for i in out['rows']] != list(
                        nd['reference_leaves']) or \
                        [sorted(sibs)[i] for i in out['types']] != list(
                        nd['reference_types']):
                    ctx.disagreements_checked += 1
                    violation('correspondence/assembleRows',
                              'correspondence CTM.Election.assembleRows ~ '
                              'assemble_query_data (rows / types)',
                              found=False, model=out,
                              impl=[nd['reference_leaves'],
                                    nd['reference_types']])
                    return True
            if list(nd['reference_genes']) != g:
                violation('node/gene-pairing', 'node %r: query and reference '
                          'columns name different genes' % (parent,))
                return True
            if len(set(g)) != len(g) or any(
                    x not in qcol or x not in rcol for x in g):
                violation('node/genes', 'node %r: marker genes repeat or '
                          'are missing from query/reference' % (parent,))
                return True
            if nd['n_cells'] != len(cids):
                violation('node/cells', 'node %r voted on %d cells, %d were '
                          'assigned to it' % (parent, nd['n_cells'],
                                              len(cids)))
                return True
            subsets = nd['subsets']
            factor = opts['bootstrap_factor']
            if opts.get('bootstrap_factor_lookup'):
                factor = dict((k, v) for k, v in
                              opts['bootstrap_factor_lookup'])[str(pl)]
            size = eu.expected_subset_size(factor, n_markers)
            if len(subsets) != iters or any(
                    k != n_markers for k in nd['n_markers_seen']):
                violation('subset/count', 'node %r: %d subsets for %d '
                          'iterations' % (parent, len(subsets), iters))
                return True
            for s in subsets:
                p = eu.subset_problems(s, n_markers, size)
                if p:
                    violation('subset/' + p[0].split(' ')[0],
                              'node %r: subset %r of %d markers, factor %r: '
                              '%s' % (parent, s, n_markers, factor, p))
                    return True
            if not do_votes:
                continue
            refs = np.array([[inputs['means'][l][rcol[x]] for x in g]
                             for l in leaves], dtype=float)
            xs = np.array([[inputs['xlog'][row_of[c], qcol[x]] for x in g]
                           for c in cids], dtype=float)
            mv = None
            if ctx.driver_ok:
                mv = ctx.model('election.cellVotes', {
                    'refs': [eu.rats(r) for r in refs.tolist()],
                    'xs': [eu.rats(r) for r in xs.tolist()],
                    'subsets': subsets})
            names = sorted(set(types))
            tid = {t: i for i, t in enumerate(names)}
            for ci, cid in enumerate(cids):
                rec = by_id[cid][cl]
                ctx.evaluations += 1
                dv = {t: 0 for t in sibs}
                dc = {t: 0.0 for t in sibs}
                lo = {t: 0 for t in sibs}   # votes a child gets for sure
                hi = {t: 0 for t in sibs}   # votes it can get at most
                ambiguous = False
                rows = []
                for it, s in enumerate(subsets):
                    fr = eu.float_corr(refs[:, s], xs[ci, s])
                    j = int(fr.argmax())
                    adm = set(types[k] for k in range(len(leaves))
                              if fr[k] >= fr[j] - eu.REL)
                    frag = eu.fragile_constant(xs[ci, s]) or \
                        eu.fragile_constant(refs[:, s])
                    if frag:
                        adm = set(types)
                        ctx.count('pipeline:fragile-constant-row')
                    if len(adm) > 1:
                        ambiguous = True
                    else:
                        lo[types[j]] += 1
                    for t in adm:
                        hi[t] += 1
                    dv[types[j]] += 1
                    dc[types[j]] += float(fr[j])
                    if on_iteration is not None:
                        on_iteration(cid, parent, cl, leaves, types, it, s,
                                     fr, xs[ci, s], refs[:, s])
                    if mv is not None:
                        m = mv[ci][it]
                        if 'err' in m:
                            ctx.disagreements_checked += 1
                            violation('correspondence/tallyIter-error',
                                      'correspondence CTM.Election.tallyIter'
                                      ' ~ tally_votes', found=False, model=m)
                            return True
                        sc = [eu.ssq_to_r(eu.frac(v)) for v in m['scores']]
                        if max(abs(a - b) for a, b in zip(sc, fr)) > eu.REL:
                            ctx.disagreements_checked += 1
                            violation('correspondence/corrSsq',
                                      'correspondence CTM.Numeric.corrSsq ~ '
                                      'Pearson (float recomputation)',
                                      found=False, exact=sc,
                                      float=fr.tolist())
                            return True
                        rows.append([m['idx'], eu.rat(sc[m['idx']])])
                cvals = [rec['avg_correlation']] + list(
                    rec['runner_up_correlation'])
                if any(v is None or v != v or abs(v) > 1 + eu.REL
                       for v in cvals):
                    violation('votes/corr-not-finite',
                              'cell %r at node %r: correlations %r'
                              % (cid, parent, cvals), cell=cid, node=parent,
                              record=rec, genes=g, subsets=subsets)
                    return True
                if ambiguous:
                    # tie between children in some iteration: the record
                    # must still be one of the admissible outcomes
                    n_amb += 1
                    listed = [(rec['assignment'],
                               rec['bootstrapping_probability'])] + list(zip(
                        rec['runner_up_assignment'],
                        rec['runner_up_probability']))
                    bad = None
                    for nm, pp in listed:
                        k = eu.whole_votes(pp, iters)
                        if nm not in lo or k is None or \
                                not lo[nm] <= k <= hi[nm]:
                            bad = (nm, pp)
                    truncated = len(rec['runner_up_assignment']) >= n_runners
                    if bad is None and not truncated:
                        for t in sibs:
                            if lo[t] > 0 and t not in [x[0] for x in listed]:
                                bad = (t, 'not listed')
                    if bad is None and not truncated:
                        # the list is not full, so every child with a vote is
                        # on it: winner + runners-up hold all the votes
                        tot = sum(eu.whole_votes(pp, iters) or 0
                                  for _, pp in listed)
                        if tot != iters:
                            violation(
                                'votes/runners-up-incomplete',
                                'cell %r at node %r: %d runners-up listed of '
                                '%d requested, yet winner + runners-up hold '
                                '%d of %d votes: a child with votes is '
                                'missing from the runner-up lists (%r)'
                                % (cid, parent,
                                   len(rec['runner_up_assignment']),
                                   n_runners, tot, iters, listed),
                                cell=cid, node=parent, record=rec, genes=g,
                                subsets=subsets)
                            return True
                    if bad is not None:
                        violation('votes/tie-inadmissible',
                                  'cell %r at node %r: %r is not possible: '
                                  'sure votes %r, possible votes %r'
                                  % (cid, parent, bad, lo, hi), cell=cid,
                                  node=parent, record=rec, genes=g,
                                  subsets=subsets)
                        return True
                    continue
                ctx.count('pipeline:vote-getters-%d' % min(
                    3, sum(1 for v in dv.values() if v > 0)))
                probs = eu.check_choice(
                    dv, dc, iters, n_runners, rec['assignment'],
                    rec['bootstrapping_probability'],
                    rec['avg_correlation'], rec['runner_up_assignment'],
                    rec['runner_up_correlation'],
                    rec['runner_up_probability'])
                if probs:
                    violation('votes/' + probs[0][0],
                              'cell %r at node %r: recomputed votes %r; %s'
                              % (cid, parent, dv, probs[:3]),
                              cell=cid, node=parent, record=rec,
                              recomputed_votes=dv, genes=g, subsets=subsets)
                    return True
                ctx.traces += 1
                if mv is not None:
                    t = ctx.model('election.tallyCell', {
                        'nLeaves': len(leaves), 'rows': rows})
                    cols = ctx.model('election.columns', {
                        'types': [tid[x] for x in types],
                        'votes': t['votes'], 'corr': t['corrSum']})
                    listed = [tid[rec['assignment']]] + [
                        tid[x] for x in rec['runner_up_assignment']
                        if x in tid]
                    order = eu.order_from_output(cols['types'],
                                                 cols['votes'], listed)
                    out = ctx.model('election.choose', {
                        'types': [tid[x] for x in types],
                        'votes': t['votes'], 'corr': t['corrSum'],
                        'iters': iters, 'nAssign': n_runners + 1,
                        'order': order})
                    same = 'ok' in out and out['validOrder']
                    if same:
                        o = out['ok']
                        k = o['kept']
                        same = (
                            names[o['winner']] == rec['assignment'] and
                            float(eu.frac(o['prob'])) ==
                            rec['bootstrapping_probability'] and
                            eu.near(float(eu.frac(o['avgCorr'])),
                                    rec['avg_correlation'], ab=eu.REL) and
                            [names[x] for x in k['assignment']] ==
                            rec['runner_up_assignment'] and
                            [float(eu.frac(x)) for x in k['probability']] ==
                            rec['runner_up_probability'] and
                            len(k['correlation']) ==
                            len(rec['runner_up_correlation']) and
                            all(eu.near(float(eu.frac(a)), b, ab=eu.REL)
                                for a, b in zip(
                                    k['correlation'],
                                    rec['runner_up_correlation'])))
                    if not same:
                        ctx.disagreements_checked += 1
                        violation('correspondence/chooseCell',
                                  'correspondence CTM.Election.(tallyCell, '
                                  'chooseCell, keepRunners) ~ choose_node / '
                                  'run_type_assignment', found=False,
                                  model=out, record=rec, cell=cid,
                                  node=parent)
                        return True
    if sorted(seen_cells) != sorted(inputs['cell_names']):
        violation('trace/cells', 'chunk events do not cover the query '
                  'cells exactly once', found=False)
        return False
    ctx.count('pipeline:ambiguous-cell-nodes', n_amb)
    o = {k: opts[k] for k in ('bootstrap_factor', 'bootstrap_iteration',
                              'n_runners_up', 'flatten', 'drop_level')}
    ctx.case(json.dumps([case.get('tree'), case.get('X'), o],
                        sort_keys=True, default=repr)
             if has_choice else None,
             sample={'kind': 'pipeline', 'label': case.get('label'),
                     'hierarchy': tv.hierarchy, 'opts': o,
                     'n_cells': len(results)})
    return True


# ---------------------------------------------------------------------------
# C03 model correspondence on one record
# ---------------------------------------------------------------------------

def model_record(ctx, sig, case, cell, tv, run_h, violation):
    """finishCell and inferLevels of the model against one JSON record"""
    all_names = sorted(set(n for l in tv.leaves
                           for n in tv.anc[l].values()))
    nid = {n: i for i, n in enumerate(all_names)}
    full_h = tv.hierarchy
    lid = {l: i for i, l in enumerate(full_h)}
    recs = []
    parent = None
    for lv in run_h:
        r = cell[lv]
        pl, pn = (None, None) if parent is None else parent
        _, sibs = tv.children(run_h, pl, pn)
        c = r['avg_correlation']
        recs.append({
            'assignment': nid[r['assignment']],
            'prob': eu.rat(r['bootstrapping_probability']),
            'avgCorr': None if (len(sibs) == 1 or c is None) else eu.rat(c),
            'runnerAssignment': [nid[x] for x in r['runner_up_assignment']],
            'runnerCorrelation': eu.rats(r['runner_up_correlation']),
            'runnerProbability': eu.rats(r['runner_up_probability'])})
        parent = (lv, r['assignment'])
    out = ctx.model('election.finishCell', {'recs': recs})
    for lv, o in zip(run_h, out):
        r = cell[lv]
        got_c = r['avg_correlation']
        mc = None if o['avgCorr'] is None else float(eu.frac(o['avgCorr']))
        if mc != got_c or not eu.near(
                float(eu.frac(o['aggregate'])), r['aggregate_probability']):
            ctx.disagreements_checked += 1
            violation('correspondence/finishCell',
                      'correspondence CTM.Election.finishCell ~ '
                      'run_type_assignment post-loops', found=False,
                      model=out, record=cell)
            return False
    if run_h != full_h:
        tbl = []
        for (cl, k), p in tv.parent.items():
            tbl.append([lid[cl], nid[k], nid[p]])
        mcell = []
        for lv, o in zip(run_h, out):
            o = dict(o)
            # ship what the code had: floats of the record
            r = cell[lv]
            o['aggregate'] = eu.rat(r['aggregate_probability'])
            o['avgCorr'] = None if r['avg_correlation'] is None else \
                eu.rat(r['avg_correlation'])
            mcell.append([lid[lv], o])
        inf = ctx.model('election.inferLevels', {
            'hier': [lid[l] for l in full_h], 'parentOf': tbl,
            'cell': mcell})
        ok = 'ok' in inf
        if ok:
            got = {full_h[k]: v for k, v in inf['ok']}
            for lv in full_h:
                if lv in run_h:
                    continue
                r = cell[lv]
                o = got.get(lv)
                if o is None or all_names[o['assignment']] != \
                        r['assignment'] or o['runners'] is not None or \
                        o['directlyAssigned'] is not False or \
                        float(eu.frac(o['prob'])) != \
                        r['bootstrapping_probability'] or \
                        float(eu.frac(o['aggregate'])) != \
                        r['aggregate_probability'] or \
                        (None if o['avgCorr'] is None else
                         float(eu.frac(o['avgCorr']))) != \
                        r['avg_correlation'] or \
                        any(k.startswith('runner_up') for k in r) or \
                        r.get('directly_assigned') is not False:
                    ok = False
        if not ok:
            ctx.disagreements_checked += 1
            violation('correspondence/inferLevels',
                      'correspondence CTM.Election.inferLevels ~ '
                      'TaxonomyTree.backfill_assignments', found=False,
                      model=inf, record=cell)
            return False
    return True
