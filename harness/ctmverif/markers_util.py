"""
Generators, canonicalisation, adapters for the real marker-cache functions and
the independent specification used by the C08 suite.

A *case* is a plain dict (JSON-able, this is also the replay format):
  tree      taxonomy dict (hierarchy + levels, no rows)
  entries   [[key, [genes]]] in dict order; key = None | [level, node]
  Q, R      query / reference gene names (ordered)
  m         min_markers
"""
import copy
import json
import warnings

import h5py
import numpy as np

from ctmverif import gen, treeio, pipeline

GENE_POOL = ['g1', 'g10', 'g2', 'G3', 'a', 'Zeb2', 'zeb1', 'ENSG0007', 'ENSG0010',
             'x y', 'é', '9', '10', 'b/c', 'A', 'aa', 'ab', 'g11', 'g3', 'q',
             'Q', 'm1', 'm2', 'm3', 'm10', 'None', 'r', 's', 't', 'u']


def key_str(k):
    return 'None' if k is None else '%s/%s' % (k[0], k[1])


def lookup_dict(entries):
    return {key_str(None if k is None else tuple(k)): list(v)
            for k, v in entries}


# ---------------------------------------------------------------------------
# tree facts, computed from the raw dict only
# ---------------------------------------------------------------------------

def tree_parents(tree):
    """[None, (level, node) ...] in all_parents order"""
    out = [None]
    h = tree['hierarchy']
    for l in h[:-1]:
        for n in tree[l]:
            out.append((l, n))
    return out


def tree_children(tree, p):
    if p is None:
        return list(tree[tree['hierarchy'][0]].keys())
    return list(tree[p[0]][p[1]])


def tree_ancestors(tree, p):
    """ancestors of (level, node), nearest first, root excluded"""
    h = tree['hierarchy']
    out = []
    lvl, node = p
    i = h.index(lvl)
    while i > 0:
        pl = h[i - 1]
        par = [a for a, kids in tree[pl].items() if node in kids]
        assert len(par) == 1
        out.append((pl, par[0]))
        node = par[0]
        i -= 1
    return out


def consulted_parents(tree):
    return [p for p in tree_parents(tree) if len(tree_children(tree, p)) > 1]


def spec_genes(tree, table, Q, m, p):
    """
    The property's statement, as a set: the parent's listed markers that occur
    in the query; if fewer than m remain (and p is not the root), the lists of
    its ancestors are added nearest first -- among those present in the
    table -- until the minimum is reached, finally the root's; always
    restricted to the query.
    table: {key tuple or None: list}
    """
    qs = set(Q)
    cur = set(table.get(p, [])) & qs
    if p is None or len(cur) >= m:
        return cur
    for a in tree_ancestors(tree, p):
        if a not in table:
            continue
        cur |= set(table[a]) & qs
        if len(cur) >= m:
            return cur
    if None in table:
        cur |= set(table[None]) & qs
    return cur


def list_is_rewritten(tree, table, Q, m, k, cons):
    """does the ancestor fallback replace the list of key k by Q ∩ (...)?"""
    if k is None or k not in cons:
        return False
    if len(set(table.get(k, [])) & set(Q)) >= m:
        return False
    if any(a in table for a in tree_ancestors(tree, k)):
        return True
    return None in table


def expectation(case):
    """
    What the property demands of the outcome.  Returns dict:
      must_fail: list of reasons (non-empty => an error is required)
      must_pass: True when none of the documented error conditions holds
      spec: {parent: set} for consulted parents
    """
    tree = case['tree']
    table = {None if k is None else tuple(k): list(v)
             for k, v in case['entries']}
    Q, R, m = case['Q'], case['R'], case['m']
    cons = consulted_parents(tree)
    spec = {p: spec_genes(tree, table, Q, m, p) for p in cons}
    must_fail = []
    if None in cons:
        if len(set(table.get(None, [])) & set(Q)) == 0:
            must_fail.append('root-without-usable-markers')
    listed = set()
    for v in table.values():
        listed |= set(v)
    if any(g in set(Q) and g not in set(R) for g in listed):
        must_fail.append('marker-unknown-to-reference')
    # a marker unknown to the reference AND missing from the query: the list
    # that holds it reaches the reference check only if the fallback did not
    # rewrite it (a rewritten list is Q ∩ (...), the gene is gone).  Which
    # lists are rewritten is computed here from the raw dicts: a consulted
    # non-root parent with fewer than m own markers in the query and at least
    # one ancestor (or, failing that, the root) present in the table.  The
    # error is demanded only for the lists the unchanged semantics keep.
    for k, v in table.items():
        if not list_is_rewritten(tree, table, Q, m, k, cons) and \
                any(g not in set(R) and g not in set(Q) for g in v):
            must_fail.append('marker-unknown-to-reference/not-in-query')
            break
    if m >= 1 and any(len(s) == 0 for s in spec.values()):
        must_fail.append('consulted-parent-without-markers')
    if cons and all(len(s) == 0 for s in spec.values()):
        # demanded for every min_markers, 0 included: nothing in the table
        # can be used anywhere
        must_fail.append('query-shares-no-marker' if m >= 1 else
                         'query-shares-no-marker/min_markers-0')
    may_fail = False
    if m == 0 and any(len(s) == 0 for s in spec.values()):
        # min_markers = 0: "fewer than the minimum" never holds, so the
        # property does not demand an error for ONE consulted parent left
        # without markers; the code (since fix 78f9fd9) refuses it: allowed
        may_fail = True
    return {'must_fail': must_fail, 'may_fail': may_fail, 'spec': spec,
            'consulted': cons}


# ---------------------------------------------------------------------------
# canonicalisation for the Lean model
# ---------------------------------------------------------------------------

class Canon(object):
    def __init__(self, case, extra_levels=()):
        tree = case['tree']
        xl, xn = set(extra_levels), set()
        for k, _ in case['entries']:
            if k is not None:
                if k[0] not in tree:
                    xl.add(k[0])
                xn.add(k[1])
        self.tc = treeio.TreeCanon(tree, extra_nodes=sorted(xn),
                                   extra_levels=sorted(xl))
        genes = set(case['Q']) | set(case['R'])
        for _, v in case['entries']:
            genes |= set(v)
        self.genes = sorted(genes)
        self.gid = {g: i for i, g in enumerate(self.genes)}
        self.tree_json = self.tc.tree_json(tree)

    def key(self, k):
        if k is None:
            return None
        return [self.tc.level_id[k[0]], self.tc.node_id[k[1]]]

    def unkey(self, j):
        if j is None:
            return None
        return (self.tc.levels[j[0]], self.tc.nodes[j[1]])

    def lookup(self, entries):
        return [[self.key(k), [self.gid[g] for g in v]] for k, v in entries]

    def unlookup(self, j):
        return {key_str(self.unkey(k)): [self.genes[g] for g in v]
                for k, v in j}

    def names(self, ids):
        return [self.genes[i] for i in ids]

    def ids(self, names):
        return [self.gid[g] for g in names]


# ---------------------------------------------------------------------------
# adapters for the real code
# ---------------------------------------------------------------------------

def classify_error(exc):
    """An error is classified by its TYPE only (the property says "ends with
    an error", never with which words); which of the documented situations it
    belongs to is decided by the situation the suite constructed (which call
    raised, what the independent expectation says), not by the message."""
    if isinstance(exc, KeyError):
        return 'keyError'
    return type(exc).__name__


# the exception class each error constructor of the Lean model stands for
MODEL_ERR_CLASS = {
    'noMarkersAnyLevel': 'RuntimeError', 'validating': 'RuntimeError',
    'noQueryOverlap': 'RuntimeError', 'notInReference': 'RuntimeError',
    'differentTaxonomies': 'RuntimeError', 'mismatch': 'RuntimeError',
    'keyError': 'keyError', 'missingGroup': 'keyError',
    'badIndex': 'IndexError',
}


def model_err_class(name):
    if name.startswith('tree:'):
        return 'RuntimeError'
    return MODEL_ERR_CLASS.get(name, name)


def impl_validate(case, tt=None):
    from cell_type_mapper.type_assignment.marker_cache_v2 import (
        validate_marker_lookup)
    if tt is None:
        tt = treeio.impl_tree(case['tree'])
    lk = lookup_dict(case['entries'])
    before = copy.deepcopy(lk)
    with warnings.catch_warnings():
        warnings.simplefilter('ignore')
        try:
            out = validate_marker_lookup(
                marker_lookup=lk, query_gene_names=list(case['Q']),
                taxonomy_tree=tt, min_markers=case['m'])
        except Exception as e:     # noqa: any failure is a verdict here
            return classify_error(e), None, lk == before
    return 'ok', out, lk == before


def read_cache(path):
    out = {'groups': {}}
    with h5py.File(path, 'r') as src:
        out['parent_node_list'] = json.loads(
            src['parent_node_list'][()].decode('utf-8'))
        out['all_query_markers'] = [int(x) for x in src['all_query_markers'][()]]
        out['all_reference_markers'] = [
            int(x) for x in src['all_reference_markers'][()]]
        out['query_gene_names'] = json.loads(
            src['query_gene_names'][()].decode('utf-8'))
        out['reference_gene_names'] = json.loads(
            src['reference_gene_names'][()].decode('utf-8'))

        def visit(name, obj):
            if isinstance(obj, h5py.Group) and 'reference' in obj \
                    and 'query' in obj:
                out['groups'][name] = (
                    [int(x) for x in obj['reference'][()]],
                    [int(x) for x in obj['query'][()]])
        src.visititems(visit)
    return out


def impl_create_cache(case, workdir, with_tree=True, name='cache.h5',
                      tt=None):
    """returns (verdict, cache dict or None, serialized dict or error)"""
    from cell_type_mapper.type_assignment.marker_cache_v2 import (
        create_marker_cache_from_specified_markers, serialize_markers)
    if tt is None:
        tt = treeio.impl_tree(case['tree'])
    path = workdir / name
    if path.exists():
        path.unlink()
    with warnings.catch_warnings():
        warnings.simplefilter('ignore')
        try:
            create_marker_cache_from_specified_markers(
                marker_lookup=lookup_dict(case['entries']),
                reference_gene_names=list(case['R']),
                query_gene_names=list(case['Q']),
                output_cache_path=path,
                taxonomy_tree=tt if with_tree else None,
                min_markers=case['m'])
        except Exception as e:     # noqa: any failure is a verdict here
            return classify_error(e), None, None
        cache = read_cache(path)
        ser = None
        if with_tree:
            from cell_type_mapper.type_assignment.utils import (
                reconcile_taxonomy_and_markers)
            try:
                ok, _ = reconcile_taxonomy_and_markers(
                    taxonomy_tree=tt, marker_cache_path=path)
                cache['reconcile'] = 'ok' if ok else 'differentTaxonomies'
            except Exception as e:     # noqa
                cache['reconcile'] = classify_error(e)
            try:
                ser = ('ok', serialize_markers(marker_cache_path=path,
                                               taxonomy_tree=tt))
            except Exception as e:     # noqa: any failure is a verdict here
                ser = (classify_error(e), None)
    return 'ok', cache, ser


# ---------------------------------------------------------------------------
# generators
# ---------------------------------------------------------------------------

def gen_case(rng, max_depth=4, pipeline_safe=False, tree=None):
    """
    Mostly-valid structured case aimed at: |L(p) ∩ Q| = m-1, m; ancestors
    absent from the table; single-child ancestors; genes only in Q / only in
    R / in neither; duplicates; orphan keys.
    """
    if tree is None:
        tree = gen.random_tree(rng, max_depth=max_depth, max_top=3,
                               max_children=3, rows=False, chain_prob=0.3)
    tree = copy.deepcopy({k: v for k, v in tree.items() if k != 'metadata'})
    n_genes = rng.randint(4, 14)
    pool = rng.sample(GENE_POOL, n_genes)
    # shared = in Q and R; q_only; r_only; neither
    shared, q_only, r_only, neither = [], [], [], []
    profile = rng.choice(['clean', 'clean', 'mixed', 'mixed', 'hostile'])
    for g in pool:
        x = rng.random()
        if profile == 'clean' or x < 0.6:
            shared.append(g)
        elif x < 0.75:
            r_only.append(g)
        elif x < 0.9:
            (q_only if profile == 'hostile' else r_only).append(g)
        else:
            (neither if profile == 'hostile' else r_only).append(g)
    if not shared:
        for lst in (q_only, r_only, neither):
            if pool[0] in lst:
                lst.remove(pool[0])
        shared.append(pool[0])
    Q = shared + q_only
    if rng.random() < 0.5:
        Q = Q + ['qx%d' % i for i in range(rng.randint(1, 3))]
    R = shared + r_only
    if rng.random() < 0.5:
        R = R + ['rx%d' % i for i in range(rng.randint(1, 3))]
    rng.shuffle(Q)
    rng.shuffle(R)
    m = rng.choice([1, 1, 2, 2, 3, 4, 6, 0]) if not pipeline_safe \
        else rng.choice([1, 2, 3, 4])
    parents = tree_parents(tree)
    entries = []
    for p in parents:
        kids = tree_children(tree, p)
        x = rng.random()
        if len(kids) <= 1:
            # single-child parent: usually absent, sometimes junk
            if x < 0.5:
                continue
            if x < 0.65:
                entries.append([p, []])
                continue
            if x < 0.8:
                # list without any query gene (D8 shape)
                src = r_only or shared
                entries.append([p, rng.sample(src, min(len(src),
                                                       rng.randint(1, 2)))])
                continue
        else:
            if p is None:
                if x < 0.04:
                    continue            # root missing
                if x < 0.08:
                    entries.append([p, []])
                    continue
            else:
                if x < 0.15:
                    continue            # missing parent
                if x < 0.25:
                    entries.append([p, []])
                    continue
        # aimed size of the overlap with Q
        target = rng.choice([m - 1, m, m, m + 1, 1, len(shared), 0]) \
            if p is not None else rng.choice([1, m, m + 1, len(shared)])
        target = max(0, min(target, len(shared)))
        genes = rng.sample(shared, target)
        # genes not in the query (present in the reference)
        if r_only and rng.random() < 0.5:
            genes += rng.sample(r_only, rng.randint(1, len(r_only)))
        if profile == 'hostile':
            if q_only and rng.random() < 0.15:
                genes.append(rng.choice(q_only))
            if neither and rng.random() < 0.15:
                genes.append(rng.choice(neither))
        if genes and rng.random() < 0.2:
            genes.append(rng.choice(genes))     # duplicate
        rng.shuffle(genes)
        entries.append([p, genes])
    # orphan keys: a level that is not in the tree / a node that is not
    if rng.random() < 0.25:
        src = shared if rng.random() < 0.5 else (r_only or shared)
        entries.append([('ghostlevel', 'n1'), rng.sample(src, 1)])
    if rng.random() < 0.2 and len(tree['hierarchy']) > 1:
        entries.append([(tree['hierarchy'][0], 'no_such_node'),
                        rng.sample(r_only or shared, 1)])
    rng.shuffle(entries)
    entries = [[None if k is None else list(k), v] for k, v in entries]
    return {'tree': tree, 'entries': entries, 'Q': Q, 'R': R, 'm': m}


def case_nontrivial(case):
    """some consulted non-root parent exists whose own overlap is below m
    (the fallback is exercised) or an error condition is present"""
    tree = case['tree']
    table = {None if k is None else tuple(k): v for k, v in case['entries']}
    qs = set(case['Q'])
    for p in consulted_parents(tree):
        if p is None:
            continue
        if len(set(table.get(p, [])) & qs) < case['m']:
            return True
    return False


# ---------------------------------------------------------------------------
# object reuse: one TaxonomyTree serving several reconciliations
# ---------------------------------------------------------------------------

def tree_snapshot(tt):
    """the public answers of a TaxonomyTree that the marker stage consults"""
    parents = list(tt.all_parents)
    snap = {'all_parents': [None if p is None else list(p) for p in parents],
            'hierarchy': list(tt.hierarchy), 'children': [], 'parents': []}
    for p in parents:
        if p is None:
            snap['children'].append([None, list(tt.children(None, None))])
        else:
            snap['children'].append([list(p), list(tt.children(p[0], p[1]))])
            snap['parents'].append(
                [list(p), sorted(tt.parents(p[0], p[1]).items())])
    return snap


def nested_tree(rng):
    """three levels; a top node with >= 2 children, one of which has >= 2
    children itself (a consulted parent below a consulted ancestor)"""
    levels = rng.sample(['class', 'subclass', 'supertype', 'L0', 'zeta'], 2) \
        + ['cluster']
    names = iter(gen.fresh_names(rng, 40))
    tree = {'hierarchy': levels, levels[0]: {}, levels[1]: {}, levels[2]: {}}
    for _ in range(rng.randint(1, 2)):
        top = next(names)
        mids = [next(names) for _ in range(rng.randint(2, 3))]
        tree[levels[0]][top] = mids
        for md in mids:
            kids = [next(names) for _ in range(rng.randint(2, 3))]
            tree[levels[1]][md] = kids
            for k in kids:
                tree[levels[2]][k] = []
    return tree


def gen_nested_deficiency(rng, tree):
    """table in which a consulted parent AND its nearest listed ancestor are
    both below min_markers while the union of their two original lists
    reaches it; the root lists other genes"""
    h = tree['hierarchy']
    pool = rng.sample(GENE_POOL, 12)
    m = rng.choice([2, 3])
    Q = list(pool[:10])
    R = list(pool)
    rng.shuffle(Q)
    rng.shuffle(R)
    root_genes = pool[6:10]
    entries = [[None, list(root_genes)]]
    for top, mids in tree[h[0]].items():
        a_genes = rng.sample(pool[:3], m - 1)
        entries.append([[h[0], top], a_genes])
        for md in mids:
            x = rng.random()
            if x < 0.7:
                rest = [g for g in pool[:6] if g not in a_genes]
                entries.append([[h[1], md], rng.sample(rest, m - 1)])
            elif x < 0.85:
                entries.append([[h[1], md], []])
    rng.shuffle(entries)
    return {'tree': copy.deepcopy(tree), 'entries': entries, 'Q': Q, 'R': R,
            'm': m}


def gen_session(rng):
    """2-5 cases sharing one tree"""
    if rng.random() < 0.6:
        tree = nested_tree(rng)
    else:
        tree = gen.random_tree(rng, max_depth=4, max_top=3, max_children=3,
                               rows=False, chain_prob=0.3)
        tree = {k: v for k, v in tree.items() if k != 'metadata'}
    steps = []
    for j in range(rng.randint(2, 5)):
        if len(tree['hierarchy']) == 3 and rng.random() < 0.6 and \
                all(len(v) >= 2 for v in tree[tree['hierarchy'][1]].values()):
            c = gen_nested_deficiency(rng, tree)
        else:
            c = gen_case(rng, tree=tree)
        steps.append({k: c[k] for k in ('entries', 'Q', 'R', 'm')})
    return {'kind': 'session', 'tree': tree, 'steps': steps}
