"""
Fixture builders and runners for the real pipeline stages, driven through
their Python entry points (the argschema CLIs cannot be constructed in this
sandbox).
"""
import contextlib
import copy
import io
import json
import os
import pathlib
import shutil
import tempfile
import warnings

import numpy as np
import h5py


SCRATCH_ROOT = pathlib.Path(os.environ.get('CTM_SCRATCH', '/dev/shm'))
if not SCRATCH_ROOT.is_dir():
    SCRATCH_ROOT = pathlib.Path(tempfile.gettempdir())


@contextlib.contextmanager
def workdir(prefix='ctmverif_'):
    d = pathlib.Path(tempfile.mkdtemp(dir=SCRATCH_ROOT, prefix=prefix))
    try:
        yield d
    finally:
        shutil.rmtree(d, ignore_errors=True)


@contextlib.contextmanager
def quiet():
    buf = io.StringIO()
    with warnings.catch_warnings():
        warnings.simplefilter('ignore')
        with contextlib.redirect_stdout(buf):
            yield buf


def write_stats_file(path, tree, gene_names, leaf_sum, leaf_n,
                     leaf_sumsq=None, leaf_gt0=None, leaf_gt1=None,
                     leaf_ge1=None, leaf_order=None):
    """
    Hand-written precomputed-stats file.
    leaf_sum[leaf] = vector of sum of log2(CPM+1) over the leaf's cells;
    leaf_n[leaf] = number of cells
    """
    leaf_level = tree['hierarchy'][-1]
    leaves = list(tree[leaf_level].keys()) if leaf_order is None \
        else list(leaf_order)
    c2r = {leaf: i for i, leaf in enumerate(leaves)}
    n_g = len(gene_names)
    with h5py.File(path, 'w') as dst:
        dst.create_dataset('taxonomy_tree',
                           data=json.dumps(tree).encode('utf-8'))
        dst.create_dataset('col_names',
                           data=json.dumps(list(gene_names)).encode('utf-8'))
        dst.create_dataset('cluster_to_row',
                           data=json.dumps(c2r).encode('utf-8'))
        dst.create_dataset('n_cells',
                           data=np.array([leaf_n[k] for k in leaves]))
        dst.create_dataset(
            'sum', data=np.array([leaf_sum[k] for k in leaves],
                                 dtype=float).reshape(len(leaves), n_g))
        for nm, d in (('sumsq', leaf_sumsq), ('gt0', leaf_gt0),
                      ('gt1', leaf_gt1), ('ge1', leaf_ge1)):
            if d is not None:
                dst.create_dataset(
                    nm, data=np.array([d[k] for k in leaves]).reshape(
                        len(leaves), n_g))
    return path


def write_h5ad(path, X, obs_names, var_names, encoding='dense',
               layer=None, obs_cols=None, uns=None, chunks=None):
    """
    Write an h5ad with anndata. encoding in dense|csr|csc; layer=None => X.
    """
    import anndata
    import pandas as pd
    import scipy.sparse
    X = np.asarray(X)
    if encoding == 'csr':
        data = scipy.sparse.csr_matrix(X)
    elif encoding == 'csc':
        data = scipy.sparse.csc_matrix(X)
    else:
        data = X
    obs = pd.DataFrame(obs_cols if obs_cols is not None else {},
                       index=pd.Index([str(o) for o in obs_names],
                                      name='cell_id'))
    var = pd.DataFrame(index=pd.Index([str(v) for v in var_names],
                                      name='gene_id'))
    with warnings.catch_warnings():
        warnings.simplefilter('ignore')
        if layer is None:
            a = anndata.AnnData(X=data, obs=obs, var=var, uns=uns)
        else:
            a = anndata.AnnData(
                X=np.zeros(X.shape, dtype=np.float32) if encoding == 'dense'
                else scipy.sparse.csr_matrix(X.shape, dtype=np.float32),
                obs=obs, var=var, uns=uns, layers={layer: data})
        a.write_h5ad(path)
    return path


def mapping_config(query_path, stats_path, marker_path, out_dir, tmp_dir,
                   n_processors=2, chunk_size=10, bootstrap_factor=0.9,
                   bootstrap_iteration=10, rng_seed=11, n_runners_up=2,
                   normalization='raw', min_markers=1, flatten=False,
                   drop_level=None, cloud_safe=False, csv=True, max_gb=1.0,
                   bootstrap_factor_lookup=None):
    out_dir = pathlib.Path(out_dir)
    return {
        'query_path': str(query_path),
        'extended_result_path': str(out_dir / 'out.json'),
        'extended_result_dir': str(out_dir),
        'csv_result_path': str(out_dir / 'out.csv') if csv else None,
        'hdf5_result_path': str(out_dir / 'out.h5'),
        'log_path': str(out_dir / 'log.txt'),
        'tmp_dir': None if tmp_dir is None else str(tmp_dir),
        'max_gb': max_gb,
        'cloud_safe': cloud_safe,
        'summary_metadata_path': None,
        'map_to_ensembl': False,
        'drop_level': drop_level,
        'flatten': flatten,
        'obsm_key': None,
        'obsm_clobber': False,
        'precomputed_stats': {'path': str(stats_path)},
        'query_markers': {'serialized_lookup': str(marker_path)},
        'type_assignment': {
            'min_markers': min_markers, 'rng_seed': rng_seed,
            'bootstrap_factor_lookup': bootstrap_factor_lookup,
            'bootstrap_factor': bootstrap_factor,
            'n_processors': n_processors, 'chunk_size': chunk_size,
            'bootstrap_iteration': bootstrap_iteration,
            'n_runners_up': n_runners_up, 'normalization': normalization},
    }


def run_mapping(config):
    """returns dict(ok, error, json, paths)"""
    from cell_type_mapper.cli.from_specified_markers import run_mapping as rm
    err = None
    with quiet() as buf:
        try:
            rm(config=copy.deepcopy(config),
               output_path=config['extended_result_path'],
               log_path=config.get('log_path'),
               hdf5_output_path=config.get('hdf5_result_path'))
        except BaseException as e:   # noqa
            if isinstance(e, KeyboardInterrupt):
                raise
            err = e
    out = None
    p = pathlib.Path(config['extended_result_path'])
    if p.is_file():
        try:
            out = json.loads(p.read_text())
        except Exception:
            out = None
    return {'ok': err is None, 'error': err, 'json': out,
            'stdout': buf.getvalue()}


# ---------------------------------------------------------------------------
# a small generated mapping problem
# ---------------------------------------------------------------------------

class MappingProblem(object):
    """tree + reference means + marker table + query matrix"""

    def __init__(self, rng, tree=None, n_genes=None, n_cells=None,
                 max_depth=3, integer_counts=True, marker_mode='good'):
        from ctmverif import gen
        self.rng = rng
        nprng = np.random.default_rng(rng.randrange(2**31))
        self.tree = tree if tree is not None else gen.random_tree(
            rng, max_depth=max_depth, max_top=3, max_children=3, rows=False)
        self.tree = {k: v for k, v in self.tree.items() if k != 'metadata'}
        h = self.tree['hierarchy']
        leaf_level = h[-1]
        self.leaves = list(self.tree[leaf_level].keys())
        for k in self.leaves:
            self.tree[leaf_level][k] = []
        n_genes = n_genes or rng.randint(6, 14)
        self.ref_genes = ['g%d' % i for i in range(n_genes)]
        rng.shuffle(self.ref_genes)
        # reference profiles: each leaf has its own pattern
        self.leaf_n = {k: rng.randint(1, 5) for k in self.leaves}
        means = nprng.random((len(self.leaves), n_genes)) * 6.0
        self.leaf_mean = {k: means[i] for i, k in enumerate(self.leaves)}
        self.leaf_sum = {k: self.leaf_mean[k] * self.leaf_n[k]
                         for k in self.leaves}
        # query genes: a permutation of most reference genes + extra ones
        q = list(self.ref_genes)
        rng.shuffle(q)
        n_drop = rng.randint(0, max(0, n_genes // 4))
        self.query_genes = q[n_drop:] + ['extra%d' % i
                                         for i in range(rng.randint(0, 3))]
        rng.shuffle(self.query_genes)
        n_cells = n_cells or rng.randint(1, 12)
        self.cell_ids = ['c%d' % i for i in rng.sample(range(1000), n_cells)]
        if integer_counts:
            self.X = nprng.integers(0, 40, (n_cells, len(self.query_genes))
                                    ).astype(float)
            for i in range(n_cells):
                if self.X[i].sum() == 0:
                    self.X[i, 0] = 1.0
        else:
            self.X = nprng.random((n_cells, len(self.query_genes))) * 8
        self.markers = self.make_markers(marker_mode)

    def parents(self):
        out = ['None']
        h = self.tree['hierarchy']
        for l in h[:-1]:
            for n in self.tree[l]:
                out.append('%s/%s' % (l, n))
        return out

    def make_markers(self, mode):
        rng = self.rng
        shared = [g for g in self.ref_genes if g in self.query_genes]
        lookup = {}
        for p in self.parents():
            k = rng.randint(2, max(2, len(shared)))
            lookup[p] = rng.sample(shared, min(k, len(shared)))
        return lookup

    def write(self, d, encoding='dense', normalization='raw'):
        d = pathlib.Path(d)
        stats = write_stats_file(d / 'stats.h5', self.tree, self.ref_genes,
                                 self.leaf_sum, self.leaf_n)
        X = self.X
        q = write_h5ad(d / 'query.h5ad', X, self.cell_ids, self.query_genes,
                       encoding=encoding)
        m = d / 'markers.json'
        m.write_text(json.dumps(self.markers))
        return stats, q, m
