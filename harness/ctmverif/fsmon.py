"""
File-system monitoring for C19: run a stage in a subprocess under

    strace -f --seccomp-bpf -y -e trace=openat,creat,mkdir,unlink,unlinkat,rename,renameat,
                          renameat2,rmdir

and turn the successful system calls that fall under the *watched* roots into
the operations of the Lean model (CTM/Model/Scratch.lean):

    mkdtemp / mkstemp   a mkdir(.., 0700) / open(O_CREAT|O_EXCL, 0600) -- the
                        calls tempfile makes -- whose parent is a declared
                        scratch directory or lies under a temporary the same
                        run made earlier (and, for directories, whose name
                        has 8 characters of tempfile's alphabet in it)
    mkdir, write (any open that can modify: O_WRONLY / O_RDWR / O_CREAT /
    O_TRUNC / O_APPEND), openRO, listdir (O_DIRECTORY), unlink, rmdir, move

Also: directory listings (path -> 'dir' | 'file'), digests.
"""
import hashlib
import json
import os
import pathlib
import re
import subprocess
import sys

from ctmverif import core

RUNNER = pathlib.Path(__file__).resolve().parent / 'stage_runner.py'
SYSCALLS = ('openat,creat,mkdir,mkdirat,unlink,unlinkat,rename,renameat,'
            'renameat2,rmdir,open')


class TraceError(core.InfraError):
    pass


def listing(root):
    """{absolute path: 'dir'|'file'} of everything under root (root itself
    included)"""
    out = {}
    root = str(root)
    if os.path.isdir(root):
        out[root] = 'dir'
    elif os.path.lexists(root):
        out[root] = 'file'
    for dp, dns, fns in os.walk(root):
        for d in dns:
            p = os.path.join(dp, d)
            out[p] = 'dir' if not os.path.islink(p) else 'file'
        for f in fns:
            out[os.path.join(dp, f)] = 'file'
    return out


def digest(path):
    h = hashlib.sha256()
    with open(path, 'rb') as f:
        for b in iter(lambda: f.read(1 << 20), b''):
            h.update(b)
    return h.hexdigest()


def digests(paths):
    out = {}
    for p in paths:
        p = str(p)
        if os.path.isfile(p):
            st = os.stat(p)
            out[p] = [digest(p), st.st_size, st.st_mtime_ns]
        elif os.path.isdir(p):
            out[p] = ['dir']
        else:
            out[p] = None
    return out


# ---------------------------------------------------------------------------
# running
# ---------------------------------------------------------------------------

def start_traced(job, job_dir, tag, tmpdir=None):
    """start stage_runner under strace; returns a handle for finish()"""
    job_dir = pathlib.Path(job_dir)
    job_path = job_dir / ('job_%s.json' % tag)
    res_path = job_dir / ('result_%s.json' % tag)
    trace_path = job_dir / ('trace_%s.txt' % tag)
    job = dict(job)
    job['result'] = str(res_path)
    job_path.write_text(json.dumps(job))
    env = dict(os.environ)
    env.setdefault('OMP_NUM_THREADS', '1')
    env.setdefault('OPENBLAS_NUM_THREADS', '1')
    env['PYTHONDONTWRITEBYTECODE'] = '1'
    if tmpdir is not None:
        # what tempfile.gettempdir() answers inside the stage: a private,
        # watched stand-in for the system temp directory
        env['TMPDIR'] = str(tmpdir)
    # --seccomp-bpf: the tracer is woken only by the traced calls (3x faster)
    cmd = ['strace', '-f', '--seccomp-bpf', '-y', '-s', '4096',
           '-o', str(trace_path),
           '-e', 'trace=' + SYSCALLS,
           sys.executable, str(RUNNER), str(job_path)]
    proc = subprocess.Popen(cmd, env=env, stdout=subprocess.PIPE,
                            stderr=subprocess.STDOUT, text=True,
                            cwd=str(job_dir))
    return {'proc': proc, 'res': res_path, 'trace': trace_path,
            'cwd': str(job_dir), 'tag': tag}


def finish_traced(h, timeout=300):
    try:
        out, _ = h['proc'].communicate(timeout=timeout)
    except subprocess.TimeoutExpired:
        h['proc'].kill()
        raise TraceError('traced stage timed out')
    if not h['res'].is_file():
        raise TraceError('traced stage wrote no status (rc=%s): %s'
                         % (h['proc'].returncode, (out or '')[-800:]))
    status = json.loads(h['res'].read_text())
    if not h['trace'].is_file():
        raise TraceError('strace wrote no trace')
    return status, h['trace'].read_text(errors='replace')


def run_traced(job, job_dir, tag='0', timeout=300, tmpdir=None):
    return finish_traced(start_traced(job, job_dir, tag, tmpdir), timeout)


def run_plain(job, job_dir, tag='p', timeout=300, tmpdir=None):
    """the same stage without strace (for result comparisons)"""
    job_dir = pathlib.Path(job_dir)
    job_path = job_dir / ('job_%s.json' % tag)
    res_path = job_dir / ('result_%s.json' % tag)
    job = dict(job)
    job['result'] = str(res_path)
    job_path.write_text(json.dumps(job))
    env = dict(os.environ)
    env['PYTHONDONTWRITEBYTECODE'] = '1'
    if tmpdir is not None:
        env['TMPDIR'] = str(tmpdir)
    p = subprocess.run([sys.executable, str(RUNNER), str(job_path)],
                       env=env, stdout=subprocess.PIPE,
                       stderr=subprocess.STDOUT, text=True, cwd=str(job_dir),
                       timeout=timeout)
    if not res_path.is_file():
        raise TraceError('stage wrote no status (rc=%s): %s'
                         % (p.returncode, p.stdout[-800:]))
    return json.loads(res_path.read_text())


# ---------------------------------------------------------------------------
# parsing
# ---------------------------------------------------------------------------

_LINE = re.compile(r'^(\d+)\s+(.*)$')
_UNFINISHED = re.compile(r'^(.*) <unfinished \.\.\.>$')
_RESUMED = re.compile(r'^<\.\.\. (\w+) resumed>(.*)$')
_CALL = re.compile(r'^(\w+)\((.*)\)\s+=\s+(-?\d+|\?)(.*)$', re.S)


def _unescape(s):
    # strace prints C escapes inside "..."
    out = []
    i = 0
    b = bytearray()
    while i < len(s):
        c = s[i]
        if c == '\\' and i + 1 < len(s):
            n = s[i + 1]
            if n in '01234567':
                j = i + 1
                k = j
                while k < len(s) and k < j + 3 and s[k] in '01234567':
                    k += 1
                b.append(int(s[j:k], 8) & 255)
                i = k
                continue
            if n == 'x':
                b.append(int(s[i + 2:i + 4], 16))
                i += 4
                continue
            m = {'n': 10, 't': 9, 'r': 13, '"': 34, '\\': 92, 'v': 11,
                 'f': 12, 'a': 7, 'b': 8, 'e': 27}.get(n)
            if m is not None:
                b.append(m)
                i += 2
                continue
        b.extend(c.encode('utf-8'))
        i += 1
    return b.decode('utf-8', 'replace')


def _split_args(s):
    """top-level comma split respecting "...", <...>, {...}, [...]"""
    args = []
    cur = []
    depth = 0
    in_str = False
    i = 0
    while i < len(s):
        c = s[i]
        if in_str:
            cur.append(c)
            if c == '\\' and i + 1 < len(s):
                cur.append(s[i + 1])
                i += 1
            elif c == '"':
                in_str = False
        else:
            if c == '"':
                in_str = True
                cur.append(c)
            elif c in '<{[(':
                depth += 1
                cur.append(c)
            elif c in '>}])':
                depth -= 1
                cur.append(c)
            elif c == ',' and depth == 0:
                args.append(''.join(cur).strip())
                cur = []
            else:
                cur.append(c)
        i += 1
    if cur:
        args.append(''.join(cur).strip())
    return args


def _str_arg(a):
    if a.startswith('"'):
        end = a.rfind('"')
        return _unescape(a[1:end])
    return None


def _fd_path(a, cwd):
    """AT_FDCWD</cwd>  or  5</some/dir>"""
    m = re.match(r'^(AT_FDCWD|-?\d+)(?:<(.*)>)?$', a, re.S)
    if not m:
        return cwd
    if m.group(2) is not None:
        return _unescape(m.group(2))
    return cwd


def _abs(base, p):
    if not p.startswith('/'):
        p = os.path.join(base, p)
    return os.path.normpath(p)


def parse_trace(text, cwd):
    """-> list of raw events (dict: pid, call, path[, path2], flags) for
    successful calls, in order of completion"""
    pending = {}
    events = []
    for line in text.splitlines():
        m = _LINE.match(line)
        if not m:
            continue
        pid, rest = int(m.group(1)), m.group(2)
        u = _UNFINISHED.match(rest)
        if u:
            pending[pid] = u.group(1)
            continue
        r = _RESUMED.match(rest)
        if r:
            head = pending.pop(pid, None)
            if head is None:
                continue
            rest = head + r.group(2)
        c = _CALL.match(rest)
        if not c:
            continue
        call, argstr, ret = c.group(1), c.group(2), c.group(3)
        if ret == '?' or int(ret) < 0:
            continue
        args = _split_args(argstr)
        ev = {'pid': pid, 'call': call}
        try:
            if call in ('openat',):
                base = _fd_path(args[0], cwd)
                ev['path'] = _abs(base, _str_arg(args[1]))
                ev['flags'] = args[2]
                ev['mode'] = args[3] if len(args) > 3 else None
            elif call in ('open', 'creat'):
                ev['path'] = _abs(cwd, _str_arg(args[0]))
                ev['flags'] = args[1] if call == 'open' else \
                    'O_CREAT|O_WRONLY|O_TRUNC'
            elif call in ('mkdir', 'rmdir', 'unlink'):
                ev['path'] = _abs(cwd, _str_arg(args[0]))
                if call == 'mkdir':
                    ev['mode'] = args[1] if len(args) > 1 else None
            elif call == 'mkdirat':
                ev['path'] = _abs(_fd_path(args[0], cwd), _str_arg(args[1]))
                ev['call'] = 'mkdir'
                ev['mode'] = args[2] if len(args) > 2 else None
            elif call == 'unlinkat':
                ev['path'] = _abs(_fd_path(args[0], cwd), _str_arg(args[1]))
                ev['call'] = 'rmdir' if 'AT_REMOVEDIR' in args[2] \
                    else 'unlink'
            elif call == 'rename':
                ev['path'] = _abs(cwd, _str_arg(args[0]))
                ev['path2'] = _abs(cwd, _str_arg(args[1]))
            elif call in ('renameat', 'renameat2'):
                ev['path'] = _abs(_fd_path(args[0], cwd), _str_arg(args[1]))
                ev['path2'] = _abs(_fd_path(args[2], cwd), _str_arg(args[3]))
                ev['call'] = 'rename'
            else:
                continue
        except (IndexError, TypeError, AttributeError):
            raise TraceError('cannot parse strace line: %r' % line[:300])
        events.append(ev)
    return events


_TMP_NAME = re.compile(r'^.*[a-z0-9_]{8}.*$')


def to_ops(events, watched, scratch_dirs):
    """raw events under the watched roots -> model ops (JSON form) and the
    description of each.  Paths are lists of components."""
    def watched_p(p):
        return any(p == w or p.startswith(w + '/') for w in watched)

    ops = []
    owned = []          # temporaries created so far
    scratch_dirs = [str(s) for s in scratch_dirs]

    def under_owned(p):
        return any(p == o or p.startswith(o + '/') for o in owned)

    muted = set()       # pids inside a runner-made listing (stage_runner)
    for i, ev in enumerate(events):
        p = ev['path']
        call = ev['call']
        if p.endswith('.mark_begin'):
            muted.add(ev['pid'])
            continue
        if p.endswith('.mark_end'):
            muted.discard(ev['pid'])
            continue
        if ev['pid'] in muted:
            continue
        if call == 'rename':
            p2 = ev['path2']
            if not (watched_p(p) or watched_p(p2)):
                continue
            ops.append({'op': 'move', 'p': comps(p), 'q': comps(p2),
                        'pid': ev['pid']})
            continue
        if not watched_p(p):
            continue
        parent = os.path.dirname(p)
        tmp_parent = parent in scratch_dirs or under_owned(parent)
        if call == 'mkdir':
            # tempfile.mkdtemp: mkdir(.., 0o700) of prefix + 8 random
            # characters + suffix; Path.mkdir / os.makedirs use 0o777
            if tmp_parent and ev.get('mode') == '0700' \
                    and _TMP_NAME.match(os.path.basename(p)):
                ops.append({'op': 'mkdtemp', 'p': comps(p)})
                owned.append(p)
            else:
                ops.append({'op': 'mkdir', 'p': comps(p)})
        elif call in ('openat', 'open', 'creat'):
            fl = ev['flags']
            if 'O_DIRECTORY' in fl:
                ops.append({'op': 'listdir', 'p': comps(p)})
            elif 'O_CREAT' in fl and 'O_EXCL' in fl and tmp_parent \
                    and ev.get('mode') == '0600':
                # tempfile.mkstemp: O_RDWR|O_CREAT|O_EXCL, 0o600
                ops.append({'op': 'mkstemp', 'p': comps(p)})
                owned.append(p)
            elif any(f in fl for f in ('O_WRONLY', 'O_RDWR', 'O_CREAT',
                                       'O_TRUNC', 'O_APPEND')):
                ops.append({'op': 'write', 'p': comps(p), 'tok': i + 1})
            else:
                ops.append({'op': 'openRO', 'p': comps(p)})
        elif call == 'unlink':
            ops.append({'op': 'unlink', 'p': comps(p)})
        elif call == 'rmdir':
            ops.append({'op': 'rmdir', 'p': comps(p)})
        ops[-1]['pid'] = ev['pid']
    return ops


def comps(p):
    return [c for c in p.split('/') if c]


def uncomps(c):
    return '/' + '/'.join(c)
