"""
Helpers for the C11 suite: generated reference-statistics problems, the two
real routes (find_markers_for_all_taxonomy_pairs, p-value-mask), an
independent oracle computed from the *file* (means, variances, penetrances,
Welch p-values with scipy called directly and WITHOUT the boring_t / big_nu
shortcuts, textbook Holm), and readers for the written sparse tables.
"""
import itertools
import json
import os
import pathlib
import tempfile
import traceback
from fractions import Fraction

import h5py
import numpy as np
import scipy.stats

from ctmverif import pipeline

REL_TOL = Fraction(1, 10**9)


# ---------------------------------------------------------------------------
# exact numbers
# ---------------------------------------------------------------------------

def fr(x):
    return Fraction(float(x))


def jfr(x):
    """float / Fraction -> [num, den] for the driver"""
    f = x if isinstance(x, Fraction) else Fraction(float(x))
    return [f.numerator, f.denominator]


def jfrs(xs):
    return [jfr(x) for x in xs]


def from_j(q):
    return Fraction(q[0], q[1])


def near(x, th, rel=REL_TOL):
    """x is too close to th to hold the implementation to one side"""
    x = Fraction(x)
    th = Fraction(th)
    return abs(x - th) <= rel * max(abs(th), abs(x), Fraction(1, 10**30))


# ---------------------------------------------------------------------------
# thresholds / configuration
# ---------------------------------------------------------------------------

DEFAULT_TH = dict(p_th=0.01, q1_th=0.5, qdiff_th=0.7, log2_fold_th=1.0,
                  q1_min_th=0.1, qdiff_min_th=0.1, log2_fold_min_th=0.8)


def th_json(th):
    return {'pTh': jfr(th['p_th']), 'q1Th': jfr(th['q1_th']),
            'qdiffTh': jfr(th['qdiff_th']), 'foldTh': jfr(th['log2_fold_th']),
            'q1Min': jfr(th['q1_min_th']), 'qdiffMin': jfr(th['qdiff_min_th']),
            'foldMin': jfr(th['log2_fold_min_th'])}


def random_thresholds(rng):
    """strict thresholds above their floors; floors >= 0"""
    if rng.random() < 0.35:
        return dict(DEFAULT_TH)
    th = {}
    th['p_th'] = rng.choice([0.01, 0.05, 0.001, 0.2, 0.01])
    th['q1_th'] = rng.choice([0.5, 0.3, 0.75, 0.5])
    th['q1_min_th'] = rng.choice([0.1, 0.0, 0.25])
    th['qdiff_th'] = rng.choice([0.7, 0.5, 0.7])
    th['qdiff_min_th'] = rng.choice([0.1, 0.0, 0.4])
    th['log2_fold_th'] = rng.choice([1.0, 0.5, 2.0, 1.0])
    th['log2_fold_min_th'] = rng.choice([0.8, 0.25, 0.0])
    if th['log2_fold_min_th'] >= th['log2_fold_th']:
        th['log2_fold_min_th'] = th['log2_fold_th'] / 2
    # a strict threshold barely above its floor (closer than the 1e-5 that
    # distance_sq < 1e-10 can bridge)
    if rng.random() < 0.15:
        a, b = rng.choice([('q1_th', 'q1_min_th'),
                           ('qdiff_th', 'qdiff_min_th'),
                           ('log2_fold_th', 'log2_fold_min_th')])
        th[b] = th[a] - rng.choice([1.0e-6, 1.0e-7, 3.0e-6])
    return th


# ---------------------------------------------------------------------------
# generated statistics
# ---------------------------------------------------------------------------

LEAF_ALPHABET = 'abcdefghijklmnopqrstuvwxyz'


class StatsProblem(object):
    """
    reference statistics written directly (n_cells, sum, sumsq, ge1 per leaf
    and gene), aimed at: cluster sizes from 1, zero-variance genes, tied
    p-values (duplicated genes), genes exactly at / one ulp around each strict
    threshold and each floor, means equal in both clusters
    """

    def __init__(self, rng, n_leaves=None, n_genes=None, th=None,
                 two_level=None, data=None):
        if data is not None:
            self.__dict__.update(self.from_json(data))
            return
        self.th = dict(th if th is not None else DEFAULT_TH)
        n_leaves = n_leaves or rng.choice([2, 3, 4, 5, 6, 6, 7, 9, 3, 5])
        n_genes = n_genes or rng.choice([3, 8, 12, 20, 31, 40])
        names = set()
        while len(names) < n_leaves:
            names.add(''.join(rng.choice(LEAF_ALPHABET)
                              for _ in range(rng.randint(1, 3))))
        leaves = sorted(names)
        rng.shuffle(leaves)          # tree order != sorted order
        self.leaves = leaves
        self.genes = ['g%03d' % i for i in range(n_genes)]
        rng.shuffle(self.genes)
        two_level = rng.random() < 0.3 if two_level is None else two_level
        if two_level and n_leaves >= 2:
            k = rng.randint(1, min(3, n_leaves))
            parents = {('P%d' % i): [] for i in range(k)}
            for i, l in enumerate(leaves):
                parents['P%d' % (i % k if i < k else rng.randrange(k))
                        ].append(l)
            self.tree = {'hierarchy': ['class', 'cluster'],
                         'class': parents,
                         'cluster': {l: [] for l in leaves}}
        else:
            self.tree = {'hierarchy': ['cluster'],
                         'cluster': {l: [] for l in leaves}}
        self.row_order = list(leaves)
        rng.shuffle(self.row_order)

        # cluster sizes from 1; powers of two are frequent so that one-ulp
        # edge values survive sum/n exactly
        self.n = {}
        for l in leaves:
            r = rng.random()
            if r < 0.12:
                self.n[l] = 1
            elif r < 0.55:
                self.n[l] = rng.choice([2, 4, 8, 16])
            else:
                self.n[l] = rng.randint(2, 25)
        if n_leaves >= 3 and all(v < 2 for v in self.n.values()):
            self.n[leaves[0]] = 4
        nprng = np.random.default_rng(rng.randrange(2**31))
        G = n_genes
        mean = {}
        var = {}
        ge1 = {}
        levels = [0.0, 0.25, 0.5, 1.0, 1.5, 3.0, 4.0, 6.5]
        pen_levels = [0.0, 0.05, 0.1, 0.25, 0.3, 0.5, 0.51, 0.75, 0.9, 1.0]
        for l in leaves:
            n = self.n[l]
            m = np.zeros(G)
            v = np.zeros(G)
            g1 = np.zeros(G, dtype=int)
            for g in range(G):
                kind = rng.random()
                if kind < 0.5:
                    m[g] = rng.choice(levels)
                else:
                    m[g] = round(nprng.random() * 6, 3)
                sd = rng.choice([0.0, 0.02, 0.1, 0.1, 0.3, 1.0, 4.0])
                v[g] = 0.0 if n == 1 else sd * sd
                pen = rng.choice(pen_levels) if rng.random() < 0.7 \
                    else nprng.random()
                if m[g] >= 3.0 and rng.random() < 0.6:
                    pen = rng.choice([0.75, 0.9, 1.0])
                if m[g] == 0.0:
                    pen = rng.choice([0.0, 0.0, 0.05])
                g1[g] = int(min(n, max(0, round(pen * n))))
            mean[l] = m
            var[l] = v
            ge1[l] = g1
        self.mean, self.var, self.ge1 = mean, var, ge1
        self._edge_genes(rng)

    # -- edges ------------------------------------------------------------
    def _edge_genes(self, rng):
        """overwrite some genes, for the first two leaves in sorted order
        (a pair the tables certainly contain), with values at / one ulp around
        thresholds; make duplicated genes (tied p-values); zero variance"""
        G = len(self.genes)
        srt = sorted(self.leaves)
        if len(srt) < 2:
            return
        a, b = srt[0], srt[1]
        th = self.th
        slots = list(range(G))
        rng.shuffle(slots)

        def take():
            return slots.pop() if slots else None
        # fold exactly at / around the strict threshold and the floor
        for base in (th['log2_fold_th'], th['log2_fold_min_th']):
            for delta in (0, 1, -1):
                g = take()
                if g is None:
                    return
                val = float(base)
                if delta == 1:
                    val = float(np.nextafter(val, np.inf))
                elif delta == -1:
                    val = float(np.nextafter(val, -np.inf))
                # n must be a power of two for sum/n to return val exactly
                for l in (a, b):
                    if self.n[l] not in (2, 4, 8, 16):
                        self.n[l] = rng.choice([2, 4, 8])
                        for l2 in (l,):
                            self.ge1[l2] = np.minimum(self.ge1[l2], self.n[l2])
                self.mean[a][g] = 0.0
                self.mean[b][g] = max(val, 0.0)
                self.var[a][g] = 0.0004
                self.var[b][g] = 0.0004
                self.ge1[a][g] = 0
                self.ge1[b][g] = self.n[b]
        # penetrance exactly at q1_th / q1_min_th where n allows
        for l_hi, l_lo in ((a, b), (b, a)):
            g = take()
            if g is None:
                return
            n = self.n[l_hi]
            k = int(round(th['q1_th'] * n))
            self.ge1[l_hi][g] = min(n, max(0, k))
            self.ge1[l_lo][g] = 0
            self.mean[l_hi][g] = 4.0
            self.mean[l_lo][g] = 0.5
            self.var[l_hi][g] = 0.01
            self.var[l_lo][g] = 0.01
        # duplicated genes (ties in the p-value sort), a few times
        for _ in range(min(3, G // 4)):
            g = take()
            h = rng.randrange(G)
            if g is None or g == h:
                continue
            for l in self.leaves:
                self.mean[l][g] = self.mean[l][h]
                self.var[l][g] = self.var[l][h]
                self.ge1[l][g] = self.ge1[l][h]
        # zero variance everywhere / equal means
        g = take()
        if g is not None:
            for l in self.leaves:
                self.var[l][g] = 0.0
        g = take()
        if g is not None:
            for l in self.leaves:
                self.mean[l][g] = 2.0
        for l in self.leaves:
            if self.n[l] == 1:
                self.var[l][:] = 0.0
            self.ge1[l] = np.minimum(self.ge1[l], self.n[l])

    # -- (de)serialisation for replay -------------------------------------
    def to_json(self):
        return {'tree': self.tree, 'leaves': self.leaves, 'genes': self.genes,
                'row_order': self.row_order, 'th': self.th,
                'n': self.n,
                'mean': {l: [float(x).hex() for x in self.mean[l]]
                         for l in self.leaves},
                'var': {l: [float(x).hex() for x in self.var[l]]
                        for l in self.leaves},
                'ge1': {l: [int(x) for x in self.ge1[l]]
                        for l in self.leaves}}

    @staticmethod
    def from_json(d):
        out = {k: d[k] for k in ('tree', 'leaves', 'genes', 'row_order', 'th')}
        out['n'] = {l: int(v) for l, v in d['n'].items()}
        out['mean'] = {l: np.array([float.fromhex(x) for x in d['mean'][l]])
                       for l in d['leaves']}
        out['var'] = {l: np.array([float.fromhex(x) for x in d['var'][l]])
                      for l in d['leaves']}
        out['ge1'] = {l: np.array(d['ge1'][l], dtype=int)
                      for l in d['leaves']}
        return out

    def renamed(self, mapping):
        """same statistics, leaves renamed"""
        d = self.to_json()
        r = lambda l: mapping[l]          # noqa: E731
        tree = {}
        for k, v in d['tree'].items():
            if k == 'hierarchy':
                tree[k] = v
            elif k == d['tree']['hierarchy'][-1]:
                tree[k] = {r(l): [] for l in v}
            else:
                tree[k] = {p: [r(c) if c in mapping else c for c in ch]
                           for p, ch in v.items()}
        if len(d['tree']['hierarchy']) > 1:
            # only the level just above the leaves lists leaves
            pass
        d2 = dict(d)
        d2['tree'] = tree
        d2['leaves'] = [r(l) for l in d['leaves']]
        d2['row_order'] = [r(l) for l in d['row_order']]
        for k in ('n', 'mean', 'var', 'ge1'):
            d2[k] = {r(l): v for l, v in d[k].items()}
        return StatsProblem(None, data=d2)

    def write(self, path):
        leaves = self.leaves
        s = {}
        ss = {}
        for l in leaves:
            n = self.n[l]
            s[l] = self.mean[l] * n
            # the reader computes (sumsq - sum**2/n)/max(1, n-1)
            ss[l] = self.var[l] * max(1, n - 1) + s[l] ** 2 / max(1, n)
        return pipeline.write_stats_file(
            path, self.tree, self.genes, s, self.n, leaf_sumsq=ss,
            leaf_gt0={l: self.ge1[l] for l in leaves},
            leaf_gt1={l: self.ge1[l] for l in leaves},
            leaf_ge1={l: self.ge1[l] for l in leaves},
            leaf_order=self.row_order)


# ---------------------------------------------------------------------------
# the oracle: everything recomputed from the file
# ---------------------------------------------------------------------------

def textbook_holm(p):
    """Holm step-down adjusted p-values, exact arithmetic on Fractions:
    sort ascending, multiply the k-th smallest (k from 0) by (m - k), running
    maximum, cap at 1"""
    m = len(p)
    order = sorted(range(m), key=lambda i: p[i])
    out = [None] * m
    run = None
    for k, i in enumerate(order):
        v = p[i] * (m - k)
        run = v if run is None or v > run else run
        out[i] = min(run, Fraction(1))
    return out


class Oracle(object):
    def __init__(self, stats_path):
        with h5py.File(stats_path, 'r') as f:
            self.genes = json.loads(f['col_names'][()].decode())
            c2r = json.loads(f['cluster_to_row'][()].decode())
            n = f['n_cells'][()]
            s = f['sum'][()]
            ss = f['sumsq'][()]
            ge1 = f['ge1'][()]
            tree = json.loads(f['taxonomy_tree'][()].decode())
        self.tree = tree
        self.leaf_level = tree['hierarchy'][-1]
        self.leaves = sorted(tree[self.leaf_level].keys())
        self.pairs = list(itertools.combinations(self.leaves, 2))
        self.n = {}
        self.mean = {}
        self.var = {}
        self.ge1 = {}
        self.pij = {}
        self.sum_exact = {}
        for l in self.leaves:
            r = c2r[l]
            nn = int(n[r])
            self.n[l] = nn
            # plain numpy, the documented formulas
            self.mean[l] = s[r] / max(1, nn)
            self.var[l] = (ss[r] - s[r] ** 2 / max(1, nn)) / max(1, nn - 1)
            self.ge1[l] = ge1[r].astype(int)
            self.pij[l] = ge1[r] / max(1, nn)
        self.G = len(self.genes)
        self._cache = {}

    def welch(self, a, b):
        """t, nu, two-sided p per gene from (mean, var, n), scipy directly,
        no shortcut.  Conventions of the property's mechanism: zero standard
        error -> 1e-10, non-finite CDF -> 0.5, CDF clipped to
        [smallest normal, 1-epsneg]"""
        m1, v1, n1 = self.mean[a], self.var[a], self.n[a]
        m2, v2, n2 = self.mean[b], self.var[b], self.n[b]
        with np.errstate(all='ignore'):
            se2 = v1 / n1 + v2 / n2
            se = np.sqrt(se2)
            se = np.where(se > 0.0, se, 1.0e-10)
            t = (m1 - m2) / se
            den = (v1 ** 2) / (n1 ** 3 - n1 ** 2) + \
                (v2 ** 2) / (n2 ** 3 - n2 ** 2)
            den = np.where(den > 0.0, den, 1.0)
            nu = se2 * se2 / den
            cdf = scipy.stats.t.cdf(t, df=nu)
            cdf = np.where(np.isfinite(cdf), cdf, 0.5)
            fi = np.finfo(float)
            cdf = np.clip(cdf, fi.smallest_normal, 1.0 - fi.epsneg)
            p = np.where(cdf < 0.5, 2.0 * cdf, 2.0 * (1.0 - cdf))
        return t, nu, p

    def pair(self, a, b):
        key = (a, b)
        if key in self._cache:
            return self._cache[key]
        t, nu, p = self.welch(a, b)
        p1, p2 = self.pij[a], self.pij[b]
        # float values as plain numpy computes the documented formulas
        q1 = np.where(p1 > p2, p1, p2)
        den = np.where(q1 > 0.0, q1, 1.0)
        qdiff = np.abs(p1 - p2) / den
        fold = np.abs(self.mean[a] - self.mean[b])
        # exact values from the integer counts / float sums
        na, nb = max(1, self.n[a]), max(1, self.n[b])
        q1x, qdx = [], []
        for g in range(self.G):
            x1 = Fraction(int(self.ge1[a][g]), na)
            x2 = Fraction(int(self.ge1[b][g]), nb)
            mx = max(x1, x2)
            q1x.append(mx)
            qdx.append(abs(x1 - x2) / (mx if mx > 0 else 1))
        out = {'t': t, 'nu': nu, 'p': p, 'q1': q1, 'qdiff': qdiff,
               'fold': fold, 'q1x': q1x, 'qdiffx': qdx,
               'holm': textbook_holm([fr(x) for x in p]),
               'n1': self.n[a], 'n2': self.n[b],
               'mean1': self.mean[a], 'mean2': self.mean[b]}
        self._cache[key] = out
        return out


# ---------------------------------------------------------------------------
# running the real routes
# ---------------------------------------------------------------------------

class CapturedStderr(object):
    """collect what forked workers print on fd 2 (their tracebacks)"""

    def __enter__(self):
        self.tmp = tempfile.TemporaryFile(mode='w+b',
                                          dir=str(pipeline.SCRATCH_ROOT))
        self.saved = os.dup(2)
        os.dup2(self.tmp.fileno(), 2)
        self.text = ''
        return self

    def __exit__(self, *exc):
        os.dup2(self.saved, 2)
        os.close(self.saved)
        self.tmp.seek(0)
        self.text = self.tmp.read().decode('utf-8', 'replace')
        self.tmp.close()
        return False


def classify_error(exc, stderr_text):
    txt = (stderr_text or '') + '\n' + repr(exc)
    pats = [('non-consecutive pairs', 'one-pair-chunk'),
            ('non-contiguous set of indices', 'one-pair-chunk'),
            ('IndexError: index', 'IndexError-n_valid'),
            ('must be >', 'threshold-not-above-floor'),
            ('do not overlap genes', 'no-gene-overlap'),
            ('cannot calculate boring_t', 'p_th-too-small'),
            ('arrays used as indices must be of integer', 'empty-gene-idx'),
            ('All chunk dimensions must be positive', 'empty-direction'),
            ("not supported between instances of 'NoneType'", 'no-pairs')]
    for pat, name in pats:
        if pat in txt:
            return name
    return 'other:' + type(exc).__name__


def tree_object(tree):
    from cell_type_mapper.taxonomy.taxonomy_tree import TaxonomyTree
    import warnings
    with warnings.catch_warnings():
        warnings.simplefilter('ignore')
        return TaxonomyTree(data=json.loads(json.dumps(tree)))


def run_main_route(stats_path, tree, out_path, th, n_processors, max_gb,
                   exact, n_valid, gene_list, tmp_dir):
    from cell_type_mapper.diff_exp.markers import (
        find_markers_for_all_taxonomy_pairs)
    err = None
    with CapturedStderr() as cap:
        try:
            with pipeline.quiet():
                find_markers_for_all_taxonomy_pairs(
                    precomputed_stats_path=str(stats_path),
                    taxonomy_tree=tree_object(tree),
                    output_path=str(out_path),
                    n_processors=n_processors, tmp_dir=str(tmp_dir),
                    max_gb=max_gb, exact_penetrance=exact, n_valid=n_valid,
                    gene_list=gene_list, **th)
        except Exception as e:      # noqa
            err = e
            tb = traceback.format_exc()
    if err is not None:
        return {'ok': False, 'error': classify_error(err, cap.text),
                'stderr': (cap.text + tb)[-1500:], 'repr': repr(err)[:300]}
    return {'ok': True, 'tables': read_marker_file(out_path)}


def run_mask_file(stats_path, mask_path, th, n_processors, n_per, tmp_dir):
    from cell_type_mapper.diff_exp.p_value_mask import (
        create_p_value_mask_file)
    err = None
    with CapturedStderr() as cap:
        try:
            with pipeline.quiet():
                create_p_value_mask_file(
                    precomputed_stats_path=str(stats_path),
                    dst_path=str(mask_path), n_processors=n_processors,
                    tmp_dir=str(tmp_dir), n_per=n_per, **th)
        except Exception as e:      # noqa
            err = e
            tb = traceback.format_exc()
    if err is not None:
        return {'ok': False, 'error': classify_error(err, cap.text),
                'stderr': (cap.text + tb)[-1500:], 'repr': repr(err)[:300]}
    return {'ok': True, 'mask': read_mask_file(mask_path)}


def run_from_mask(stats_path, mask_path, out_path, n_processors, max_gb,
                  n_valid, gene_list, tmp_dir):
    from cell_type_mapper.diff_exp.p_value_markers import (
        find_markers_for_all_taxonomy_pairs_from_p_mask)
    err = None
    with CapturedStderr() as cap:
        try:
            with pipeline.quiet():
                find_markers_for_all_taxonomy_pairs_from_p_mask(
                    precomputed_stats_path=str(stats_path),
                    p_value_mask_path=str(mask_path),
                    output_path=str(out_path), n_processors=n_processors,
                    tmp_dir=str(tmp_dir), max_gb=max_gb, n_valid=n_valid,
                    gene_list=gene_list)
        except Exception as e:      # noqa
            err = e
            tb = traceback.format_exc()
    if err is not None:
        return {'ok': False, 'error': classify_error(err, cap.text),
                'stderr': (cap.text + tb)[-1500:], 'repr': repr(err)[:300]}
    return {'ok': True, 'tables': read_marker_file(out_path)}


# ---------------------------------------------------------------------------
# reading what was written
# ---------------------------------------------------------------------------

def _rows(indptr, indices):
    return [[int(x) for x in indices[int(indptr[i]):int(indptr[i + 1])]]
            for i in range(len(indptr) - 1)]


def csr_problems(indptr, indices, n_minor, label):
    """well-formedness of one sparse table"""
    out = []
    ip = [int(x) for x in indptr]
    if not ip or ip[0] != 0:
        out.append('%s: indptr[0] != 0' % label)
    if any(b < a for a, b in zip(ip, ip[1:])):
        out.append('%s: indptr decreases' % label)
    if ip and ip[-1] != len(indices):
        out.append('%s: indptr[-1]=%d != len(indices)=%d'
                   % (label, ip[-1], len(indices)))
    if len(indices) and (int(np.min(indices)) < 0 or
                         int(np.max(indices)) >= n_minor):
        out.append('%s: index out of range' % label)
    return out


def read_marker_file(path):
    with h5py.File(path, 'r') as f:
        genes = json.loads(f['gene_names'][()].decode())
        p2i = json.loads(f['pair_to_idx'][()].decode())
        n_pairs = int(f['n_pairs'][()])
        raw = {}
        for grp in ('sparse_by_pair', 'sparse_by_gene'):
            for k in ('up_pair_idx', 'up_gene_idx', 'down_pair_idx',
                      'down_gene_idx'):
                raw[grp + '/' + k] = f[grp][k][()]
    idx_to_pair = {}
    for lvl in p2i:
        for a in p2i[lvl]:
            for b, i in p2i[lvl][a].items():
                idx_to_pair[int(i)] = (a, b)
    return {'genes': genes, 'n_pairs': n_pairs, 'idx_to_pair': idx_to_pair,
            'raw': raw}


def tables_view(t):
    """rows of the four tables + structural problems"""
    raw = t['raw']
    G = len(t['genes'])
    P = t['n_pairs']
    probs = []
    view = {}
    for d in ('up', 'down'):
        ip = raw['sparse_by_pair/%s_pair_idx' % d]
        ix = raw['sparse_by_pair/%s_gene_idx' % d]
        probs += csr_problems(ip, ix, G, 'by_pair/' + d)
        if len(ip) != P + 1:
            probs.append('by_pair/%s: %d rows for %d pairs'
                         % (d, len(ip) - 1, P))
        gp = raw['sparse_by_gene/%s_gene_idx' % d]
        gx = raw['sparse_by_gene/%s_pair_idx' % d]
        probs += csr_problems(gp, gx, P, 'by_gene/' + d)
        if len(gp) != G + 1:
            probs.append('by_gene/%s: %d rows for %d genes'
                         % (d, len(gp) - 1, G))
        if probs:
            continue
        view['pair_' + d] = _rows(ip, ix)
        view['gene_' + d] = _rows(gp, gx)
    return view, probs


def read_mask_file(path):
    with h5py.File(path, 'r') as f:
        genes = json.loads(f['gene_names'][()].decode())
        p2i = json.loads(f['pair_to_idx'][()].decode())
        n_pairs = int(f['n_pairs'][()])
        indptr = f['indptr'][()]
        indices = f['indices'][()]
        data = f['data'][()]
    idx_to_pair = {}
    for lvl in p2i:
        for a in p2i[lvl]:
            for b, i in p2i[lvl][a].items():
                idx_to_pair[int(i)] = (a, b)
    return {'genes': genes, 'n_pairs': n_pairs, 'idx_to_pair': idx_to_pair,
            'indptr': indptr, 'indices': indices, 'data': data}


def tables_equal(t1, t2):
    if t1['genes'] != t2['genes'] or t1['idx_to_pair'] != t2['idx_to_pair']:
        return False
    for k in t1['raw']:
        a, b = t1['raw'][k], t2['raw'][k]
        if a.shape != b.shape or not np.array_equal(a, b):
            return False
    return True
