"""
Core plumbing shared by every property suite: Lean build + audit, the
line-protocol driver, evidence, violations and known findings.

Run with /venv/bin/python (the interpreter that has /repo installed in
editable mode, so `import cell_type_mapper` sees /repo's working tree).
"""
import fcntl
import hashlib
import json
import os
import pathlib
import random
import re
import subprocess
import sys
import time
import traceback

VERIF = pathlib.Path(__file__).resolve().parents[2]
LEAN = VERIF / 'lean'
DRIVER = LEAN / '.lake' / 'build' / 'bin' / 'driver'
REPO = pathlib.Path(os.environ.get('CTM_REPO', '/repo'))
ALLOWED_AXIOMS = {'propext', 'Classical.choice', 'Quot.sound'}
FORBIDDEN = re.compile(
    r'\b(sorry|admit|native_decide|bv_decide|implemented_by|unsafe)\b'
    r'|^\s*axiom\s|maxHeartbeats\s+0\b', re.M)

TRUSTED_BASE = [
    'Lean 4.33 kernel; axioms limited to propext, Classical.choice, '
    'Quot.sound (audited with #print axioms on every run)',
    'statements in lean/CTM/Props/*.lean say what properties.jsonl says',
    'correspondence harness (generators, adapters, canonicalisation, '
    'tolerance policy) in harness/',
    'numpy/h5py/anndata/scipy/pandas/multiprocessing behave as documented',
]


class InfraError(Exception):
    """Infrastructure failure: exit 2, never a VIOLATION line."""


def strip_comments(src):
    # remove /- ... -/ (nested not handled beyond one level) and -- comments
    out = []
    depth = 0
    i = 0
    n = len(src)
    while i < n:
        if src.startswith('/-', i):
            depth += 1
            i += 2
        elif src.startswith('-/', i) and depth > 0:
            depth -= 1
            i += 2
        elif depth > 0:
            if src[i] == '\n':
                out.append('\n')
            i += 1
        elif src.startswith('--', i):
            while i < n and src[i] != '\n':
                i += 1
        else:
            out.append(src[i])
            i += 1
    return ''.join(out)


class LeanSide(object):
    """Build, audit and drive the Lean project."""

    def __init__(self, log):
        self.log = log
        self.proc = None
        self.n_calls = 0

    # ---- build -----------------------------------------------------------
    def build(self, targets):
        lock_path = LEAN / '.build.lock'
        t0 = time.time()
        with open(lock_path, 'w') as lock:
            fcntl.flock(lock, fcntl.LOCK_EX)
            res = subprocess.run(
                ['lake', 'build'] + list(targets), cwd=LEAN,
                stdout=subprocess.PIPE, stderr=subprocess.STDOUT, text=True)
        self.log(f'lake build {" ".join(targets)}: rc={res.returncode} '
                 f'{time.time()-t0:.1f}s')
        return res.returncode == 0, res.stdout

    # ---- audit -----------------------------------------------------------
    def prop_modules(self, prop):
        """CTM.Props.Cxx plus every CTM.Props.Cxx.<Sub> (files under
        lean/CTM/Props/Cxx/): all of them hold obligations of the property"""
        mods = []
        if (LEAN / 'CTM' / 'Props' / f'{prop}.lean').is_file():
            mods.append(f'CTM.Props.{prop}')
        sub = LEAN / 'CTM' / 'Props' / prop
        if sub.is_dir():
            for f in sorted(sub.glob('*.lean')):
                mods.append(f'CTM.Props.{prop}.{f.stem}')
        return mods

    def theorem_names(self, prop):
        names = []
        for mod in self.prop_modules(prop):
            path = LEAN / (mod.replace('.', '/') + '.lean')
            names += self._theorem_names_of(path)
        return names

    def _theorem_names_of(self, path):
        if not path.is_file():
            return []
        src = strip_comments(path.read_text())
        names = []
        ns = []
        for line in src.splitlines():
            m = re.match(r'\s*namespace\s+(\S+)', line)
            if m:
                ns.append(m.group(1))
                continue
            m = re.match(r'\s*end\s+(\S+)', line)
            if m and ns and ns[-1].split('.')[-1] == m.group(1).split('.')[-1]:
                ns.pop()
                continue
            m = re.match(r'\s*(?:@\[[^\]]*\]\s*)?(?:private\s+|protected\s+)?'
                         r'theorem\s+([^\s:({\[]+)', line)
            if m:
                names.append('.'.join(ns + [m.group(1)]))
        return names

    def grep_forbidden(self, prop):
        """forbidden tokens anywhere in Model/, Lemmas/, Props/ (comments
        stripped)"""
        hits = []
        for sub in ('Model', 'Lemmas', 'Props', 'Generated'):
            d = LEAN / 'CTM' / sub
            if not d.is_dir():
                continue
            for f in sorted(d.rglob('*.lean')):
                src = strip_comments(f.read_text())
                for m in FORBIDDEN.finditer(src):
                    hits.append(f'{f.relative_to(LEAN)}: {m.group(0).strip()}')
        return hits

    def audit(self, prop):
        """returns (obligations, discharged, details)"""
        names = self.theorem_names(prop)
        if not names:
            return [], [], {}
        tmp = LEAN / '.lake' / f'audit_{prop}_{os.getpid()}.lean'
        tmp.parent.mkdir(exist_ok=True)
        lines = [f'import {m}' for m in self.prop_modules(prop)]
        for n in names:
            lines.append(f'#print axioms {n}')
        tmp.write_text('\n'.join(lines) + '\n')
        try:
            res = subprocess.run(
                ['lake', 'env', 'lean', str(tmp)], cwd=LEAN,
                stdout=subprocess.PIPE, stderr=subprocess.STDOUT, text=True)
        finally:
            tmp.unlink(missing_ok=True)
        out = res.stdout
        details = {}
        # "'X' depends on axioms: [a, b]"  /  "'X' does not depend on any axioms"
        flat = re.sub(r'\s+', ' ', out)
        for n in names:
            m = re.search(r"'" + re.escape(n) + r"' depends on axioms: "
                          r"\[([^\]]*)\]", flat)
            if m:
                axs = [a.strip() for a in m.group(1).split(',') if a.strip()]
                details[n] = axs
                continue
            if re.search(r"'" + re.escape(n) + r"' does not depend on any "
                         r"axioms", flat):
                details[n] = []
                continue
            details[n] = None   # not found => not discharged
        discharged = [n for n in names
                      if details[n] is not None
                      and set(details[n]) <= ALLOWED_AXIOMS]
        if res.returncode != 0:
            self.log('audit lean rc=%d\n%s' % (res.returncode, out[-2000:]))
        return names, discharged, details

    # ---- driver ----------------------------------------------------------
    def start(self):
        if not DRIVER.is_file():
            raise InfraError(f'driver missing: {DRIVER}')
        self.proc = subprocess.Popen(
            [str(DRIVER)], stdin=subprocess.PIPE, stdout=subprocess.PIPE,
            text=True, bufsize=1)

    def call(self, op, inp):
        """one request; returns the 'out' object; raises InfraError on a
        driver-side error (malformed request etc.)"""
        if self.proc is None:
            self.start()
        self.n_calls += 1
        msg = json.dumps({'id': self.n_calls, 'op': op, 'in': inp},
                         separators=(',', ':'))
        try:
            self.proc.stdin.write(msg + '\n')
            self.proc.stdin.flush()
            line = self.proc.stdout.readline()
        except BrokenPipeError:
            line = ''
        if not line:
            raise InfraError(f'driver died on op {op}')
        resp = json.loads(line)
        if 'error' in resp:
            raise InfraError(f'driver error on {op}: {resp["error"]}')
        return resp['out']

    def stop(self):
        if self.proc is not None:
            try:
                self.proc.stdin.close()
                self.proc.wait(timeout=10)
            except Exception:
                self.proc.kill()
            self.proc = None


def jsonable(x):
    """best-effort conversion for replay/evidence files"""
    import numpy as np
    if isinstance(x, dict):
        return {str(k): jsonable(v) for k, v in x.items()}
    if isinstance(x, (list, tuple)):
        return [jsonable(v) for v in x]
    if isinstance(x, (set, frozenset)):
        return sorted((jsonable(v) for v in x), key=repr)
    if isinstance(x, np.ndarray):
        return jsonable(x.tolist())
    if isinstance(x, (np.integer,)):
        return int(x)
    if isinstance(x, (np.floating,)):
        return float(x)
    if isinstance(x, (np.bool_,)):
        return bool(x)
    if isinstance(x, (bytes,)):
        return x.decode('utf-8', 'replace')
    if isinstance(x, pathlib.Path):
        return str(x)
    if isinstance(x, (str, int, float, bool)) or x is None:
        return x
    return repr(x)


class Ctx(object):
    """What a suite sees."""

    def __init__(self, prop, tier, seed, replay=None):
        self.prop = prop
        self.tier = tier
        self.seed = seed
        self.replay = replay
        self.rng = random.Random(seed * 1000003 + int(prop[1:]))
        self.t0 = time.time()
        self.logs = []
        self.lean = LeanSide(self.log)
        self.evaluations = 0
        self.nontrivial_keys = set()
        self.samples = []
        self.dist = {}
        self.traces = 0
        self.disagreements_checked = 0
        self.violations = []      # dicts: signature, what, detail, found_input
        self.broken = []          # names of theorems / correspondences
        self.model_ok = True      # Lean side usable (built)
        self.rule = ''
        self.extra_cov = {}
        self.budget_s = None

    # --- bookkeeping ---
    def log(self, msg):
        self.logs.append(msg)
        if os.environ.get('VERIF_VERBOSE'):
            print('[%s] %s' % (self.prop, msg), file=sys.stderr)

    def elapsed(self):
        return time.time() - self.t0

    def count(self, key, n=1):
        self.dist[key] = self.dist.get(key, 0) + n

    def case(self, nontrivial_key=None, sample=None):
        """register one evaluated case. nontrivial_key: hashable canonical
        form of the case if it is non-trivial by the suite's rule, else None"""
        self.evaluations += 1
        if nontrivial_key is not None:
            h = hashlib.sha1(repr(nontrivial_key).encode()).hexdigest()
            self.nontrivial_keys.add(h)
        if sample is not None and len(self.samples) < 5:
            self.samples.append(jsonable(sample))

    def model(self, op, inp):
        return self.lean.call(op, inp)

    def violation(self, signature, what, detail, found_input=True):
        """a property violation on the implementation (found_input=True:
        detail holds the concrete failing input) or a correspondence /
        proof obligation that no longer checks and for which the search found
        no failing input (found_input=False)"""
        self.violations.append({
            'property': self.prop, 'signature': signature, 'what': what,
            'found_input': found_input, 'detail': jsonable(detail)})

    def n_violation_signatures(self):
        return len(set(v['signature'] for v in self.violations))


def load_known_findings():
    p = VERIF / 'known_findings.json'
    if not p.is_file():
        return []
    return json.loads(p.read_text())['findings']


def tree_hash():
    """hash of /repo's current python sources (for replay files)"""
    h = hashlib.sha1()
    for f in sorted((REPO / 'src' / 'cell_type_mapper').rglob('*.py')):
        if 'data' in f.parts:
            continue
        h.update(f.read_bytes())
    return h.hexdigest()[:12]
