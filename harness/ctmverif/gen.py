"""
Seeded, type-directed generators shared by the suites.  Every random choice
comes from the `random.Random` handed in (derived from VERIF_SEED).
"""
import copy
import itertools

NAME_POOL = ['a', 'b', 'B', 'a1', 'a10', 'a2', 'c', 'c,d', 'x y', 'z"q',
             'n9', 'n10', 'Z', '_', '10', '9', 'é', 'aa', 'ab', 'A/b']


def fresh_names(rng, n, prefix=''):
    """n distinct strings whose sort order differs from creation order"""
    out = []
    seen = set()
    while len(out) < n:
        base = rng.choice(NAME_POOL)
        if rng.random() < 0.5:
            base = base + str(rng.randrange(0, 30))
        name = prefix + base
        if name in seen:
            continue
        seen.add(name)
        out.append(name)
    return out


def random_tree(rng, max_depth=4, max_top=3, max_children=3,
                rows=True, share_names_across_levels=True,
                chain_prob=0.25, level_names=None, max_leaves=None):
    """
    A valid taxonomy tree as the dict `validate_taxonomy_tree` expects.
    Includes single-child chains, single-node levels, depth 1.
    """
    depth = rng.randint(1, max_depth)
    if level_names is None:
        level_names = rng.sample(
            ['class', 'subclass', 'supertype', 'cluster', 'L0', 'lvl',
             'zeta', 'alpha'], depth)
    tree = {'hierarchy': list(level_names)}
    n_top = 1 if rng.random() < 0.2 else rng.randint(1, max_top)
    used = set()

    def names_for(n, lvl):
        out = []
        while len(out) < n:
            cand = fresh_names(rng, 1)[0]
            if not share_names_across_levels and cand in used:
                continue
            if cand in out or cand in tree.get(lvl, {}):
                continue
            out.append(cand)
            used.add(cand)
        return out

    current = names_for(n_top, level_names[0])
    for i, lvl in enumerate(level_names):
        tree[lvl] = {}
        if i == depth - 1:
            for n in current:
                tree[lvl][n] = []
            break
        nxt_lvl = level_names[i + 1]
        nxt = []
        for n in current:
            if rng.random() < chain_prob:
                k = 1
            else:
                k = rng.randint(1, max_children)
            if max_leaves is not None:
                k = max(1, min(k, max_leaves - len(nxt)
                               - (len(current) - len(tree[lvl]) - 1)))
            kids = []
            while len(kids) < k:
                c = fresh_names(rng, 1)[0]
                if c in nxt or c in kids:
                    continue
                kids.append(c)
            tree[lvl][n] = kids
            nxt += kids
        # dict order of the next level: shuffled w.r.t. parent order
        rng.shuffle(nxt)
        current = nxt
    leaf = level_names[-1]
    if rows:
        idx = list(range(rng.randint(0, 3) + 2 * len(tree[leaf])))
        rng.shuffle(idx)
        for n in tree[leaf]:
            k = rng.randint(0, 2) if rng.random() < 0.3 else rng.randint(1, 2)
            tree[leaf][n] = [idx.pop() for _ in range(min(k, len(idx)))]
    if rng.random() < 0.3:
        tree['metadata'] = {'note': 'x'}
    return tree


def all_tree_shapes(max_levels, max_leaves):
    """every tree shape (up to sibling order) with <= max_levels levels and
    <= max_leaves leaves, all leaves at the same depth. Yields nested
    tuples: a node is a tuple of children; a leaf is ()."""
    # forests of given depth with given number of leaves, as sorted tuples
    from functools import lru_cache

    @lru_cache(None)
    def nodes(depth, leaves):
        # trees with root at 'depth' levels above leaves (depth 0 = leaf)
        if depth == 0:
            return [()] if leaves == 1 else []
        return forests(depth - 1, leaves, None)

    @lru_cache(None)
    def forests(depth, leaves, bound):
        # non-empty multisets (sorted tuples) of trees of height `depth`
        # totalling `leaves` leaves
        out = []
        cands = []
        for k in range(1, leaves + 1):
            for t in nodes(depth, k):
                cands.append((k, t))
        cands.sort(key=lambda kt: repr(kt))

        def rec(start, remaining, acc):
            if remaining == 0:
                if acc:
                    out.append(tuple(acc))
                return
            for i in range(start, len(cands)):
                k, t = cands[i]
                if k <= remaining:
                    rec(i, remaining - k, acc + [t])
        rec(0, leaves, [])
        return out

    for depth in range(1, max_levels + 1):
        for leaves in range(1, max_leaves + 1):
            for forest in forests(depth - 1, leaves, None):
                yield depth, forest


def shape_to_tree(depth, forest, rng=None):
    """materialise a shape as a tree dict with generated names"""
    levels = ['L%d' % i for i in range(depth)]
    tree = {'hierarchy': levels}
    for lv in levels:
        tree[lv] = {}
    counter = itertools.count()
    row = itertools.count()

    def name(lvl_idx):
        k = next(counter)
        if rng is not None and rng.random() < 0.3:
            return 'n%d_%d' % (10 - lvl_idx, 100 - k)
        return 'n%d_%d' % (lvl_idx, k)

    def build(node, lvl_idx):
        nm = name(lvl_idx)
        if lvl_idx == depth - 1:
            tree[levels[lvl_idx]][nm] = [next(row)]
            return nm
        kids = [build(ch, lvl_idx + 1) for ch in node]
        tree[levels[lvl_idx]][nm] = kids
        return nm

    for top in forest:
        build(top, 0)
    return tree


def malformed_variants(rng, tree):
    """one-edit corruptions of a valid tree: (label, tree) pairs"""
    out = []
    h = tree['hierarchy']

    def cp():
        return copy.deepcopy(tree)

    t = cp(); t.pop('hierarchy'); out.append(('no_hierarchy', t))
    t = cp(); t['stray'] = {}; out.append(('stray_key', t))
    t = cp(); t['hierarchy'] = h + ['ghost']; out.append(('ghost_level', t))
    if len(h) > 1:
        t = cp(); t['hierarchy'] = h[:-1]; out.append(('unlisted_level', t))
        t = cp(); t.pop(h[0]); out.append(('missing_level_dict', t))
    lvl = rng.choice(h)
    if tree[lvl]:
        t = cp()
        k = rng.choice(list(t[lvl].keys()))
        v = t[lvl].pop(k)
        t[lvl][7] = v
        out.append(('non_str_node', t))
    for i in range(len(h) - 1):
        pl, cl = h[i], h[i + 1]
        parents = list(tree[pl].keys())
        kids = list(tree[cl].keys())
        if kids:
            # child listed but key removed
            t = cp(); t[cl].pop(rng.choice(kids)); out.append(('missing_child_key', t))
            # orphan: key present, listed nowhere
            t = cp()
            t[cl]['orphan_zz'] = [] if i + 1 == len(h) - 1 else list(t[cl][kids[0]])[:0]
            out.append(('orphan', t))
            # repeated child within one parent
            p = rng.choice(parents)
            if t[pl][p]:
                t = cp()
                c = rng.choice(list(t[pl][p]))
                t[pl][p] = list(t[pl][p]) + [c]
                out.append(('repeated_child', t))
        if len(parents) > 1:
            p1, p2 = rng.sample(parents, 2)
            if tree[pl][p1]:
                t = cp()
                t[pl][p2] = list(t[pl][p2]) + [rng.choice(list(t[pl][p1]))]
                out.append(('two_parents', t))
    leaf = h[-1]
    leaves = list(tree[leaf].keys())
    with_rows = [k for k in leaves if len(tree[leaf][k]) > 0]
    if with_rows:
        t = cp()
        a = rng.choice(with_rows)
        b = rng.choice(leaves)
        t[leaf][b] = list(t[leaf][b]) + [t[leaf][a][0]]
        out.append(('dup_row', t))
    return out
