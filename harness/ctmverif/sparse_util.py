"""
Shared helpers for the C05 / C13 suites: matrix generators, an independent
(numpy-only, no scipy, no repo code) compressed <-> dense oracle, raw HDF5 /
h5ad writers with chosen dtypes and chunk layouts, the float stage of the
memory-budget arithmetic, and JSON canonicalisation for the Lean driver.
"""
import contextlib
import fractions
import io
import itertools
import warnings

import h5py
import numpy as np

from ctmverif import pipeline

DATA_DTYPES = ['float64', 'float32', 'int32', 'int64', 'uint16', 'uint8']
INDEX_DTYPES = ['int32', 'int64', 'uint32', 'uint16']


# ---------------------------------------------------------------------------
# values / JSON
# ---------------------------------------------------------------------------

def jval(x):
    """exact value of a numpy scalar as the driver prints it: int or
    [num, den]"""
    if isinstance(x, (np.integer, int)):
        return int(x)
    f = fractions.Fraction(float(x))
    if f.denominator == 1:
        return int(f.numerator)
    return [int(f.numerator), int(f.denominator)]


def jdense(a):
    a = np.asarray(a)
    if a.ndim == 1:
        return [jval(x) for x in a]
    return [[jval(x) for x in row] for row in a]


def jmat(indptr, indices, data):
    return {'indptr': [int(x) for x in indptr],
            'indices': [int(x) for x in indices],
            'data': None if data is None else [jval(x) for x in data]}


def frac(x):
    f = fractions.Fraction(float(x))
    return [int(f.numerator), int(f.denominator)]


def classify(exc):
    return type(exc).__name__


@contextlib.contextmanager
def quiet():
    buf = io.StringIO()
    with warnings.catch_warnings():
        warnings.simplefilter('ignore')
        with contextlib.redirect_stdout(buf):
            yield buf


# ---------------------------------------------------------------------------
# independent oracle: compressed <-> dense with plain loops
# ---------------------------------------------------------------------------

def dense_to_comp(X, axis=0, rng=None, unsorted=False):
    """CSR (axis=0) / CSC (axis=1) arrays of the non-zeros of X; minor indices
    ascending within a slice unless `unsorted` (then shuffled with rng)"""
    X = np.asarray(X)
    A = X if axis == 0 else X.T
    indptr = [0]
    indices = []
    data = []
    for i in range(A.shape[0]):
        cols = [j for j in range(A.shape[1]) if A[i, j] != 0]
        if unsorted and rng is not None and len(cols) > 1:
            rng.shuffle(cols)
        for j in cols:
            indices.append(j)
            data.append(A[i, j])
        indptr.append(len(indices))
    return (np.array(indptr, dtype=np.int64),
            np.array(indices, dtype=np.int64),
            np.array(data, dtype=X.dtype))


def comp_to_dense(indptr, indices, data, n_major, n_minor, dtype=None):
    """dense (n_major x n_minor) from compressed arrays; None if the arrays
    are not a well-formed compressed matrix (returns (None, reason))"""
    indptr = [int(x) for x in indptr]
    indices = [int(x) for x in indices]
    if len(indptr) != n_major + 1:
        return None, 'indptr has %d entries for %d slices' % (
            len(indptr), n_major)
    if indptr[0] != 0:
        return None, 'indptr[0] = %d' % indptr[0]
    if indptr[-1] != len(indices):
        return None, 'indptr[-1] = %d but %d indices' % (
            indptr[-1], len(indices))
    if data is not None and len(data) != len(indices):
        return None, 'len(data) = %d, len(indices) = %d' % (
            len(data), len(indices))
    for a, b in zip(indptr[:-1], indptr[1:]):
        if b < a:
            return None, 'indptr not monotone'
    if data is None:
        out = np.zeros((n_major, n_minor), dtype=int)
    else:
        out = np.zeros((n_major, n_minor),
                       dtype=dtype or np.asarray(data).dtype)
    for i in range(n_major):
        seen = set()
        for p in range(indptr[i], indptr[i + 1]):
            j = indices[p]
            if j < 0 or j >= n_minor:
                return None, 'index %d out of range in slice %d' % (j, i)
            if j in seen:
                return None, 'index %d repeated in slice %d' % (j, i)
            seen.add(j)
            out[i, j] = 1 if data is None else data[p]
    return out, None


def slices_strictly_increasing(indptr, indices):
    indptr = [int(x) for x in indptr]
    for i in range(len(indptr) - 1):
        seg = [int(x) for x in indices[indptr[i]:indptr[i + 1]]]
        for a, b in zip(seg[:-1], seg[1:]):
            if not a < b:
                return False, i
    return True, None


def same_matrix(a, b):
    a = np.asarray(a)
    b = np.asarray(b)
    return a.shape == b.shape and bool(np.array_equal(a, b))


# ---------------------------------------------------------------------------
# matrices
# ---------------------------------------------------------------------------

KINDS = ['random', 'random', 'random', 'empty_rows', 'empty_cols',
         'single_row', 'single_col', 'all_zero', 'one_entry', 'dense',
         'banded', 'big']


def rand_value(rng, dtype):
    """non-zero value exactly representable in dtype"""
    if dtype.startswith('float'):
        return rng.choice([0.5, 1.0, 1.5, 2.0, 3.0, 7.25, 100.0, 0.125,
                           -1.0, 12345.0])
    if dtype == 'uint8':
        return rng.randint(1, 255)
    if dtype == 'uint16':
        return rng.randint(1, 60000)
    return rng.choice([1, 2, 3, 5, 9, 1000, -4]) if dtype.startswith('int') \
        else rng.randint(1, 9)


def gen_matrix(rng, kind=None, dtype='float64', max_rows=9, max_cols=8,
               big_entries=None):
    """a dense numpy matrix of dtype with the named structure; `big` has
    1.1 .. 4.2 times the CURRENT minimum block size of the transposition
    stored entries, so that the enforced minimum sizes are crossed"""
    if big_entries is None:
        mn = consts()['min_any']
        big_entries = (mn + mn // 10 + 1, 4 * mn + mn // 5 + 2)
    kind = kind or rng.choice(KINDS)
    n = rng.randint(1, max_rows)
    m = rng.randint(1, max_cols)
    if kind == 'single_row':
        n = 1
    if kind == 'single_col':
        m = 1
    if kind == 'big':
        target = rng.randint(*big_entries)
        n = rng.randint(3, 30)
        m = max(2, (target * 2) // n + rng.randint(0, 4))
        dens = min(1.0, target / float(n * m))
    else:
        dens = rng.choice([0.15, 0.3, 0.5, 0.8])
    X = np.zeros((n, m), dtype=dtype)

    def put(i, j):
        X[i, j] = rand_value(rng, dtype)

    if kind == 'all_zero':
        pass
    elif kind == 'one_entry':
        put(rng.randrange(n), rng.randrange(m))
    elif kind == 'dense':
        for i in range(n):
            for j in range(m):
                put(i, j)
    elif kind == 'banded':
        for i in range(n):
            for j in range(m):
                if abs(i - j) <= 1:
                    put(i, j)
    else:
        for i in range(n):
            for j in range(m):
                if rng.random() < dens:
                    put(i, j)
        if kind == 'empty_rows' and n > 1:
            for i in rng.sample(range(n), rng.randint(1, max(1, n // 2))):
                X[i, :] = 0
            if rng.random() < 0.5:
                X[0, :] = 0
            if rng.random() < 0.5:
                X[-1, :] = 0
        if kind == 'empty_cols' and m > 1:
            for j in rng.sample(range(m), rng.randint(1, max(1, m // 2))):
                X[:, j] = 0
            if rng.random() < 0.5:
                X[:, 0] = 0
            if rng.random() < 0.5:
                X[:, -1] = 0
    return X, kind


def pattern_matrices(max_dim=4):
    """0/1 patterns of every shape up to max_dim x max_dim, one
    representative per class: rows and columns are both in non-decreasing
    order as bit strings (every pattern can be brought to such a form by row
    and column permutations)"""
    for n in range(1, max_dim + 1):
        for m in range(1, max_dim + 1):
            for rows in itertools.combinations_with_replacement(
                    range(2 ** m), n):
                X = np.array([[(r >> (m - 1 - j)) & 1 for j in range(m)]
                              for r in rows], dtype=np.float64)
                cols = [tuple(X[:, j]) for j in range(m)]
                if all(cols[j] <= cols[j + 1] for j in range(m - 1)):
                    yield X


# ---------------------------------------------------------------------------
# files
# ---------------------------------------------------------------------------

def write_raw_sparse(path, indptr, indices, data, index_dtype='int32',
                     indptr_dtype=None, data_dtype=None, chunks=None):
    """HDF5 file with datasets indices / indptr / data (data may be None)"""
    with h5py.File(path, 'w') as f:
        kw = {}
        if chunks is not None and len(indices) > 0:
            kw['chunks'] = (max(1, min(int(chunks), len(indices))),)
        f.create_dataset('indices',
                         data=np.asarray(indices).astype(index_dtype), **kw)
        f.create_dataset('indptr', data=np.asarray(indptr).astype(
            indptr_dtype or index_dtype))
        if data is not None:
            f.create_dataset('data', data=np.asarray(data).astype(
                data_dtype or np.asarray(data).dtype), **kw)
    return path


def layer_key(layer):
    return 'X' if layer is None or layer == 'X' else 'layers/%s' % layer


def write_h5ad(path, X, encoding, layer=None, obs_names=None, var_names=None):
    n, m = X.shape
    return pipeline.write_h5ad(
        path, X,
        obs_names if obs_names is not None else ['c%d' % i for i in range(n)],
        var_names if var_names is not None else ['g%d' % j for j in range(m)],
        encoding=encoding, layer=layer)


def _recreate(grp, name, arr, attrs, **kw):
    del grp[name]
    d = grp.create_dataset(name, data=arr, **kw)
    for k, v in attrs.items():
        d.attrs.create(name=k, data=v)
    return d


def relayout(path, layer, encoding, rng, chunk_choice, unsorted=False,
             index_dtype=None):
    """re-write the matrix datasets of an h5ad with another HDF5 chunk layout
    (chunk_choice: None / 'contig' = contiguous, 'small', 'mid', 'one'),
    optionally
    shuffling the minor indices within each slice (still the same matrix) and
    changing the dtype of indices/indptr"""
    key = layer_key(layer)
    with h5py.File(path, 'a') as f:
        if encoding == 'dense':
            d = f[key]
            arr = d[()]
            attrs = dict(d.attrs)
            parent = f[key.rsplit('/', 1)[0]] if '/' in key else f
            name = key.rsplit('/', 1)[-1]
            kw = {}
            if chunk_choice == 'small':
                kw['chunks'] = (max(1, min(2, arr.shape[0])),
                                max(1, min(3, arr.shape[1])))
            elif chunk_choice == 'mid':
                kw['chunks'] = (max(1, arr.shape[0] // 2 or 1),
                                max(1, arr.shape[1]))
            elif chunk_choice == 'one':
                kw['chunks'] = (1, 1)
            _recreate(parent, name, arr, attrs, **kw)
            return
        g = f[key]
        indptr = g['indptr'][()]
        indices = g['indices'][()]
        data = g['data'][()]
        if unsorted:
            for i in range(len(indptr) - 1):
                a, b = int(indptr[i]), int(indptr[i + 1])
                if b - a > 1:
                    perm = list(range(a, b))
                    rng.shuffle(perm)
                    indices[a:b] = indices[perm]
                    data[a:b] = data[perm]
        if index_dtype is not None:
            indptr = indptr.astype(index_dtype)
            indices = indices.astype(index_dtype)
        for name, arr in (('indptr', indptr), ('indices', indices),
                          ('data', data)):
            kw = {}
            if len(arr) > 0:
                if chunk_choice == 'small':
                    kw['chunks'] = (min(3, len(arr)),)
                elif chunk_choice == 'mid':
                    kw['chunks'] = (max(1, len(arr) // 2),)
                elif chunk_choice == 'one':
                    kw['chunks'] = (1,)
            _recreate(g, name, arr, dict(g[name].attrs), **kw)


def read_comp(path, key='X'):
    with h5py.File(path, 'r') as f:
        g = f[key]
        return (g['indptr'][()], g['indices'][()],
                g['data'][()] if 'data' in g else None,
                {k: (v.tolist() if hasattr(v, 'tolist') else v)
                 for k, v in g.attrs.items()})


def read_dense(path, key='X'):
    with h5py.File(path, 'r') as f:
        return f[key][()]


def err_shape(exc):
    """failure class of an exception by message pattern (for signatures)"""
    msg = str(exc)
    if 'Chunk shape must not be greater' in msg or \
            'chunk dimensions must be positive' in msg.lower():
        return 'empty-chunked-dataset'
    if 'zero-size array to reduction' in msg:
        return 'reduction-of-empty-array'
    if 'name already exists' in msg:
        return 'link-exists'
    return 'other'


def nbytes(dtype):
    return np.dtype(dtype).itemsize


# ---------------------------------------------------------------------------
# memory budget: the float stage (trusted IEEE arithmetic, replicated here
# operation by operation); the rounding and integer part is the model's
# ---------------------------------------------------------------------------

_CONSTS = {}


def consts():
    """the constants of the budget arithmetic as they stand in the CURRENT
    source (ctmverif.sparse_translate): min chunk sizes, dex_bytes, join
    block, divisor of the budget split.  The suites aim their sizes and their
    float replica at these, never at the pinned literals."""
    if not _CONSTS:
        from ctmverif import sparse_translate
        c = sparse_translate.extract()
        _CONSTS.update(c)
        _CONSTS['min_any'] = max(1, c['count_min'], c['load_min'],
                                 c['el_min'])
        _CONSTS['split'] = c['load_split_den'] or 3
    return _CONSTS


def budget_json(max_gb, data_dtype, indptr_dtype, indices_dtype):
    """what transpose_sparse_matrix_on_disk(max_gb=max_gb) starts from"""
    g = 0.8 * max_gb
    load = g / consts()['split']
    el = g - load
    return {'countGb': frac(g), 'loadGb': frac(load), 'elGb': frac(el),
            'dataBytes': 0 if data_dtype is None else nbytes(data_dtype),
            'indptrBytes': nbytes(indptr_dtype),
            'indicesBytes': nbytes(indices_dtype)}


def budget_py(max_gb, data_dtype, indptr_dtype, indices_dtype):
    """independent evaluation of the whole budget arithmetic with Python
    floats/ints (used to aim the generators and to cross-check the model)"""
    k = consts()
    g = 0.8 * max_gb
    load = g / k['split']
    el = g - load
    db = 0 if data_dtype is None else nbytes(data_dtype)
    pb = nbytes(indptr_dtype)
    ib = nbytes(indices_dtype)
    lo_count = max(k['count_min'], (int(round(g * 1024 ** 3)) // ib) // 2)
    lo = max(k['load_min'], int(round(load * 1024 ** 3)) //
             (db + pb + ib + k['dex_bytes']))
    e = max(k['el_min'], int(round(el * 1024 ** 3)) // (db + max(ib, pb)))
    return {'loCount': lo_count, 'lo': lo, 'el': e}


def max_gb_for_lo(lo, data_dtype, indptr_dtype, indices_dtype):
    """a max_gb for which the fill pass loads about `lo` entries at a time"""
    db = 0 if data_dtype is None else nbytes(data_dtype)
    lb = db + nbytes(indptr_dtype) + nbytes(indices_dtype) + \
        consts()['dex_bytes']
    return float(consts()['split']) * (lo + 0.5) * lb / (1024.0 ** 3) / 0.8


def max_gb_for_el(el, data_dtype, indptr_dtype, indices_dtype):
    """a max_gb for which about `el` elements are written per block"""
    db = 0 if data_dtype is None else nbytes(data_dtype)
    eb = db + max(nbytes(indptr_dtype), nbytes(indices_dtype))
    sp = float(consts()['split'])
    return (sp / (sp - 1.0) if sp > 1 else 1.0) * (el + 0.5) * eb / \
        (1024.0 ** 3) / 0.8


def pick_max_gb(rng, nnz, data_dtype, indptr_dtype, indices_dtype):
    """budgets aimed at putting load-chunk / block borders inside the data"""
    r = rng.random()
    mn = consts()['min_any']
    if r < 0.3:
        return rng.choice([1e-12, 1e-9, 0.0, 1e-7])
    if r < 0.55 and nnz > mn:
        return max_gb_for_el(rng.randint(mn, max(mn + 1, nnz)), data_dtype,
                             indptr_dtype, indices_dtype)
    if r < 0.8 and nnz > mn:
        return max_gb_for_lo(rng.randint(mn, max(mn + 1, nnz)), data_dtype,
                             indptr_dtype, indices_dtype)
    return rng.choice([1e-6, 1e-5, 0.001, 1.0, 10.0])


def run_isolated(fn):
    """run fn() in a forked child and return ('ok', None) / ('err', repr) /
    ('crash', signal number): a call that may bring the interpreter down
    (scipy on inconsistent arrays under a mutated code base) must not take the
    check with it.  The child only reports success or the exception."""
    import os
    import pickle
    import traceback
    r, w = os.pipe()
    pid = os.fork()
    if pid == 0:
        code = 0
        try:
            os.close(r)
            try:
                fn()
                payload = ('ok', None, None)
            except BaseException as e:   # noqa
                payload = ('err', type(e).__name__, str(e)[:500])
            with os.fdopen(w, 'wb') as f:
                pickle.dump(payload, f)
        except BaseException:   # noqa
            traceback.print_exc()
            code = 1
        finally:
            os._exit(code)
    os.close(w)
    with os.fdopen(r, 'rb') as f:
        data = f.read()
    _, status = os.waitpid(pid, 0)
    if os.WIFSIGNALED(status):
        return ('crash', 'signal %d' % os.WTERMSIG(status), '')
    if not data:
        return ('crash', 'exit %d' % os.WEXITSTATUS(status), '')
    return pickle.loads(data)


def write_h5ad_multi(path, layers, obs_names=None, var_names=None):
    """h5ad with several matrices of one shape: layers maps None (= X) or a
    layer name to (dense numpy matrix, encoding in dense|csr|csc).  Without an
    entry for None, X is an all-zero CSR placeholder."""
    import anndata
    import pandas as pd
    import scipy.sparse

    def enc(X, encoding):
        if encoding == 'csr':
            return scipy.sparse.csr_matrix(X)
        if encoding == 'csc':
            return scipy.sparse.csc_matrix(X)
        return np.asarray(X)

    any_x = next(iter(layers.values()))[0]
    n, m = any_x.shape
    obs = pd.DataFrame(index=pd.Index(
        obs_names if obs_names is not None else ['c%d' % i for i in range(n)],
        name='cell_id'))
    var = pd.DataFrame(index=pd.Index(
        var_names if var_names is not None else ['g%d' % j for j in range(m)],
        name='gene_id'))
    with warnings.catch_warnings():
        warnings.simplefilter('ignore')
        if None in layers:
            x = enc(*layers[None])
        else:
            x = scipy.sparse.csr_matrix((n, m), dtype=np.float32)
        a = anndata.AnnData(
            X=x, obs=obs, var=var,
            layers={k: enc(*v) for k, v in layers.items() if k is not None})
        a.write_h5ad(path)
    return path


def trap_row_lists(rng, n, k=3):
    """repeat-free, in-range row lists that LOOK like one ascending block from
    the outside (first/last, min/max, length) but are not - aimed at shortcuts
    that inspect only the ends of a selection.  Needs n >= 3."""
    out = []
    if n < 3:
        return out
    for _ in range(k):
        style = rng.randrange(6)
        ln = rng.randint(3, n)
        a = rng.randint(0, n - ln)
        b = a + ln - 1
        block = list(range(a, b + 1))
        if style == 0 and ln >= 4:
            # permutation of a contiguous block, first and last fixed
            mid = block[1:-1]
            while mid == block[1:-1]:
                rng.shuffle(mid)
            rows = [a] + mid + [b]
        elif style == 1:
            # first/last exactly len-1 apart, interior arbitrary (also rows
            # outside [first, last])
            pool = [r for r in range(n) if r not in (a, b)]
            mid = rng.sample(pool, ln - 2)
            if mid == block[1:-1]:
                mid = mid[::-1] if ln > 3 else mid
            rows = [a] + mid + [b]
        elif style == 2:
            # rotated block
            r = rng.randint(1, ln - 1)
            rows = block[r:] + block[:r]
        elif style == 3:
            # fully shuffled block
            rows = list(block)
            rng.shuffle(rows)
        elif style == 4:
            # the same trap with the ends swapped (last = first - (len-1))
            pool = [r for r in range(n) if r not in (a, b)]
            rows = [b] + rng.sample(pool, ln - 2) + [a]
        else:
            # reversed block
            rows = block[::-1]
        out.append(rows)
    return out


def trap_index_lists(rng, top=12):
    """lists with repeats for merge_index_list whose length / first / last /
    min / max suggest one block although the set is not"""
    a = rng.randint(0, top - 4)
    return rng.choice([
        [a, a, a + 2],                   # len == max-min+1, set has a gap
        [a, a + 3, a + 1],               # first/last 1 apart... interior out
        [a, a + 2, a + 2, a + 3],        # len == max-min+1 with a repeat
        [a + 3, a + 1, a + 2, a],        # descending ends, full block
        [a, a + 5, a + 2],               # ends len+... scattered
        [a + 2, a, a + 1],               # rotated block
        [a, a + 2, a + 1, a + 3, a + 9], # block plus an outlier at the end
        [a + 9, a, a + 1, a + 2],        # outlier first
    ])


# ---------------------------------------------------------------------------
# size limits hidden in keyword defaults
# ---------------------------------------------------------------------------

ANCHORED_MODULES = [
    'cell_type_mapper.utils.sparse_utils',
    'cell_type_mapper.utils.csc_to_csr',
    'cell_type_mapper.utils.csc_to_csr_parallel',
    'cell_type_mapper.utils.anndata_utils',
    'cell_type_mapper.utils.h5_utils',
    'cell_type_mapper.utils.utils',
    'cell_type_mapper.anndata_iterator.anndata_iterator',
]
SIZE_PARAM = __import__('re').compile(
    r'(max_|_max|chunk|flush|elements|buffer|block|read|batch|at_a_time|'
    r'n_per|step)', __import__('re').I)


def _functions_of(mod):
    import inspect
    for name, obj in vars(mod).items():
        if inspect.isfunction(obj) and obj.__module__ == mod.__name__:
            yield name, obj
        elif inspect.isclass(obj) and obj.__module__ == mod.__name__:
            for n2, o2 in vars(obj).items():
                if inspect.isfunction(o2):
                    yield name + '.' + n2, o2


def size_limit_defaults(threshold=10 ** 5):
    """every keyword default of the anchored modules that is an integer
    >= threshold and whose name says it limits how much is read / written /
    buffered at a time: [(module, function, parameter, value)]"""
    import importlib
    import inspect
    out = []
    for mn in ANCHORED_MODULES:
        try:
            mod = importlib.import_module(mn)
        except Exception:
            continue
        for qn, fn in _functions_of(mod):
            try:
                sig = inspect.signature(fn)
            except (TypeError, ValueError):
                continue
            for pn, par in sig.parameters.items():
                d = par.default
                if isinstance(d, (int, np.integer)) and \
                        not isinstance(d, bool) and d >= threshold and \
                        SIZE_PARAM.search(pn):
                    out.append((mn, qn, pn, int(d)))
    return out


@contextlib.contextmanager
def lowered_defaults(value=7, threshold=10 ** 5):
    """temporarily replace every such default by a tiny value, so that a
    piecewise / buffered code path that only starts beyond 10**5 .. 10**9
    elements is exercised by small inputs.  A size limit must not change what
    is read, so every predicate of the suites applies unchanged.  Yields the
    list of lowered (module, function, parameter, old value)."""
    import importlib
    import inspect
    saved = []
    lowered = []
    for mn, qn, pn, old in size_limit_defaults(threshold):
        mod = importlib.import_module(mn)
        obj = mod
        for part in qn.split('.'):
            obj = vars(obj)[part] if inspect.isclass(obj) else getattr(obj,
                                                                        part)
        fn = obj
        sig = inspect.signature(fn)
        names = [p for p in sig.parameters.values()
                 if p.default is not inspect.Parameter.empty and
                 p.kind in (p.POSITIONAL_ONLY, p.POSITIONAL_OR_KEYWORD)]
        saved.append((fn, fn.__defaults__, fn.__kwdefaults__))
        if fn.__defaults__ and pn in [p.name for p in names]:
            idx = [p.name for p in names].index(pn)
            dl = list(fn.__defaults__)
            dl[idx] = value
            fn.__defaults__ = tuple(dl)
        elif fn.__kwdefaults__ and pn in fn.__kwdefaults__:
            kd = dict(fn.__kwdefaults__)
            kd[pn] = value
            fn.__kwdefaults__ = kd
        lowered.append((mn, qn, pn, old))
    try:
        yield lowered
    finally:
        for fn, d, kd in saved:
            fn.__defaults__ = d
            fn.__kwdefaults__ = kd


def write_big_csr_h5ad(path, n, m, seed, layer=None, encoding='csr'):
    """an h5ad-shaped HDF5 file (group with encoding-type / shape attrs, as
    AnnDataRowIterator needs) holding an n x m uint8 matrix with n*m - n//3
    stored entries, written directly with h5py (anndata would be slow at this
    size); returns the dense matrix"""
    rs = np.random.default_rng(seed)
    keep = np.ones((n, m), dtype=bool)
    rows0 = np.arange(0, n, 3)
    keep[rows0, rs.integers(0, m, len(rows0))] = False
    nnz = int(keep.sum())
    vals = ((np.arange(nnz, dtype=np.int64) * 7919 + seed) % 251 + 1).astype(
        np.uint8)
    dense = np.zeros((n, m), dtype=np.uint8)
    dense[keep] = vals
    key = layer_key(layer)
    with h5py.File(path, 'w') as f:
        if key != 'X':
            gx = f.create_group('X')
            gx.attrs['encoding-type'] = 'csr_matrix'
            gx.attrs['encoding-version'] = '0.1.0'
            gx.attrs['shape'] = np.array([n, m])
            gx.create_dataset('indptr', data=np.zeros(n + 1, dtype=np.int32))
            gx.create_dataset('indices', shape=(0,), dtype=np.int32)
            gx.create_dataset('data', shape=(0,), dtype=np.uint8)
        g = f.create_group(key)
        g.attrs['encoding-version'] = '0.1.0'
        g.attrs['shape'] = np.array([n, m])
        if encoding == 'csr':
            g.attrs['encoding-type'] = 'csr_matrix'
            g.create_dataset('indptr', data=np.concatenate(
                [[0], np.cumsum(keep.sum(axis=1))]).astype(np.int64))
            g.create_dataset('indices', data=np.nonzero(keep)[1].astype(
                np.int32))
            g.create_dataset('data', data=vals)
        else:
            kt = np.ascontiguousarray(keep.T)
            g.attrs['encoding-type'] = 'csc_matrix'
            g.create_dataset('indptr', data=np.concatenate(
                [[0], np.cumsum(kt.sum(axis=1))]).astype(np.int64))
            g.create_dataset('indices', data=np.nonzero(kt)[1].astype(
                np.int32))
            g.create_dataset('data', data=np.ascontiguousarray(dense.T)[kt])
    return dense
