"""
Fixtures for property C12 (query-marker selection): generated selection
problems (taxonomy tree + reference-marker table + query genes + targets),
a writer for the reference-marker HDF5 layout that
diff_exp/markers.py produces and marker_selection/marker_array.py reads, the
adapters that call the real selection, and the independent census used by the
predicates.

Nothing here calls the code under test except `run_select_all`,
`run_ref_list` and `leaves_order` (the latter only to learn the *order* in
which the implementation enumerates a parent's pairs).
"""
import contextlib
import itertools
import json
import os
import shutil
import sys

import numpy as np
import h5py

from ctmverif import gen, pipeline

INF_CUTOFF = 10**7


# ---------------------------------------------------------------------------
# the problem
# ---------------------------------------------------------------------------

class SelProblem(object):
    """
    tree        taxonomy dict (leaf level maps to [])
    ref_genes   reference gene names; position = gene id
    up, down    per global pair index: list of gene ids
    query       query gene names (may hold names the reference lacks)
    n_per       per-direction target
    overrides   list of [parent, n]; parent = None or [level, node]
    parent_list None or list of parents to restrict to
    """

    def __init__(self, tree, ref_genes, up, down, query, n_per,
                 overrides=None, parent_list=None, label=''):
        self.tree = tree
        self.ref_genes = list(ref_genes)
        self.up = [list(x) for x in up]
        self.down = [list(x) for x in down]
        self.query = list(query)
        self.n_per = int(n_per)
        self.overrides = [[_p(p), int(n)] for p, n in (overrides or [])]
        self.parent_list = None if parent_list is None \
            else [_p(p) for p in parent_list]
        self.label = label
        h = tree['hierarchy']
        self.leaf_level = h[-1]
        self.leaves = sorted(tree[self.leaf_level].keys())
        self.pairs = list(itertools.combinations(self.leaves, 2))
        self.pair_idx = {p: i for i, p in enumerate(self.pairs)}
        assert len(self.up) == len(self.pairs) == len(self.down)

    # -- serialisation (replay / corpus) --
    def to_json(self):
        ref = self.ref_genes
        query = self.query
        if len(ref) > 1000 and ref == ['g%06d' % i for i in range(len(ref))]:
            if query == ref:
                query = 'ALL'
            ref = {'n': len(ref)}
        sparse = len(self.up) > 2000
        return {'tree': self.tree, 'ref_genes': ref,
                'up': _sparse_rows(self.up) if sparse else self.up,
                'down': _sparse_rows(self.down) if sparse else self.down,
                'query': query,
                'n_per': self.n_per, 'overrides': self.overrides,
                'parent_list': self.parent_list, 'label': self.label,
                'dtype_mode': getattr(self, 'dtype_mode', 'int64')}

    @classmethod
    def from_json(cls, d):
        d = dict(d)
        if isinstance(d['ref_genes'], dict):
            d['ref_genes'] = ['g%06d' % i for i in range(d['ref_genes']['n'])]
        if d['query'] == 'ALL':
            d['query'] = list(d['ref_genes'])
        for k in ('up', 'down'):
            if isinstance(d[k], dict):
                rows = [[] for _ in range(d[k]['n'])]
                for i, r in d[k]['rows']:
                    rows[i] = r
                d[k] = rows
        out = cls(d['tree'], d['ref_genes'], d['up'], d['down'], d['query'],
                  d['n_per'], d.get('overrides'), d.get('parent_list'),
                  d.get('label', ''))
        out.dtype_mode = d.get('dtype_mode', 'int64')
        return out

    # -- parents --
    def all_parents(self):
        """None + every node above the leaf level (independent of the repo)"""
        out = [None]
        for lvl in self.tree['hierarchy'][:-1]:
            for node in self.tree[lvl]:
                out.append((lvl, node))
        return out

    def parents(self):
        if self.parent_list is None:
            return self.all_parents()
        return [_t(p) for p in self.parent_list]

    def n_for(self, parent):
        n = self.n_per
        for p, v in self.overrides:
            if _t(p) == parent:
                n = v
        return n

    def override_dict(self):
        if not self.overrides:
            return None
        return {_t(p): v for p, v in self.overrides}

    # -- drop_level (independent of TaxonomyTree.drop_level) --
    def droppable_levels(self):
        return list(self.tree['hierarchy'][:-1])

    def reduced(self, level):
        """the same table on the taxonomy with `level` removed: a node of the
        level above adopts the children of its children"""
        h = self.tree['hierarchy']
        if level not in h[:-1]:
            return self
        i = h.index(level)
        tree = {k: ({n: list(c) for n, c in v.items()}
                    if isinstance(v, dict) else list(v))
                for k, v in self.tree.items() if k != level}
        tree['hierarchy'] = [l for l in h if l != level]
        if i > 0:
            up = h[i - 1]
            for node, kids in self.tree[up].items():
                merged = []
                for k in kids:
                    merged += list(self.tree[level][k])
                tree[up][node] = merged
        out = SelProblem(tree, self.ref_genes, self.up, self.down,
                         self.query, self.n_per, self.overrides, None,
                         self.label)
        out.dtype_mode = getattr(self, 'dtype_mode', 'int64')
        return out

    # -- independent census --
    def leaf_ancestors(self):
        """leaf -> {level: ancestor at that level}"""
        h = self.tree['hierarchy']
        anc = {leaf: {h[-1]: leaf} for leaf in self.leaves}
        for li in range(len(h) - 2, -1, -1):
            lvl, child_lvl = h[li], h[li + 1]
            parent_of = {}
            for node, kids in self.tree[lvl].items():
                for k in kids:
                    parent_of[k] = node
            for leaf in self.leaves:
                anc[leaf][lvl] = parent_of[anc[leaf][child_lvl]]
        return anc

    def relevant_pairs(self, parent):
        """global indices of the leaf pairs the parent must discriminate:
        both leaves below the parent, below different children of it"""
        h = self.tree['hierarchy']
        anc = self.leaf_ancestors()
        if parent is None:
            child_lvl = h[0]
            under = list(self.leaves)
        else:
            li = h.index(parent[0])
            if li == len(h) - 1:
                return []
            child_lvl = h[li + 1]
            under = [l for l in self.leaves if anc[l][parent[0]] == parent[1]]
        out = []
        for a, b in itertools.combinations(sorted(under), 2):
            if anc[a][child_lvl] != anc[b][child_lvl]:
                out.append(self.pair_idx[(a, b)])
        return out

    def query_ids(self):
        """query genes as ids: reference position, or nGenes+k for a gene the
        reference lacks (k = rank among such names)"""
        pos = {g: i for i, g in enumerate(self.ref_genes)}
        extra = {}
        out = []
        for g in self.query:
            if g in pos:
                out.append(pos[g])
            else:
                if g not in extra:
                    extra[g] = len(self.ref_genes) + len(extra)
                out.append(extra[g])
        return out

    def markers_of(self, pair):
        return set(self.up[pair]) | set(self.down[pair])

    def table_json(self):
        return {'nGenes': len(self.ref_genes),
                'pairs': [[self.down[i], self.up[i]]
                          for i in range(len(self.pairs))]}

    def model_tables(self, trace_ids=()):
        """(table_json, query_ids, decode) for the model.  For a very large
        gene list the genes that mark no pair at all (utility 0 for ever,
        never chosen, never the argmax while the maximum is positive) are
        dropped and the others renumbered order-preservingly; decode maps a
        model gene id back to the reference id."""
        n_g = len(self.ref_genes)
        if n_g <= 2000:
            return self.table_json(), self.query_ids(), None
        used = set(trace_ids)
        for rows in (self.up, self.down):
            for r in rows:
                used.update(r)
        used = sorted(g for g in used if g < n_g)
        if not used:
            return self.table_json(), self.query_ids(), None
        new = {g: i for i, g in enumerate(used)}
        qset = set(self.query_ids())
        table = {'nGenes': len(used),
                 'pairs': [[[new[g] for g in self.down[i]],
                            [new[g] for g in self.up[i]]]
                           for i in range(len(self.pairs))]}
        query = [new[g] for g in used if g in qset]
        return table, query, used

    def shape_key(self):
        import hashlib
        return hashlib.sha1(json.dumps([self.tree, self.up, self.down,
                           sorted(self.query_ids()), self.n_per,
                           self.overrides, self.parent_list]).encode()).hexdigest()


def _sparse_rows(rows):
    return {'n': len(rows),
            'rows': [[i, r] for i, r in enumerate(rows) if r]}


def _p(parent):
    return None if parent is None else [parent[0], parent[1]]


def _t(parent):
    return None if parent is None else (parent[0], parent[1])


def parent_key(parent):
    return 'None' if parent is None else '%s/%s' % (parent[0], parent[1])


# ---------------------------------------------------------------------------
# generation
# ---------------------------------------------------------------------------

def small_tree(rng, max_leaves=7):
    """mostly >= 3 leaves (so that some parent has pairs to discriminate);
    deeper trees preferred"""
    min_leaves = 1 if rng.random() < 0.1 else 3
    while True:
        t = gen.random_tree(rng, max_depth=3, max_top=3, max_children=3,
                            rows=False, chain_prob=0.2)
        t = {k: v for k, v in t.items() if k != 'metadata'}
        leaf = t['hierarchy'][-1]
        if min_leaves <= len(t[leaf]) <= max_leaves:
            for k in t[leaf]:
                t[leaf][k] = []
            return t


def gen_problem(rng, mode=None, max_leaves=7):
    tree = small_tree(rng, max_leaves=max_leaves)
    leaf_level = tree['hierarchy'][-1]
    n_leaves = len(tree[leaf_level])
    n_pairs = n_leaves * (n_leaves - 1) // 2
    n_per = rng.choice([1, 1, 2, 2, 3, 4, 5])
    mode = mode or rng.choice(['dense', 'sparse', 'menu', 'menu', 'shared',
                               'shared', 'blocks'])
    n_genes = rng.randint(2, 8) if rng.random() < 0.3 else rng.randint(6, 18)
    ids = list(range(n_genes))
    names = ['g%d' % i for i in rng.sample(range(3 * n_genes), n_genes)]
    up, down = [], []
    # a few "hub" genes that mark many pairs, for the shared mode
    hubs = rng.sample(ids, min(len(ids), rng.randint(1, 3)))

    def split(genes, ku, kd):
        genes = list(genes)
        rng.shuffle(genes)
        ku = min(ku, len(genes))
        kd = min(kd, len(genes) - ku)
        return sorted(genes[:ku]), sorted(genes[ku:ku + kd])

    menu = [0, 0, 1, max(0, n_per - 1), n_per, n_per, n_per + 1, 2 * n_per,
            2 * n_per + 1, n_genes]
    for _ in range(n_pairs):
        if mode == 'dense':
            g = [i for i in ids if rng.random() < 0.8]
            u, d = split(g, rng.randint(0, len(g)), len(g))
        elif mode == 'sparse':
            g = [i for i in ids if rng.random() < 0.15]
            u, d = split(g, rng.randint(0, len(g)), len(g))
        elif mode == 'menu':
            u, d = split(ids, rng.choice(menu), rng.choice(menu))
        elif mode == 'shared':
            g = [i for i in hubs if rng.random() < 0.7]
            g += [i for i in ids if i not in hubs and rng.random() < 0.25]
            u, d = split(g, rng.randint(0, len(g)), len(g))
        else:   # blocks: consecutive windows -> many equal utilities
            w = rng.randint(0, min(n_genes, 2 * n_per + 2))
            s = rng.randrange(0, n_genes)
            g = [(s + k) % n_genes for k in range(w)]
            u, d = split(g, rng.randint(0, len(g)), len(g))
        if rng.random() < 0.5:
            u, d = d, u
        up.append(u)
        down.append(d)
    # query
    qmode = rng.choice(['all', 'all_perm', 'subset', 'subset', 'subset_extra',
                        'subset_extra', 'few'])
    q = list(names)
    if qmode == 'all_perm':
        rng.shuffle(q)
    elif qmode in ('subset', 'subset_extra'):
        rng.shuffle(q)
        q = q[rng.randint(0, max(0, n_genes // 2)):]
        if qmode == 'subset_extra':
            q += ['x%d' % i for i in range(rng.randint(1, 3))]
            rng.shuffle(q)
    elif qmode == 'few':
        q = rng.sample(q, rng.randint(1, min(3, n_genes)))
    prob = SelProblem(tree, names, up, down, q, n_per,
                      label='%s/%s' % (mode, qmode))
    prob.dtype_mode = rng.choice(['int64', 'uint'])
    # per-parent overrides
    if rng.random() < 0.4:
        ps = prob.all_parents()
        for p in rng.sample(ps, rng.randint(1, min(2, len(ps)))):
            prob.overrides.append([_p(p), rng.choice([1, 2, 3, 6])])
    if rng.random() < 0.15:
        ps = prob.all_parents()
        prob.parent_list = [_p(p) for p in
                            rng.sample(ps, rng.randint(1, len(ps)))]
    return prob


class MultiProblem(object):
    """one taxonomy, one query, several reference-marker files: probs[i] is
    the SelProblem of file i (own gene list and marker table, attribute
    leaf_n = cells per leaf in that file's statistics)"""

    def __init__(self, probs, label='multi'):
        self.probs = probs
        self.label = label

    def to_json(self):
        return {'label': self.label,
                'files': [dict(p.to_json(), leaf_n=p.leaf_n)
                          for p in self.probs]}

    @classmethod
    def from_json(cls, d):
        probs = []
        for f in d['files']:
            p = SelProblem.from_json(f)
            p.leaf_n = f['leaf_n']
            probs.append(p)
        return cls(probs, d.get('label', 'multi'))

    def census(self, parent):
        """cells under the parent in each file's statistics"""
        base = self.probs[0]
        anc = base.leaf_ancestors()
        if parent is None:
            under = list(base.leaves)
        else:
            under = [l for l in base.leaves
                     if anc[l][parent[0]] == parent[1]]
        return [sum(p.leaf_n[l] for l in under) for p in self.probs]

    def assignment(self):
        """parent -> index of the file it is selected on: the file with the
        most cells under the parent, the first such file on a tie
        (independent of the repo)"""
        out = {}
        for parent in self.probs[0].all_parents():
            c = self.census(parent)
            out[parent] = c.index(max(c))
        return out


def gen_multi(rng, n_files=2):
    """2-3 reference-marker files over one taxonomy whose gene lists differ
    (a shared core, private genes per file, different order), sparse
    pair-specific tables that lean on the private genes, cell counts that
    send different parents to different files; the query holds most genes of
    every file plus foreign ones"""
    for _ in range(50):
        tree = small_tree(rng)
        hh = tree['hierarchy']
        # want several parents that can go to different files
        if rng.random() < 0.1 or any(
                len(tree[l]) >= 2 and any(len(c) >= 2 for c in tree[l].values())
                for l in hh[:-1]):
            break
    leaf_level = tree['hierarchy'][-1]
    leaves = sorted(tree[leaf_level].keys())
    n_pairs = len(leaves) * (len(leaves) - 1) // 2
    n_per = rng.choice([1, 2, 2, 3])
    core = ['s%d' % i for i in range(rng.randint(2, 5))]
    probs = []
    h = tree['hierarchy']
    tops = list(tree[h[0]].keys())
    for fi in range(n_files):
        private = ['f%d_%d' % (fi, i) for i in range(rng.randint(4, 9))]
        names = core + private
        if fi == n_files - 1 and rng.random() < 0.5:
            names = list(core) + private[:2]     # (nearly) a subset file
        rng.shuffle(names)
        priv_ids = [i for i, g in enumerate(names) if g not in core]
        ids = list(range(len(names)))
        up, down = [], []
        for _ in range(n_pairs):
            # mostly private genes, around 2n of them
            k = rng.choice([0, 1, n_per, 2 * n_per, 2 * n_per + 1,
                            2 * n_per + 2])
            g = rng.sample(priv_ids, min(k, len(priv_ids)))
            if rng.random() < 0.4:
                g += rng.sample([i for i in ids if i not in g],
                                min(1, len(ids) - len(g)))
            rng.shuffle(g)
            c = rng.randint(0, len(g))
            up.append(sorted(g[:c]))
            down.append(sorted(g[c:]))
        probs.append((names, up, down))
    query = []
    for names, _, _ in probs:
        query += [g for g in names if g not in query and rng.random() < 0.85]
    for names, _, _ in probs:      # every file shares a gene with the query
        if not set(names) & set(query):
            query.append(names[0])
    query += ['x0', 'x1']
    rng.shuffle(query)
    # cells: file fi dominates the top-level branches it "owns"
    anc = SelProblem(tree, probs[0][0], probs[0][1], probs[0][2], query,
                     n_per).leaf_ancestors()
    # ownership alternates over the nodes of the lowest non-leaf level that
    # has >= 2 nodes, so that different parents go to different files
    own_level = h[0]
    for lvl in h[:-1]:
        if len(tree[lvl]) >= 2:
            own_level = lvl
    start = rng.randrange(n_files)
    nodes = list(tree[own_level].keys())
    rng.shuffle(nodes)
    owner = {t: (start + i) % n_files for i, t in enumerate(nodes)}
    out = []
    overrides = []
    if rng.random() < 0.4:
        overrides.append([None, rng.choice([1, 3])])
    for fi, (names, up, down) in enumerate(probs):
        p = SelProblem(tree, names, up, down, query, n_per,
                       overrides=overrides,
                       label='multi/file%d' % fi)
        p.dtype_mode = rng.choice(['int64', 'uint'])
        p.leaf_n = {l: (rng.randint(20, 40) if owner[anc[l][own_level]] == fi
                        else rng.randint(0, 6)) for l in leaves}
        out.append(p)
    return MultiProblem(out, label='multi/%d_files' % n_files)


def _two_level(groups):
    """tree ['class','cluster'] whose top nodes have the given numbers of
    leaves; leaf names sort in creation order"""
    tree = {'hierarchy': ['class', 'cluster'], 'class': {}, 'cluster': {}}
    k = 0
    for gi, n in enumerate(groups):
        kids = []
        for _ in range(n):
            name = 'c%05d' % k
            k += 1
            kids.append(name)
            tree['cluster'][name] = []
        tree['class']['T%02d' % gi] = kids
    return tree


def _cross_groups(target):
    """leaf counts of 2 or 3 top nodes whose cross pairs number `target`"""
    best = None
    for a in range(1, 400):
        if target % a == 0 and a <= target // a:
            best = (a, target // a)
    if best is not None and best[0] > 1:
        return list(best)
    for a in range(1, 40):
        for b in range(a, 40):
            rest = target - a * b
            if rest > 0 and rest % (a + b) == 0:
                return [a, b, rest // (a + b)]
    return [1, target]


def _global_groups(max_idx):
    """(n_low, n_high): leaves 0..n_low-1 under one top node, the rest under
    another, such that the largest global index of a cross pair is exactly
    max_idx (pair (n_low-1, n-1))"""
    for n in range(3, 2000):
        for i in range(0, n - 1):
            if i * n - i * (i + 1) // 2 + n - i - 2 == max_idx:
                return [i + 1, n - i - 1]
    return None


def boundary_problem(rng, target, kind='local'):
    """integer-width boundaries of the pair index arrays: kind='local' -> the
    root must discriminate exactly `target` pairs (local indices
    0..target-1 on the downsampled path); kind='global' -> the largest
    global pair index the root needs is exactly `target` (behemoth path).
    The first and last pairs, in local and in global order, of every parent
    carry a marker no other pair has."""
    if kind == 'local':
        # class A = subclasses whose cross pairs number `target`; class B
        # only inflates the table so that A is not a "behemoth"
        # (n_leaves > n_pairs // 2 would send it down the full-table path)
        groups = _cross_groups(target)
        m = 1
        while ((sum(groups) + m) * (sum(groups) + m - 1) // 2) // 2 < target:
            m += 1
        m += rng.randint(0, 2)
        tree = {'hierarchy': ['class', 'subclass', 'cluster'],
                'class': {'A': [], 'B': ['SB']}, 'subclass': {},
                'cluster': {}}
        k = 0
        for gi, n in enumerate(groups + [m]):
            sub = 'SB' if gi == len(groups) else 'S%02d' % gi
            kids = []
            for _ in range(n):
                name = 'c%05d' % k
                k += 1
                kids.append(name)
                tree['cluster'][name] = []
            tree['subclass'][sub] = kids
            if sub != 'SB':
                tree['class']['A'].append(sub)
        groups = groups + [m]
    else:
        groups = _global_groups(target)
        tree = _two_level(groups)
    n_leaves = sum(groups)
    n_pairs = n_leaves * (n_leaves - 1) // 2
    n_pool = rng.randint(8, 14)
    n_per = rng.choice([1, 2])
    up = [[] for _ in range(n_pairs)]
    down = [[] for _ in range(n_pairs)]
    pool = list(range(n_pool))
    for p in range(n_pairs):
        if rng.random() < 0.15:
            g = rng.sample(pool, rng.randint(1, 3))
            k = rng.randint(0, len(g))
            up[p] = sorted(g[:k])
            down[p] = sorted(g[k:])
    shell = SelProblem(tree, ['g%d' % i for i in range(n_pool)], up, down,
                       [], n_per)
    tt = impl_tree(shell)
    special = []
    for parent in ([None, ('class', 'A')] if kind == 'local' else [None]):
        o = leaves_order(shell, tt, parent)
        if o:
            special += [o[0], o[-1], min(o), max(o)]
    special = sorted(set(special))
    names = ['g%d' % i for i in range(n_pool + len(special))]
    for j, p in enumerate(special):
        g = n_pool + j
        if rng.random() < 0.5:
            up[p] = sorted(up[p] + [g])
        else:
            down[p] = sorted(down[p] + [g])
    prob = SelProblem(tree, names, up, down, names + ['x0'], n_per,
                      label='boundary/%s/%d' % (kind, target))
    prob.dtype_mode = 'uint'
    # only the parents the case is about (the others can be huge)
    prob.parent_list = [None, ['class', 'A']] if kind == 'local' else [None]
    return prob


def many_genes_problem(rng, n_genes=200000, n_leaves=None, gb_size=10):
    """a flat taxonomy whose root has more leaf pairs than one block of
    create_utility_array (round(gb_size*1024**3/(3*n_genes)) pairs), the
    remainder not a multiple of the block; very sparse table; the pairs
    around the block border and the trailing ones carry their own markers"""
    block = max(1, int(round(gb_size * 1024 ** 3 / (3 * n_genes))))
    if n_leaves is None:
        n_leaves = 3
        while n_leaves * (n_leaves - 1) // 2 <= block + 20:
            n_leaves += 1
        n_leaves += rng.randint(0, 2)
    leaves = ['c%04d' % i for i in range(n_leaves)]
    tree = {'hierarchy': ['cluster'], 'cluster': {l: [] for l in leaves}}
    n_pairs = n_leaves * (n_leaves - 1) // 2
    assert n_pairs > block and n_pairs % block != 0
    names = ['g%06d' % i for i in range(n_genes)]
    up = [[] for _ in range(n_pairs)]
    down = [[] for _ in range(n_pairs)]
    pool = rng.sample(range(n_genes), 60)
    for p in rng.sample(range(n_pairs), min(n_pairs, 3000)):
        g = rng.sample(pool, rng.randint(1, 3))
        k = rng.randint(0, len(g))
        up[p] = sorted(g[:k])
        down[p] = sorted(g[k:])
    special = [0, block - 1, block, block + 1, n_pairs - 1, n_pairs - 2,
               rng.randrange(block, n_pairs), rng.randrange(0, block)]
    poolset = set(pool)
    free = [g for g in rng.sample(range(n_genes), 200) if g not in poolset]
    for j, p in enumerate(sorted(set(special))):
        g = free[j]
        if j % 2:
            up[p] = sorted(set(up[p]) | {g})
        else:
            down[p] = sorted(set(down[p]) | {g})
    prob = SelProblem(tree, names, up, down, names, rng.choice([1, 2]),
                      label='many_genes/%d' % n_genes)
    prob.dtype_mode = 'uint'
    prob.block = block
    return prob


# ---------------------------------------------------------------------------
# writing the reference-marker file (layout of diff_exp/markers.py)
# ---------------------------------------------------------------------------

def _csr(rows, n_rows, dtype=np.int64):
    indptr = [0]
    ind = []
    for i in range(n_rows):
        ind += list(rows[i])
        indptr.append(len(ind))
    return np.array(indptr, dtype=dtype), np.array(ind, dtype=dtype)


def _transpose(rows, n_rows, n_cols):
    out = [[] for _ in range(n_cols)]
    for i in range(n_rows):
        for j in rows[i]:
            out[j].append(i)
    return out


def _uint_dtype(max_val):
    """what cell_type_mapper.utils.utils.choose_int_dtype picks for (0, max)"""
    for dt in (np.uint8, np.uint16, np.uint32):
        if max_val <= np.iinfo(dt).max:
            return dt
    return np.uint64


def write_problem(prob, d, with_metadata=True):
    """writes stats.h5 (taxonomy only; selection reads nothing else from it)
    and ref.h5 into directory d; returns (stats_path, ref_path).
    prob.dtype_mode: 'int64' or 'uint' (smallest unsigned types, as
    diff_exp/markers.py writes)"""
    n_g = len(prob.ref_genes)
    stats = pipeline.write_stats_file(
        d / 'stats.h5', prob.tree, prob.ref_genes,
        {l: np.zeros(n_g) for l in prob.leaves},
        getattr(prob, 'leaf_n', None) or {l: 1 for l in prob.leaves})
    p2i = {prob.leaf_level: {}}
    lk = p2i[prob.leaf_level]
    for i, (a, b) in enumerate(prob.pairs):
        lk.setdefault(a, {})
        lk.setdefault(b, {})
        lk[a][b] = i
    n_pairs = len(prob.pairs)
    ref = d / 'ref.h5'
    with h5py.File(ref, 'w') as f:
        f.create_dataset('gene_names',
                         data=json.dumps(prob.ref_genes).encode('utf-8'))
        f.create_dataset('pair_to_idx', data=json.dumps(p2i).encode('utf-8'))
        f.create_dataset('n_pairs', data=n_pairs)
        if with_metadata:
            f.create_dataset('metadata', data=json.dumps(
                {'precomputed_path': str(stats)}).encode('utf-8'))
        uint = getattr(prob, 'dtype_mode', 'int64') == 'uint'
        for nm, tab in (('up', prob.up), ('down', prob.down)):
            ip, ix = _csr(tab, n_pairs)
            if uint:
                ip = ip.astype(_uint_dtype(len(ix)))
                ix = ix.astype(_uint_dtype(n_g))
            f.create_dataset('sparse_by_pair/%s_pair_idx' % nm, data=ip)
            f.create_dataset('sparse_by_pair/%s_gene_idx' % nm, data=ix)
            ip, ix = _csr(_transpose(tab, n_pairs, n_g), n_g)
            if uint:
                ip = ip.astype(_uint_dtype(len(ix)))
                ix = ix.astype(_uint_dtype(max(n_pairs, 1)))
            f.create_dataset('sparse_by_gene/%s_gene_idx' % nm, data=ip)
            f.create_dataset('sparse_by_gene/%s_pair_idx' % nm, data=ix)
    return stats, ref


def real_problem(rng):
    """a problem whose reference-marker file is produced by the real
    find_markers_for_all_taxonomy_pairs from generated statistics (exact
    on-disk format: dtypes, chunking).  returns (prob, writer) where
    writer(prob, d) re-creates stats.h5 / ref.h5 in d"""
    from cell_type_mapper.diff_exp.markers import (
        find_markers_for_all_taxonomy_pairs)
    tree = small_tree(rng)
    leaf_level = tree['hierarchy'][-1]
    leaves = list(tree[leaf_level].keys())
    n_g = rng.randint(5, 14)
    names = ['g%d' % i for i in rng.sample(range(3 * n_g), n_g)]
    nprng = np.random.default_rng(rng.randrange(2**31))
    n_cells = {l: int(nprng.integers(8, 20)) for l in leaves}
    p_hi = rng.choice([0.15, 0.3, 0.5])
    hi = {l: nprng.random(n_g) < p_hi for l in leaves}
    mean = {l: np.where(hi[l], 8.0, 0.2) for l in leaves}

    def stats_writer(d):
        return pipeline.write_stats_file(
            d / 'stats.h5', tree, names,
            {l: mean[l] * n_cells[l] for l in leaves}, n_cells,
            {l: (mean[l] ** 2 + 0.05) * n_cells[l] for l in leaves},
            {l: np.where(hi[l], n_cells[l], 1) for l in leaves},
            {l: np.where(hi[l], n_cells[l], 0) for l in leaves},
            {l: np.where(hi[l], n_cells[l], 0) for l in leaves})

    def produce(d):
        stats = stats_writer(d)
        tt = impl_tree(shell)
        sub = d / 'fm_tmp'
        sub.mkdir()
        with silent():
            find_markers_for_all_taxonomy_pairs(
                precomputed_stats_path=stats, taxonomy_tree=tt,
                output_path=d / 'ref.h5', n_processors=2, tmp_dir=str(sub),
                max_gb=1)
        shutil.rmtree(sub, ignore_errors=True)
        return d / 'ref.h5'

    shell = SelProblem(tree, names, [[] for _ in range(len(leaves) * (len(leaves) - 1) // 2)],
                       [[] for _ in range(len(leaves) * (len(leaves) - 1) // 2)],
                       names, 1)
    with pipeline.workdir('c12_') as d:
        ref = produce(d)
        ref_bytes = ref.read_bytes()
        with h5py.File(ref, 'r') as f:
            gene_names = json.loads(f['gene_names'][()].decode('utf-8'))
            p2i = json.loads(f['pair_to_idx'][()].decode('utf-8'))
            tabs = {}
            for nm in ('up', 'down'):
                ip = f['sparse_by_pair/%s_pair_idx' % nm][()].astype(int)
                ix = f['sparse_by_pair/%s_gene_idx' % nm][()].astype(int)
                tabs[nm] = [sorted(int(x) for x in ix[ip[i]:ip[i + 1]])
                            for i in range(len(ip) - 1)]

    def writer(prob, d):
        """the very file find_markers produced (bytes), plus the metadata
        dataset the reference-marker CLI adds"""
        stats = stats_writer(d)
        (d / 'ref.h5').write_bytes(ref_bytes)
        with h5py.File(d / 'ref.h5', 'a') as f:
            f.create_dataset('metadata', data=json.dumps(
                {'precomputed_path': str(stats)}).encode('utf-8'))
        return stats, d / 'ref.h5'

    # the file's pair numbering must be the one SelProblem assumes
    for (a, b), i in shell.pair_idx.items():
        assert p2i[leaf_level][a][b] == i
    q = list(gene_names)
    rng.shuffle(q)
    q = q[rng.randint(0, n_g // 3):] + ['x0']
    prob = SelProblem(tree, gene_names, tabs['up'], tabs['down'], q,
                      rng.choice([1, 2, 3]), label='real_find_markers')
    return prob, writer


# ---------------------------------------------------------------------------
# adapters (the real code)
# ---------------------------------------------------------------------------

@contextlib.contextmanager
def silent():
    """pipeline.quiet + the workers' stderr (a failing worker prints its
    traceback there) sent to /dev/null"""
    sys.stderr.flush()
    saved = os.dup(2)
    devnull = os.open(os.devnull, os.O_WRONLY)
    try:
        os.dup2(devnull, 2)
        with pipeline.quiet():
            yield
    finally:
        sys.stderr.flush()
        os.dup2(saved, 2)
        os.close(saved)
        os.close(devnull)


def classify_error(e):
    msg = str(e)
    if 'No gene overlap' in msg:
        return 'noOverlap'
    if 'not a valid taxonomy pair' in msg or 'not under taxonomy level' in msg:
        return 'badPair'
    if isinstance(e, AssertionError):
        return 'assert'
    if 'exit code' in msg or 'exitcode' in msg or 'One of the processes' in msg:
        return 'workerFailed'
    return 'error:' + type(e).__name__


def impl_tree(prob):
    from cell_type_mapper.taxonomy.taxonomy_tree import TaxonomyTree
    with pipeline.quiet():
        return TaxonomyTree(data=json.loads(json.dumps(prob.tree)))


def leaves_order(prob, tt, parent):
    """the parent's pairs as global indices in the order the real
    leaves_to_compare lists them (None if a listed pair is not in the
    table)"""
    out = []
    for lvl, a, b in tt.leaves_to_compare(parent):
        i = prob.pair_idx.get((a, b))
        if i is None:
            return None
        out.append(i)
    return out


class SharedArgs(object):
    """the argument objects handed, as the SAME objects, to every call made
    for one problem; `changed()` names those a call has modified"""

    def __init__(self, prob):
        import copy
        self.query = list(prob.query)
        self.override = prob.override_dict()
        self.parent_list = None if prob.parent_list is None \
            else prob.parents()
        self._snap = copy.deepcopy(
            (self.query, self.override, self.parent_list))

    def changed(self):
        now = (self.query, self.override, self.parent_list)
        return [nm for nm, a, b in zip(
            ('query_gene_names', 'n_per_utility_override', 'parent_list'),
            now, self._snap) if a != b]


def run_select_all(prob, ref_path, tt, n_processors, cutoff, tmp_dir,
                   shared=None):
    """-> ('ok', {parent: [names]}, {parent_key: log}) or (err, None, None)"""
    from cell_type_mapper.marker_selection.selection_pipeline import (
        select_all_markers)
    shared = shared or SharedArgs(prob)
    try:
        with silent():
            out, log = select_all_markers(
                marker_cache_path=ref_path,
                query_gene_names=shared.query,
                taxonomy_tree=tt,
                n_per_utility=prob.n_per,
                n_processors=n_processors,
                behemoth_cutoff=cutoff,
                genes_at_a_time=1,
                n_per_utility_override=shared.override,
                parent_list=shared.parent_list,
                tmp_dir=str(tmp_dir))
    except BaseException as e:   # noqa
        if isinstance(e, KeyboardInterrupt):
            raise
        return classify_error(e), None, None
    return 'ok', {k: list(v) for k, v in out.items()}, dict(log)


def run_ref_list(prob, ref_path, n_processors, cutoff, tmp_dir,
                 shared=None, drop_level=None):
    """create_marker_gene_lookup_from_ref_list (reads the tree from the
    stats file named in the reference file's metadata)"""
    from cell_type_mapper.type_assignment.marker_cache_v2 import (
        create_marker_gene_lookup_from_ref_list)
    shared = shared or SharedArgs(prob)
    try:
        with silent():
            res = create_marker_gene_lookup_from_ref_list(
                reference_marker_path_list=[str(ref_path)]
                if not isinstance(ref_path, (list, tuple))
                else [str(r) for r in ref_path],
                query_gene_names=shared.query,
                n_per_utility=prob.n_per,
                n_per_utility_override=shared.override,
                n_processors=n_processors,
                behemoth_cutoff=cutoff,
                genes_at_a_time=1,
                tmp_dir=str(tmp_dir),
                drop_level=drop_level)
    except BaseException as e:   # noqa
        if isinstance(e, KeyboardInterrupt):
            raise
        return classify_error(e), None, None
    log = res.pop('log')
    return 'ok', {k: list(v) for k, v in res.items()}, dict(log)


# ---------------------------------------------------------------------------
# the predicate (independent of the code under test)
# ---------------------------------------------------------------------------

def check_selection(prob, parent, selected):
    """C12 clauses for one parent's list of selected gene names.
    returns list of (class, message, data)"""
    fails = []
    pos = {g: i for i, g in enumerate(prob.ref_genes)}
    qset = set(prob.query)
    rel = prob.relevant_pairs(parent)
    n = prob.n_for(parent)
    if len(set(selected)) != len(selected):
        fails.append(('duplicate', 'a gene is selected twice', {}))
    notq = [g for g in selected if g not in qset]
    if notq:
        fails.append(('not-in-query', 'selected genes absent from the query',
                      {'genes': notq}))
    if not rel and selected:
        fails.append(('nonempty-for-trivial-parent',
                      'a parent with nothing to discriminate gets markers',
                      {'genes': list(selected)}))
    rel_markers = set()
    for p in rel:
        rel_markers |= prob.markers_of(p)
    notm = [g for g in selected
            if g not in pos or pos[g] not in rel_markers]
    if rel and notm:
        fails.append(('not-a-marker',
                      'selected genes that mark no pair the parent must '
                      'discriminate', {'genes': notm}))
    sel_ids = set(pos[g] for g in selected if g in pos)
    q_ids = set(pos[g] for g in qset if g in pos)
    for p in rel:
        m = prob.markers_of(p)
        have = len(sel_ids & m)
        want = min(2 * n, len(m & q_ids))
        if have < want:
            fails.append(('coverage',
                          'pair %r: %d selected markers < min(2*%d, %d '
                          'available in the query)'
                          % (prob.pairs[p], have, n, len(m & q_ids)),
                          {'pair': list(prob.pairs[p]), 'have': have,
                           'want': want}))
            break
    return fails
