"""
Translator pass for C20: every message the package composes (raise / warning
/ log call / a `msg`-like variable) whose f-string interpolates a path-like
expression, with the enclosing function.  The C20 suite marks a site
*reached* when the literal text next to the interpolation shows up in a log
or error text of one of its cloud-safe runs; the rest is reported as
unreached in the evidence (which failure classes are still missing).
"""
import ast
import pathlib
import re

PATH_WORDS = {'path', 'paths', 'dir', 'dirs', 'file', 'pth', 'loc',
              'location', 'directory'}
SKIP_DIRS = ('test', 'tests', 'test_utils', 'gpu_utils', 'visualization',
             'data')


def _pathy(src):
    words = set(w.lower() for w in re.split(r'[^A-Za-z]+', src) if w)
    if not (words & PATH_WORDS):
        return False
    if words & {'size', 'bytes', 'keys'}:
        return False
    # file *names* are what the property wants to see
    if re.search(r'\.name\b|\.stem\b|\.suffix\b', src):
        return False
    return True


def sites(repo):
    root = pathlib.Path(repo) / 'src' / 'cell_type_mapper'
    out = []
    for f in sorted(root.rglob('*.py')):
        rel = f.relative_to(root)
        if any(part in SKIP_DIRS for part in rel.parts):
            continue
        try:
            tree = ast.parse(f.read_text())
        except SyntaxError:
            continue
        for fn in ast.walk(tree):
            if not isinstance(fn, (ast.FunctionDef, ast.AsyncFunctionDef)):
                continue
            for node in ast.walk(fn):
                if not isinstance(node, ast.JoinedStr):
                    continue
                exprs = [ast.unparse(v.value) for v in node.values
                         if isinstance(v, ast.FormattedValue)]
                pathy = [e for e in exprs if _pathy(e)]
                if not pathy:
                    continue
                lits = [v.value for v in node.values
                        if isinstance(v, ast.Constant)
                        and isinstance(v.value, str)]
                frag = ''
                for l in lits:
                    for piece in re.split(r'[\n]', l):
                        piece = piece.strip()
                        if len(piece) > len(frag):
                            frag = piece
                out.append({'file': str(rel), 'function': fn.name,
                            'line': node.lineno, 'exprs': pathy,
                            'fragment': frag})
    # one entry per (file, function, line)
    seen = set()
    uniq = []
    for s in out:
        k = (s['file'], s['function'], s['line'])
        if k not in seen:
            seen.add(k)
            uniq.append(s)
    return uniq


def classify(site_list, texts):
    """(reached, unreached) by the literal fragment next to the path"""
    blob = '\n'.join(texts)
    reached, unreached = [], []
    for s in site_list:
        tag = '%s:%s:%d %s' % (s['file'], s['function'], s['line'],
                               ','.join(s['exprs']))
        if len(s['fragment']) >= 8 and s['fragment'] in blob:
            reached.append(tag)
        else:
            unreached.append(tag)
    return reached, unreached
