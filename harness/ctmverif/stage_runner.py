"""
Run one pipeline stage in this process from a JSON job file (used under
`strace` by fsmon.py, C19):

    python stage_runner.py job.json

job = {"stage": "precompute" | "markers" | "mapping" | "validate",
       "result": <path of a small JSON status file written outside the
                  watched directories>, ...stage arguments...}
"""
import gc
import io
import contextlib
import json
import os
import sys
import traceback
import warnings


def install_fault(fault):
    """a worker failure for the mapping stage (C19 histories): the worker
    whose chunk starts at row fault['r0'] raises / exits / is killed before
    (or after) doing its work.  The patch is inherited by the forked
    workers."""
    import signal
    from cell_type_mapper.type_assignment import election
    orig = election._run_type_assignment_on_h5ad_worker

    def wrapper(*args, **kwargs):
        hit = kwargs.get('r0') == fault.get('r0', 0)
        if hit and fault.get('point', 'before') == 'before':
            if fault.get('fail_delay'):
                # fail only once the siblings have done their work (they are
                # then held at their save by 'save_delay')
                import time
                time.sleep(float(fault['fail_delay']))
            fire(fault)
        if not hit and fault.get('sibling_delay'):
            # a slow sibling: still at work when the failure is noticed
            import time
            time.sleep(float(fault['sibling_delay']))
        orig(*args, **kwargs)
        if hit:
            fire(fault)

    def fire(fault):
        mode = fault.get('mode', 'raise')
        if mode == 'raise':
            raise RuntimeError('injected worker failure')
        if mode == 'exit':
            os._exit(3)
        os.kill(os.getpid(), signal.SIGKILL)

    election._run_type_assignment_on_h5ad_worker = wrapper
    if fault.get('save_delay'):
        # the siblings have done their work and are about to save their chunk
        # when the failure is noticed and the caller cleans up
        orig_save = election.save_results

        def slow_save(result, results_output_path):
            import time
            time.sleep(float(fault['save_delay']))
            orig_save(result, results_output_path)

        election.save_results = slow_save


def install_mk_failure(spec):
    """scratch creation fails: the nth call of tempfile.mkdtemp / mkstemp
    raises OSError(ENOSPC) (disk full, quota, ...)"""
    import errno
    import tempfile
    count = {'n': 0}
    nth = int(spec.get('nth', 1))

    def failing(orig):
        def f(*args, **kwargs):
            count['n'] += 1
            if count['n'] == nth:
                raise OSError(errno.ENOSPC, 'No space left on device')
            return orig(*args, **kwargs)
        return f

    tempfile.mkdtemp = failing(tempfile.mkdtemp)
    tempfile.mkstemp = failing(tempfile.mkstemp)


def run_stage(job):
    stage = job['stage']
    if job.get('fault'):
        install_fault(job['fault'])
    if job.get('fail_mkdtemp'):
        install_mk_failure(job['fail_mkdtemp'])
    if stage == 'precompute':
        # what precompute_summary_stats_from_h5ad does, with copy_data_over
        # passed on (the wrapper itself does not take it)
        from cell_type_mapper.diff_exp.precompute_from_anndata import (
            precompute_summary_stats_from_h5ad_and_tree)
        from cell_type_mapper.taxonomy.taxonomy_tree import TaxonomyTree
        tree = TaxonomyTree.from_h5ad(
            h5ad_path=job['data_path'],
            column_hierarchy=list(job['column_hierarchy']))
        precompute_summary_stats_from_h5ad_and_tree(
            data_path=job['data_path'],
            taxonomy_tree=tree,
            output_path=job['output_path'],
            rows_at_a_time=job.get('rows_at_a_time', 7),
            normalization=job.get('normalization', 'raw'),
            tmp_dir=job['tmp_dir'],
            n_processors=job.get('n_processors', 2),
            copy_data_over=job.get('copy_data_over', False))
    elif stage == 'markers':
        from cell_type_mapper.diff_exp.markers import (
            find_markers_for_all_taxonomy_pairs)
        from cell_type_mapper.taxonomy.taxonomy_tree import TaxonomyTree
        tree = TaxonomyTree.from_precomputed_stats(job['precomputed_path'])
        find_markers_for_all_taxonomy_pairs(
            precomputed_stats_path=job['precomputed_path'],
            taxonomy_tree=tree,
            output_path=job['output_path'],
            n_processors=job.get('n_processors', 2),
            tmp_dir=job['tmp_dir'],
            max_gb=job.get('max_gb', 1),
            n_valid=job.get('n_valid', 5))
    elif stage == 'validate':
        from cell_type_mapper.validation.validate_h5ad import validate_h5ad
        ret = validate_h5ad(
            h5ad_path=job['h5ad_path'],
            gene_id_mapper=None,
            log=None,
            tmp_dir=job['tmp_dir'],
            layer=job.get('layer', 'X'),
            round_to_int=job.get('round_to_int', True),
            output_dir=job.get('output_dir'),
            valid_h5ad_path=job.get('valid_h5ad_path'))
        # (path of the validated file or None, has_warnings)
        return [None if ret[0] is None else str(ret[0]), bool(ret[1])]
    elif stage == 'election':
        # the election stage through its own entry point, with a results
        # directory handed in (per-chunk buffer files go there)
        import h5py
        import numpy as np
        from cell_type_mapper.taxonomy.taxonomy_tree import TaxonomyTree
        from cell_type_mapper.type_assignment.election_runner import (
            run_type_assignment_on_h5ad)
        from cell_type_mapper.utils.utils import clean_for_json
        with h5py.File(job['precomputed_path'], 'r') as f:
            tree = TaxonomyTree.from_str(
                serialized_dict=f['taxonomy_tree'][()].decode('utf-8'))
        lookup = {level: job['bootstrap_factor']
                  for level in tree.hierarchy[:-1]}
        lookup['None'] = job['bootstrap_factor']
        res = run_type_assignment_on_h5ad(
            query_h5ad_path=job['query_path'],
            precomputed_stats_path=job['precomputed_path'],
            marker_gene_cache_path=job['marker_cache_path'],
            taxonomy_tree=tree,
            n_processors=job['n_processors'],
            chunk_size=job['chunk_size'],
            bootstrap_factor_lookup=lookup,
            bootstrap_iteration=job['bootstrap_iteration'],
            rng=np.random.default_rng(job['rng_seed']),
            n_assignments=job.get('n_assignments', 3),
            normalization=job.get('normalization', 'raw'),
            tmp_dir=job.get('tmp_dir'),
            log=None,
            max_gb=1,
            results_output_path=job['results_output_path'])
        with open(job['result_path'], 'w') as f:
            json.dump(clean_for_json(res), f)
    elif stage == 'mapping':
        from cell_type_mapper.cli.from_specified_markers import run_mapping
        cfg = job['config']
        run_mapping(config=cfg,
                    output_path=cfg['extended_result_path'],
                    log_path=cfg.get('log_path'),
                    hdf5_output_path=cfg.get('hdf5_result_path'))
    else:
        raise ValueError('unknown stage %r' % stage)


def list_dirs(dirs, job):
    """listing made by the runner, not by the stage: bracketed by two marker
    files so that fsmon drops these calls from the stage's trace"""
    out = []
    open(job['result'] + '.mark_begin', 'w').close()
    try:
        for d in dirs:
            for dp, dns, fns in os.walk(d):
                for x in dns + fns:
                    out.append(os.path.join(dp, x))
    finally:
        open(job['result'] + '.mark_end', 'w').close()
    return sorted(out)


def main():
    job = json.loads(open(sys.argv[1]).read())
    status = {'ok': True, 'error': None}
    buf = io.StringIO()
    with warnings.catch_warnings():
        warnings.simplefilter('ignore')
        with contextlib.redirect_stdout(buf):
            try:
                status['returned'] = run_stage(job)
            except BaseException as e:   # noqa
                status = {'ok': False,
                          'error': '%s: %s' % (type(e).__name__, e),
                          'traceback': traceback.format_exc()[-3000:]}
                e = None
            # destructors (FileTracker, AnnDataRowIterator) run now, while the
            # trace is still being recorded
            gc.collect()
            # what the caller finds in the watched directories when the call
            # has returned ...
            status['at_return'] = list_dirs(job.get('watch', []), job)
            # ... and once every worker the stage started is gone (a worker
            # orphaned by a failed sibling may still be at work): bounded
            import multiprocessing
            import time
            t_end = time.time() + float(job.get('settle', 5.0))
            while multiprocessing.active_children() and time.time() < t_end:
                time.sleep(0.05)
            status['settled'] = not multiprocessing.active_children()
            status['after_settle'] = list_dirs(job.get('watch', []), job)
    with open(job['result'], 'w') as f:
        json.dump(status, f)


if __name__ == '__main__':
    main()
