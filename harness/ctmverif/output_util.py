"""
C15 helpers: string table and canonical JSON for the Lean model of the output
serialisers, generators of taxonomies / name tables / result blobs, readers of
the real CSV and HDF5 files that do not go through the code under test
(csv module, h5py), and the implementation-only predicates.
"""
import copy
import csv
import decimal
import io
import json
import math
import pathlib
from fractions import Fraction

import numpy as np

import re
FOUR_DEC = re.compile(r'^-?[0-9]+\.[0-9]{4}$')
TAINT_WORDS = ('label', 'name', 'alias', 'assignment')
NUM_FIELDS = ('bootstrapping_probability', 'avg_correlation',
              'aggregate_probability')
RUNNER_FIELDS = ('runner_up_assignment', 'runner_up_probability',
                 'runner_up_correlation')
FIELD_CODE = {'assignment': 'a', 'bootstrapping_probability': 'p',
              'avg_correlation': 'c', 'aggregate_probability': 'g',
              'directly_assigned': 'd', 'runner_up_assignment': 'ra',
              'runner_up_probability': 'rp', 'runner_up_correlation': 'rc'}


# ---------------------------------------------------------------------------
# string table / canonical forms
# ---------------------------------------------------------------------------

class StrTable(object):
    """every Python string of a case -> Nat id (first come first served; the
    output model never sorts)"""

    def __init__(self):
        self.ids = {}
        self.strs = []

    def id(self, s):
        if not isinstance(s, str):
            s = '\x00nonstr:' + repr(s)
        i = self.ids.get(s)
        if i is None:
            i = len(self.strs)
            self.ids[s] = i
            self.strs.append(s)
        return i

    def str(self, i):
        return self.strs[i]


def is_nan(x):
    return isinstance(x, (float, np.floating)) and math.isnan(float(x))


def num_json(x):
    """None -> null, NaN -> "nan", finite float/int -> exact [num, den]"""
    if x is None:
        return None
    if isinstance(x, (bool, np.bool_)):
        x = int(x)
    if is_nan(x):
        return 'nan'
    f = Fraction(float(x)) if not isinstance(x, int) else Fraction(x)
    return [f.numerator, f.denominator]


def num_frac(j):
    if j is None or j == 'nan':
        return j
    return Fraction(j[0], j[1])


def same_num(a, b):
    """exact equality of two JSON-ish numbers (None, NaN, finite)"""
    if a is None or b is None:
        return a is None and b is None
    if is_nan(a) or is_nan(b):
        return is_nan(a) and is_nan(b)
    return float(a) == float(b)


def tree_json(tree, st):
    h = list(tree['hierarchy'])
    leaf = h[-1] if h else None
    levels = []
    for k, v in tree.items():
        if k in ('hierarchy', 'metadata', 'name_mapper', 'hierarchy_mapper',
                 'alias_mapping'):
            continue
        entries = []
        for n, kids in v.items():
            if k == leaf:
                vals = [int(c) if isinstance(c, (int, np.integer))
                        else st.id(c) for c in kids]
            else:
                vals = [st.id(c) for c in kids]
            entries.append([st.id(n), vals])
        levels.append([st.id(k), entries])
    nm = None
    if 'name_mapper' in tree:
        nm = []
        for lv, d in tree['name_mapper'].items():
            ent = []
            for lab, e in d.items():
                ent.append([st.id(lab), {
                    'name': st.id(e['name']) if 'name' in e else None,
                    'alias': st.id(e['alias']) if 'alias' in e else None}])
            nm.append([st.id(lv), ent])
    hm = None
    if 'hierarchy_mapper' in tree:
        hm = [[st.id(k), st.id(v)]
              for k, v in tree['hierarchy_mapper'].items()]
    return {'hierarchy': [st.id(x) for x in h], 'levels': levels,
            'nameMapper': nm, 'hierarchyMapper': hm}


def tree_from_json(j, st, like):
    """model tree -> dict (keys ordered as the model has them); `like`
    supplies the keys the model does not carry (metadata)"""
    out = {'hierarchy': [st.str(i) for i in j['hierarchy']]}
    leaf = out['hierarchy'][-1] if out['hierarchy'] else None
    for lid, entries in j['levels']:
        lv = st.str(lid)
        d = {}
        for nid, vals in entries:
            if lv == leaf:
                d[st.str(nid)] = list(vals)
            else:
                d[st.str(nid)] = [st.str(v) for v in vals]
        out[lv] = d
    if j['nameMapper'] is not None:
        nm = {}
        for lid, ent in j['nameMapper']:
            d = {}
            for nid, e in ent:
                x = {}
                if e['name'] is not None:
                    x['name'] = st.str(e['name'])
                if e['alias'] is not None:
                    x['alias'] = st.str(e['alias'])
                d[st.str(nid)] = x
            nm[st.str(lid)] = d
        out['name_mapper'] = nm
    if j['hierarchyMapper'] is not None:
        out['hierarchy_mapper'] = {st.str(a): st.str(b)
                                   for a, b in j['hierarchyMapper']}
    for k in ('metadata', 'alias_mapping'):
        if k in like:
            out[k] = like[k]
    return out


def level_json(lr, st):
    out = {'a': st.id(lr['assignment']),
           'd': bool(lr['directly_assigned'])}
    for f in NUM_FIELDS:
        out[FIELD_CODE[f]] = num_json(lr.get(f))
    out['ra'] = ([st.id(x) for x in lr['runner_up_assignment']]
                 if 'runner_up_assignment' in lr else None)
    for f in RUNNER_FIELDS[1:]:
        out[FIELD_CODE[f]] = ([num_json(x) for x in lr[f]]
                              if f in lr else None)
    return out


def record_json(rec, hierarchy, st):
    """levels in hierarchy order first (Python dict equality ignores order),
    then any other key"""
    levels = []
    for lv in hierarchy:
        if lv in rec:
            levels.append([st.id(lv), level_json(rec[lv], st)])
    for k in rec:
        if k != 'cell_id' and k not in hierarchy:
            levels.append([st.id(k), level_json(rec[k], st)])
    return {'id': st.id(rec['cell_id']), 'levels': levels}


def blob_json(blob, st):
    tree = blob['taxonomy_tree']
    return {'tree': tree_json(tree, st),
            'nRunners': int(blob['config']['type_assignment']['n_runners_up']),
            'results': [record_json(r, list(tree['hierarchy']), st)
                        for r in blob['results']]}


def classify_error(e):
    return type(e).__name__


# ---------------------------------------------------------------------------
# reading the real files without the code under test
# ---------------------------------------------------------------------------

H5_DATASETS = {
    'directlyAssigned': 'directly_assigned', 'intToNode': 'int_to_node',
    'cellId': 'cell_id', 'assignment': 'assignment',
    'prob': 'bootstrapping_probability', 'agg': 'aggregate_probability',
    'corr': 'average_correlation'}
H5_RUNNER_DATASETS = {'asg': 'runner_up_assignment',
                      'prob': 'runner_up_probability',
                      'corr': 'runner_up_correlation'}


def read_h5_raw(path, st):
    """the datasets of an output HDF5 file in the model's H5 shape.  Never
    raises on a missing / extra / mis-shaped dataset: those are listed in
    'problems' as (dataset name, what) and the field is None."""
    import h5py

    def nums(arr):
        return [num_json(float(x)) for x in arr]

    def mat(conv):
        return lambda a: [conv(r) for r in _need_dim(a, 2)]

    def cube(conv):
        return lambda a: [[conv(r) for r in cell] for cell in _need_dim(a, 3)]

    def ints(r):
        return [int(x) for x in r]

    readers = {
        'directlyAssigned': lambda a: [bool(x) for x in _need_dim(a, 1)],
        'intToNode': lambda a: [[st.id(k), [st.id(n) for n in v]]
                                for k, v in json.loads(
                                    a.decode('utf-8')).items()],
        'cellId': lambda a: [st.id(c.decode('utf-8'))
                             for c in _need_dim(a, 1)],
        'assignment': mat(ints), 'prob': mat(nums), 'agg': mat(nums),
        'corr': mat(nums)}
    problems = []
    try:
        src = h5py.File(path, 'r')
    except Exception as e:
        return {'keys': [], 'meta': None, 'h5': None,
                'problems': [('<file>', 'cannot be opened: %s'
                              % classify_error(e))]}
    with src:
        keys = set(src.keys())
        meta = None
        try:
            meta = json.loads(src['metadata'][()].decode('utf-8'))
        except Exception as e:
            problems.append(('metadata', 'unreadable: %s'
                             % classify_error(e)))
        if 'assignment' not in keys:
            return {'keys': sorted(keys), 'meta': meta, 'h5': None,
                    'problems': problems}
        out = {}
        for field, name in H5_DATASETS.items():
            out[field] = None
            if name not in keys:
                problems.append((name, 'missing'))
                continue
            try:
                out[field] = readers[field](src[name][()])
            except Exception as e:
                problems.append((name, 'mis-shaped / unreadable: %s'
                                 % classify_error(e)))
        out['runners'] = None
        present = [n for n in H5_RUNNER_DATASETS.values() if n in keys]
        if present:
            run = {}
            for field, name in H5_RUNNER_DATASETS.items():
                run[field] = None
                if name not in keys:
                    problems.append((name, 'missing'))
                    continue
                try:
                    run[field] = cube(ints if field == 'asg' else nums)(
                        src[name][()])
                except Exception as e:
                    problems.append((name, 'mis-shaped / unreadable: %s'
                                     % classify_error(e)))
            out['runners'] = run
        known = set(H5_DATASETS.values()) | set(
            H5_RUNNER_DATASETS.values()) | {'metadata'}
        for name in sorted(keys - known):
            problems.append((name, 'unexpected dataset'))
    return {'keys': sorted(keys), 'meta': meta, 'h5': out,
            'problems': problems}


def _need_dim(a, n):
    a = np.asarray(a)
    if a.ndim != n:
        raise ValueError('expected %d dimensions, got shape %r'
                         % (n, a.shape))
    return a


def read_csv_raw(path):
    """(comment lines, header, rows) with Python's csv module"""
    with open(path, 'r', newline='') as src:
        text = src.read()
    comments = []
    while text.startswith('#'):
        i = text.index('\n')
        comments.append(text[:i])
        text = text[i + 1:]
    rows = list(csv.reader(io.StringIO(text, newline='')))
    return comments, rows[0], rows[1:]


def parse_comments(comments):
    """-> dict(metadata, hierarchy, readable, algorithm, codebase, version,
    unparsed)"""
    out = {'metadata': None, 'hierarchy': None, 'readable': None,
           'algorithm': None, 'codebase': None, 'version': None,
           'unparsed': [], 'order': []}
    for line in comments:
        if line.startswith('# metadata = '):
            out['metadata'] = line[len('# metadata = '):]
            out['order'].append('metadata')
        elif line.startswith('# taxonomy hierarchy = '):
            out['hierarchy'] = json.loads(
                line[len('# taxonomy hierarchy = '):])
            out['order'].append('hierarchy')
        elif line.startswith('# readable taxonomy hierarchy = '):
            out['readable'] = json.loads(
                line[len('# readable taxonomy hierarchy = '):])
            out['order'].append('readable')
        elif 'codebase: ' in line and 'version: ' in line:
            body = line[1:]
            for part in body.split(';'):
                part = part.strip()
                if part.startswith('algorithm: '):
                    out['algorithm'] = part[len('algorithm: '):].strip("'")
                elif part.startswith('codebase: '):
                    out['codebase'] = part[len('codebase: '):]
                elif part.startswith('version: '):
                    out['version'] = part[len('version: '):]
            out['order'].append('version')
        else:
            out['unparsed'].append(line)
    return out


# ---------------------------------------------------------------------------
# independent look-ups (plain dict walks on the taxonomy dict)
# ---------------------------------------------------------------------------

def readable_level(tree, level):
    return tree.get('hierarchy_mapper', {}).get(level, level)


def readable_node(tree, level, label, key):
    return tree.get('name_mapper', {}).get(level, {}).get(label, {}).get(
        key, label)


def is_tainted(readable):
    return any(w in readable for w in TAINT_WORDS)


def four_decimals(x):
    """round-half-even of the exact binary value of x to 4 decimals"""
    return decimal.Decimal(float(x)).quantize(
        decimal.Decimal('0.0001'), rounding=decimal.ROUND_HALF_EVEN)


def drop_cells(tree):
    out = copy.deepcopy(tree)
    leaf = out['hierarchy'][-1]
    for k in out[leaf]:
        out[leaf][k] = []
    return out


# ---------------------------------------------------------------------------
# predicates on the implementation alone
# ---------------------------------------------------------------------------

def check_h5_roundtrip(json_blob, back):
    """every cell id, assignment, probability, correlation, runner-up list
    and directly-assigned flag of the JSON output is reproduced.
    returns list of (class, message)"""
    fails = []
    want = json_blob['results']
    got = back.get('results')
    if got is None:
        return [('no-results', 'results missing after HDF5 round trip')]
    if len(want) != len(got):
        return [('n-cells', '%d cells written, %d read'
                 % (len(want), len(got)))]
    hierarchy = json_blob['taxonomy_tree']['hierarchy']
    for i, (w, g) in enumerate(zip(want, got)):
        if w['cell_id'] != g['cell_id']:
            fails.append(('cell_id', 'cell %d: %r != %r'
                          % (i, w['cell_id'], g['cell_id'])))
            continue
        for lv in hierarchy:
            if lv not in g:
                fails.append(('level-missing', 'cell %d level %r' % (i, lv)))
                continue
            wl, gl = w[lv], g[lv]
            if wl['assignment'] != gl.get('assignment'):
                fails.append(('assignment', 'cell %d level %r: %r != %r' % (
                    i, lv, wl['assignment'], gl.get('assignment'))))
            if bool(wl['directly_assigned']) != bool(
                    gl.get('directly_assigned')) or \
                    'directly_assigned' not in gl:
                fails.append(('directly_assigned',
                              'cell %d level %r' % (i, lv)))
            for f in NUM_FIELDS:
                if (f in wl) != (f in gl) or (
                        f in wl and not same_num(wl[f], gl[f])):
                    cls = f
                    if f in wl and f in gl and wl[f] is None and \
                            is_nan(gl[f]):
                        cls = f + '/null-becomes-nan'
                    fails.append((cls, 'cell %d level %r: %r != %r' % (
                        i, lv, wl.get(f), gl.get(f))))
            for f in RUNNER_FIELDS:
                if (f in wl) != (f in gl):
                    fails.append((f + '/presence', 'cell %d level %r: '
                                  'json has=%s hdf5 has=%s'
                                  % (i, lv, f in wl, f in gl)))
                    continue
                if f not in wl:
                    continue
                a, b = list(wl[f]), list(gl[f])
                if f == 'runner_up_assignment':
                    ok = a == b
                else:
                    ok = len(a) == len(b) and all(
                        same_num(x, y) for x, y in zip(a, b))
                if not ok:
                    fails.append((f, 'cell %d level %r: %r != %r'
                                  % (i, lv, a, b)))
    # everything else (metadata) is copied
    for k in json_blob:
        if k == 'results':
            continue
        if k not in back or back[k] != json_blob[k]:
            fails.append(('metadata/' + k, 'top-level key %r differs' % k))
    return fails


def check_csv(tree, results, comments, header, rows, conf_key, conf_label,
              json_name=None, flatten=None):
    """the CSV says what the JSON says.  tree: taxonomy dict of the output
    (embedded tree); results: JSON records"""
    import cell_type_mapper
    fails = []
    c = parse_comments(comments)
    h = list(tree['hierarchy'])
    if json_name is not None and c['metadata'] != json_name:
        fails.append(('comment/metadata', '%r != %r'
                      % (c['metadata'], json_name)))
    if c['hierarchy'] != h:
        fails.append(('comment/hierarchy', '%r != %r' % (c['hierarchy'], h)))
    if c['version'] != cell_type_mapper.__version__ or \
            c['codebase'] != cell_type_mapper.__repository__:
        fails.append(('comment/version', repr(comments)))
    if flatten is not None:
        want = 'correlation' if flatten else 'hierarchical'
        if c['algorithm'] != want:
            fails.append(('comment/algorithm', '%r != %r'
                          % (c['algorithm'], want)))
    if len(rows) != len(results):
        fails.append(('n-rows', '%d rows for %d cells'
                      % (len(rows), len(results))))
        return fails
    col = {}
    for i, name in enumerate(header):
        col.setdefault(name, i)
    if 'cell_id' not in col:
        return fails + [('column-missing', 'cell_id')]
    leaf = h[-1]
    for i, (row, rec) in enumerate(zip(rows, results)):
        if len(row) != len(header):
            fails.append(('ragged-row', 'row %d' % i))
            continue
        if row[col['cell_id']] != rec['cell_id']:
            fails.append(('cell_id', 'row %d: %r != %r'
                          % (i, row[col['cell_id']], rec['cell_id'])))
            continue
        for lv in h:
            rl = readable_level(tree, lv)
            label = rec[lv]['assignment']
            checks = [('label', label),
                      ('name', readable_node(tree, lv, label, 'name'))]
            if lv == leaf:
                checks.append(('alias',
                               readable_node(tree, lv, label, 'alias')))
            for kind, want in checks:
                cn = '%s_%s' % (rl, kind)
                if cn not in col:
                    fails.append(('column-missing/' + kind, cn))
                elif row[col[cn]] != want:
                    fails.append((kind, 'row %d column %r: %r != %r'
                                  % (i, cn, row[col[cn]], want)))
            cn = '%s_%s' % (rl, conf_label)
            if cn not in col:
                fails.append(('column-missing/confidence', cn))
                continue
            v = rec[lv].get(conf_key)
            got = row[col[cn]]
            if v is None or is_nan(v):
                if got != '':
                    fails.append(('confidence/missing-value',
                                  'row %d column %r: %r' % (i, cn, got)))
                continue
            want = four_decimals(v)
            try:
                ok = decimal.Decimal(got) == want
            except decimal.InvalidOperation:
                ok = False
            if not is_tainted(rl):
                # the property: exactly the four-decimal text
                if not ok or not FOUR_DEC.match(got):
                    fails.append(('confidence-not-4-decimals',
                                  'row %d column %r: %r is not %r to four '
                                  'decimals (%s)' % (i, cn, got, v, want)))
            else:
                # the known finding, both ways: a column whose name contains
                # label / name / alias / assignment is written unformatted
                if got != repr(float(v)):
                    fails.append(('tie/tainted-column-not-raw',
                                  'row %d column %r: %r is not the '
                                  'unformatted float %r although the column '
                                  'name contains label/name/alias/assignment'
                                  % (i, cn, got, repr(float(v)))))
                elif not ok or not FOUR_DEC.match(got):
                    fails.append((
                        'confidence-not-4-decimals/'
                        'level-name-contains-label-name-alias',
                        'row %d column %r: %r is not %r to four decimals '
                        '(%s)' % (i, cn, got, v, want)))
    return fails


# ---------------------------------------------------------------------------
# generators
# ---------------------------------------------------------------------------

LEVEL_POOL = ['class', 'subclass', 'supertype', 'cluster', 'L0', 'lvl',
              'zeta', 'Alpha', 'CCN2023_CLAS', 'lev el', 'lev,comma',
              'q"uote', 'neighborhood', 'é_level', '10', '#lvl']
TAINTED_LEVEL_POOL = ['class_label', 'cluster_alias', 'subclass_name',
                      'label', 'my assignment']
READABLE_POOL = ['Class', 'Sub Class', 'readable, with comma', 'Type "x"',
                 'C', 'étage', 'level-1', 'L 2', 'x_y', 'tier']
NODE_POOL = ['a', 'b', 'B', 'a1', 'a10', 'a2', 'c', 'c,d', 'x y', 'z"q',
             'n9', 'n10', 'Z', '_', '10', '9', 'é', 'aa', 'ab', 'two\nlines',
             ' lead', 'trail ', "it's", '#hash', 'NA', 'nan', '1.50', '007',
             'None', 'a;b', '\ttab', 'q""qq', ',', '"', 'CS2023_0001',
             'semi;colon']
NAME_POOL2 = ['Astro', 'L2/3 IT', 'name, with comma', 'say "hi"',
              'multi\nline name', 'Sst Chodl', '001 CLA', 'é-name', ' ',
              'NA', 'x', "'single'", '12.5']
CELL_POOL = ['cell', 'AAACCC-1', 'c,1', 'c"2', 'c\n3', ' c4', 'é5', '#c6',
             '7', '8.0', 'NA', 'cell id']


def distinct(rng, pool, n, taken=()):
    out = []
    seen = set(taken)
    while len(out) < n:
        s = rng.choice(pool)
        if rng.random() < 0.5 or s in seen:
            s = s + str(rng.randrange(0, 40))
        if s in seen:
            continue
        seen.add(s)
        out.append(s)
    return out


def gen_tree(rng, depth=None, max_depth=5, max_top=3, max_children=3,
             min_leaves=1, tainted=False, name_tables=None, nasty=True,
             cells=False):
    """a valid taxonomy dict (optionally with name_mapper /
    hierarchy_mapper); readable level names are pairwise distinct"""
    if depth is None:
        depth = rng.randint(1, max_depth)
    pool = list(LEVEL_POOL)
    if not nasty:
        pool = pool[:9]
    node_pool = NODE_POOL if nasty else NODE_POOL[:19]
    while True:
        levels = distinct(rng, pool, depth)
        if tainted:
            k = rng.randrange(depth)
            levels[k] = rng.choice(TAINTED_LEVEL_POOL) + (
                '' if rng.random() < 0.5 else str(rng.randrange(9)))
        if len(set(levels)) == depth and (
                tainted or not any(is_tainted(x) for x in levels)):
            break
    tree = {'hierarchy': list(levels)}
    while True:
        n_top = rng.randint(1, max_top)
        current = distinct(rng, node_pool, n_top)
        for i, lv in enumerate(levels):
            tree[lv] = {}
            if i == depth - 1:
                for n in current:
                    tree[lv][n] = []
                break
            nxt = []
            for n in current:
                k = 1 if rng.random() < 0.25 else rng.randint(1, max_children)
                kids = distinct(rng, node_pool, k, taken=nxt)
                tree[lv][n] = kids
                nxt += kids
            rng.shuffle(nxt)
            current = nxt
        if len(tree[levels[-1]]) >= min_leaves:
            break
    if cells:
        idx = list(range(3 * len(tree[levels[-1]])))
        rng.shuffle(idx)
        for n in tree[levels[-1]]:
            tree[levels[-1]][n] = [idx.pop() for _ in range(rng.randint(0, 2))]
    if name_tables is None:
        name_tables = rng.random() < 0.6
    if name_tables:
        if rng.random() < 0.8:
            nm = {}
            for lv in levels:
                if rng.random() < 0.2:
                    continue
                d = {}
                for n in tree[lv]:
                    r = rng.random()
                    if r < 0.25:
                        continue
                    e = {}
                    if rng.random() < 0.8:
                        e['name'] = rng.choice(NAME_POOL2) + (
                            '' if rng.random() < 0.5
                            else str(rng.randrange(99)))
                    if rng.random() < 0.6:
                        e['alias'] = str(rng.randrange(5000))
                    d[n] = e
                if rng.random() < 0.2:
                    d['not_a_node'] = {'name': 'ghost', 'alias': '0'}
                nm[lv] = d
            if rng.random() < 0.1:
                nm['not_a_level'] = {'x': {'name': 'y'}}
            tree['name_mapper'] = nm
        if rng.random() < 0.7:
            hm = {}
            taken = set(levels)
            for lv in levels:
                if rng.random() < 0.7:
                    pool2 = READABLE_POOL + (
                        TAINTED_LEVEL_POOL if tainted else [])
                    while True:
                        r = distinct(rng, pool2, 1, taken=taken)[0]
                        if tainted or not is_tainted(r):
                            break
                    taken.add(r)
                    hm[lv] = r
            tree['hierarchy_mapper'] = hm
    if rng.random() < 0.2:
        tree['metadata'] = {'note': 'x', 'n': 3}
    return tree


PROB_ITERS = [1, 2, 3, 7, 10, 32, 64, 96, 100, 160]


def gen_prob(rng, ints=False):
    r = rng.random()
    if r < 0.03 and ints:
        return rng.choice([1, 0])       # JSON integers
    if r < 0.15:
        return 1.0
    if r < 0.55:
        it = rng.choice(PROB_ITERS)
        return rng.randint(0, it) / it
    if r < 0.7:
        # exact ties of '%.4f': odd multiples of 1/32 (m/32 = k/10^4 + 1/2e4)
        return rng.randrange(1, 32, 2) / 32.0
    if r < 0.8:
        return rng.choice([0.0, 1e-5, 5e-5, 0.99995, 0.999949999, 0.00005,
                           0.5, 0.12345, 0.12355, 1e-300])
    return rng.random()


def gen_corr(rng, ints=False):
    r = rng.random()
    if r < 0.02:
        return float('nan')     # a constant expression vector
    if r < 0.04 and ints:
        return rng.choice([1, 0, -1])   # JSON integers
    if r < 0.1:
        return rng.choice([-1e-5, -0.00005, -0.03125, 0.03125, -1.0, 1.0,
                           0.0, -0.99995, 1.0000000000000002])
    if r < 0.2:
        return (rng.randrange(1, 64, 2) / 32.0) - 1.0
    return rng.uniform(-1.0, 1.0)


def gen_blob(rng, tree=None, n_cells=None, n_runners=None, inferred=None,
             nasty=True):
    """an extended-output dict satisfying OutInv (what C01/C03 establish)"""
    if tree is None:
        tree = gen_tree(rng, nasty=nasty)
    h = tree['hierarchy']
    if n_runners is None:
        n_runners = rng.choice([0, 0, 1, 2, 3, 5])
    if inferred is None:
        r = rng.random()
        if r < 0.5:
            inferred = set()
        elif r < 0.7:
            inferred = set(h[:-1])          # flatten
        elif r < 0.9 and len(h) > 1:
            inferred = {rng.choice(h[:-1])}  # drop_level
        else:
            inferred = set(lv for lv in h if rng.random() < 0.4)
    if n_cells is None:
        n_cells = rng.choice([1, 1, 2, 3, 5, 9])
    ids = distinct(rng, CELL_POOL if nasty else CELL_POOL[:2], n_cells)
    results = []
    for cid in ids:
        rec = {}
        agg = 1.0
        order = list(h)
        # backfilled levels come last in the real dict order
        order = [lv for lv in h if lv not in inferred] + \
                [lv for lv in reversed(h) if lv in inferred]
        vals = {}
        for lv in h:
            nodes = list(tree[lv].keys())
            p = gen_prob(rng)
            if lv not in inferred:
                # aggregate_probability: running product over the levels
                # the run voted on (an inferred level is not one of them)
                agg = agg * p
            lr = {'assignment': rng.choice(nodes),
                  'bootstrapping_probability': p,
                  'avg_correlation': gen_corr(rng)}
            if lv not in inferred:
                k = rng.randint(0, min(n_runners, len(nodes)))
                lr['runner_up_assignment'] = [rng.choice(nodes)
                                              for _ in range(k)]
                # (integers only here: the confidence columns of a real
                # output are always floats, and pandas prints an all-int
                # column without float_format)
                lr['runner_up_correlation'] = [gen_corr(rng, ints=True)
                                               for _ in range(k)]
                lr['runner_up_probability'] = [gen_prob(rng, ints=True)
                                               for _ in range(k)]
            lr['aggregate_probability'] = agg
            lr['directly_assigned'] = lv not in inferred
            vals[lv] = lr
        # backfill_assignments: an inferred level is a copy of the level below
        # it (its numbers included), bottom-up
        for i in range(len(h) - 2, -1, -1):
            if h[i] in inferred:
                below = vals[h[i + 1]]
                for f in NUM_FIELDS:
                    vals[h[i]][f] = below[f]
        for lv in order:
            rec[lv] = vals[lv]
        rec['cell_id'] = cid
        results.append(rec)
    return {
        'results': results,
        'taxonomy_tree': tree,
        'marker_genes': {'None': ['g1', 'g2']},
        'config': {'type_assignment': {'n_runners_up': n_runners},
                   'flatten': False},
        'metadata': {'note': 'generated'},
        'log': ['line 1'],
    }


def malformed_blobs(rng, blob):
    """one-edit departures from OutInv: (label, blob)"""
    out = []
    tree = blob['taxonomy_tree']
    h = tree['hierarchy']
    n_r = blob['config']['type_assignment']['n_runners_up']

    def cp():
        return copy.deepcopy(blob)

    def pick(b):
        rec = rng.choice(b['results'])
        lv = rng.choice(h)
        return rec, lv

    b = cp(); rec, lv = pick(b); rec.pop(lv)
    out.append(('missing_level', b))
    b = cp(); rec, lv = pick(b); rec[lv]['assignment'] = 'no_such_node'
    out.append(('unknown_assignment', b))
    b = cp(); b['results'] = []
    out.append(('no_cells', b))
    b = cp(); rec, lv = pick(b)
    rec[lv]['directly_assigned'] = not rec[lv]['directly_assigned']
    out.append(('flag_not_uniform', b))
    b = cp(); rec, lv = pick(b)
    rec[lv][rng.choice(NUM_FIELDS)] = None
    out.append(('null_number', b))
    b = cp(); rec, lv = pick(b)
    rec['extra_level'] = copy.deepcopy(rec[lv])
    out.append(('extra_level', b))
    direct = [(r, lv) for r in range(len(blob['results'])) for lv in h
              if 'runner_up_assignment' in blob['results'][r][lv]]
    inferred = [(r, lv) for r in range(len(blob['results'])) for lv in h
                if 'runner_up_assignment' not in blob['results'][r][lv]]
    if direct:
        r, lv = rng.choice(direct)
        nodes = list(tree[lv].keys())
        b = cp(); lr = b['results'][r][lv]
        k = n_r + 1 - len(lr['runner_up_assignment'])
        for _ in range(k):
            lr['runner_up_assignment'].append(rng.choice(nodes))
            lr['runner_up_probability'].append(0.25)
            lr['runner_up_correlation'].append(0.5)
        out.append(('too_many_runners', b))
        b = cp(); lr = b['results'][r][lv]
        for f in RUNNER_FIELDS:
            lr.pop(f)
        out.append(('direct_without_runner_keys', b))
        if n_r > 0:
            b = cp(); lr = b['results'][r][lv]
            lr['runner_up_assignment'] = ['no_such_node']
            lr['runner_up_probability'] = [0.5]
            lr['runner_up_correlation'] = [0.5]
            out.append(('unknown_runner', b))
            b = cp(); lr = b['results'][r][lv]
            lr['runner_up_assignment'] = [nodes[0]]
            lr['runner_up_probability'] = []
            lr['runner_up_correlation'] = [0.5]
            out.append(('short_runner_prob', b))
            b = cp(); lr = b['results'][r][lv]
            lr['runner_up_assignment'] = [nodes[0]]
            lr['runner_up_probability'] = [0.5]
            lr.pop('runner_up_correlation')
            out.append(('missing_runner_corr', b))
            b = cp(); lr = b['results'][r][lv]
            lr['runner_up_assignment'] = [nodes[0]]
            lr['runner_up_probability'] = [0.5, 0.25]
            lr['runner_up_correlation'] = [0.5, 0.1, 0.3]
            out.append(('long_runner_lists', b))
    if inferred:
        r, lv = rng.choice(inferred)
        nodes = list(tree[lv].keys())
        b = cp(); lr = b['results'][r][lv]
        k = min(1, n_r)
        lr['runner_up_assignment'] = [nodes[0]] * k
        lr['runner_up_probability'] = [0.5] * k
        lr['runner_up_correlation'] = [0.5] * k
        out.append(('runners_on_inferred_level', b))
    return out


# ---------------------------------------------------------------------------
# clean_for_json
# ---------------------------------------------------------------------------

def gen_pyval(rng, depth=0, key=False):
    """a nested Python value with numpy scalars, tuples, sets of integers and
    arrays, as clean_for_json may meet them"""
    r = rng.random()
    if key:
        # dict keys: str / int / np.int64
        if r < 0.6:
            return rng.choice(NODE_POOL) + str(rng.randrange(50))
        if r < 0.8:
            return rng.randrange(-5, 500)
        return np.int64(rng.randrange(-5, 500))
    if depth >= 3 or r < 0.45:
        k = rng.randrange(10)
        return [None, True, np.bool_(rng.random() < 0.5),
                rng.randrange(-10, 10), np.int64(rng.randrange(-2**40, 2**40)),
                rng.random(), np.float64(rng.random()), float('nan'),
                rng.choice(NODE_POOL), np.int64(0)][k]
    if r < 0.55:
        return [gen_pyval(rng, depth + 1) for _ in range(rng.randint(0, 3))]
    if r < 0.65:
        return tuple(gen_pyval(rng, depth + 1)
                     for _ in range(rng.randint(0, 3)))
    if r < 0.75:
        vals = [rng.randrange(-50, 50) for _ in range(rng.randint(0, 6))]
        return set(np.int64(v) if rng.random() < 0.3 else v for v in vals)
    if r < 0.85:
        shape = rng.choice([(0,), (3,), (2, 2), (1, 0)])
        kind = rng.choice(['i', 'f', 'b'])
        if kind == 'i':
            return np.arange(int(np.prod(shape)), dtype=rng.choice(
                [np.int64, np.int32, np.uint8])).reshape(shape)
        if kind == 'f':
            return (np.arange(int(np.prod(shape)), dtype=float) / 7.0
                    ).reshape(shape)
        return (np.arange(int(np.prod(shape))) % 2 == 0).reshape(shape)
    d = {}
    for _ in range(rng.randint(0, 3)):
        d[gen_pyval(rng, depth + 1, key=True)] = gen_pyval(rng, depth + 1)
    return d


def pyval_json(x, st):
    """type-tagged encoding for the model (exact Python/numpy types)"""
    if x is None:
        return {'t': 'none'}
    if type(x) is bool:
        return {'t': 'bool', 'v': x}
    if isinstance(x, np.bool_):
        return {'t': 'npBool', 'v': bool(x)}
    if type(x) is int:
        return {'t': 'int', 'v': x}
    if isinstance(x, np.int64):
        return {'t': 'npInt64', 'v': int(x)}
    if isinstance(x, float):          # includes np.float64
        return {'t': 'num', 'v': num_json(float(x))}
    if type(x) is str:
        return {'t': 'str', 'v': st.id(x)}
    if type(x) is list:
        return {'t': 'list', 'v': [pyval_json(v, st) for v in x]}
    if type(x) is tuple:
        return {'t': 'tuple', 'v': [pyval_json(v, st) for v in x]}
    if type(x) is set and all(isinstance(v, (int, np.int64)) and
                              not isinstance(v, bool) for v in x):
        return {'t': 'intSet', 'v': [int(v) for v in x]}
    if isinstance(x, np.ndarray):
        return {'t': 'ndarray', 'v': [pyval_json(v, st) for v in x.tolist()]}
    if type(x) is dict:
        return {'t': 'dict', 'v': [[pyval_json(k, st), pyval_json(v, st)]
                                   for k, v in x.items()]}
    return {'t': 'other', 'v': st.id('%s:%r' % (type(x).__name__, x))}


def plainify(x):
    """what the cleaned value must denote, computed independently: Python
    scalars, lists, dicts"""
    if isinstance(x, (bool, np.bool_)):
        return bool(x)
    if isinstance(x, (int, np.integer)):
        return int(x)
    if isinstance(x, float):
        return 'NaN' if math.isnan(x) else float(x)
    if isinstance(x, (list, tuple)):
        return [plainify(v) for v in x]
    if isinstance(x, set):
        return sorted(plainify(v) for v in x)
    if isinstance(x, np.ndarray):
        return plainify(x.tolist())
    if isinstance(x, dict):
        return {plainify(k): plainify(v) for k, v in x.items()}
    return x


def pyval_from_json(j, strs):
    """inverse of pyval_json (for replay); arrays come back as int64/float
    arrays of their .tolist()"""
    t, v = j['t'], j.get('v')
    if t == 'none':
        return None
    if t == 'bool':
        return bool(v)
    if t == 'npBool':
        return np.bool_(v)
    if t == 'int':
        return int(v)
    if t == 'npInt64':
        return np.int64(v)
    if t == 'num':
        return float('nan') if v == 'nan' else (
            None if v is None else v[0] / v[1])
    if t == 'str':
        return strs[v]
    if t == 'list':
        return [pyval_from_json(x, strs) for x in v]
    if t == 'tuple':
        return tuple(pyval_from_json(x, strs) for x in v)
    if t == 'intSet':
        return set(int(x) for x in v)
    if t == 'ndarray':
        return np.array([pyval_from_json(x, strs) for x in v])
    if t == 'dict':
        return {pyval_from_json(a, strs): pyval_from_json(b, strs)
                for a, b in v}
    raise ValueError('cannot rebuild %r' % (j,))


# ---------------------------------------------------------------------------
# the tree a run votes on (drop_level / flatten), for the marker table
# ---------------------------------------------------------------------------

def run_tree_parents(tree, flatten, drop_level):
    """{marker_genes key: number of children} for every parent of the tree
    the run votes on ('None' = root)"""
    h = list(tree['hierarchy'])
    if drop_level is not None and drop_level in h[:-1] and len(h) > 1:
        hh = [lv for lv in h if lv != drop_level]
    else:
        hh = list(h)
    if flatten:
        hh = [h[-1]]

    def descend(level, node, target):
        """descendants of (level, node) at level `target` (original tree)"""
        cur = [node]
        i = h.index(level)
        while h[i] != target:
            nxt = []
            for n in cur:
                nxt += list(tree[h[i]][n])
            cur = nxt
            i += 1
        return cur

    out = {'None': len(tree[hh[0]])}
    for a, b in zip(hh[:-1], hh[1:]):
        for n in tree[a]:
            out['%s/%s' % (a, n)] = len(descend(a, n, b))
    return out
