"""
C11 — reference markers are sound and complete for the stated criteria.

Tie: hand-written Lean model (CTM/Model/Holm.lean, CTM/Model/RefMarkers.lean)
vs the real functions of diff_exp/scores.py, utils/stats_utils.py,
diff_exp/markers.py, diff_exp/p_value_mask.py, diff_exp/p_value_markers.py.

Layers
  unit   : correct_ttest / approx_correct_ttest, _calculate_tt_nu,
           penetrance_parameter_distance, approx_/exact_penetrance_test,
           _write_to_tmp_file + _merge_sparse_by_pair_files  (arrays in, arrays
           out; model vs implementation; independent predicates)
  files  : generated statistics files -> find_markers_for_all_taxonomy_pairs
           and the p-value-mask route (create_p_value_mask_file +
           find_markers_for_all_taxonomy_pairs_from_p_mask) for several
           n_processors / max_gb / n_per; the written sparse tables are
           checked against an oracle recomputed from the file (scipy called
           directly, no boring_t / big_nu shortcut, textbook Holm, exact
           fractions for penetrances and fold) and against the Lean model.
The t / normal CDF is not modelled: raw p-values are inputs of the model; the
soundness of the boring_t shortcut is compared numerically on every run.
"""
import json
from fractions import Fraction

import numpy as np

from ctmverif import core, pipeline
from ctmverif import refmarkers_util as ru
from ctmverif.refmarkers_util import fr, jfr, jfrs, from_j, near

RULE = ('unit cases: p-value vectors with ties / values around the threshold '
        '/ boring 1.0 entries; score arrays with entries exactly at and one '
        'ulp around every strict threshold and floor; random lookups split '
        'into chunks.  file cases: statistics files with 2-9 leaves (cluster '
        'sizes from 1, zero-variance genes, duplicated genes, genes at '
        'fold/penetrance thresholds and floors +- one ulp), random threshold '
        'settings with strict > floor >= 0, gene lists, exact/approximate '
        'penetrance, n_valid in {0..40}, n_processors 1-4, max_gb, n_per. '
        'non-trivial = a file with >=3 leaves where some pair records a '
        'marker and some gene is rejected, or a unit vector of length >=3 '
        'with a tie or a value below the threshold; distinct by content')
TRUSTED = ['scipy.stats.t.cdf (the Student-t CDF is an input of the model, '
           'not modelled); float64 arithmetic of numpy for pij, q1, qdiff, '
           'fold, mean, var (the model receives the float values as exact '
           'rationals)',
           'h5py read-back of the written tables']
ASSUMPTIONS = ['raw p-values lie in [0, 1] (hypothesis of the Holm theorems)',
               'floors are >= 0 (theorem hypothesis FloorsExclude: a gene '
               'outside the gene list is given the scores -1, 0, -1 and must '
               'fall below some floor)',
               'by-gene table = transpose of by-pair table is checked on the '
               'files, the transposition algorithm itself belongs to C13',
               'soundness of the boring_t shortcut is compared numerically '
               '(|t| < boring_t => unshortcut p >= p_th), not proved']

VAL_REL = Fraction(1, 10**9)


# ---------------------------------------------------------------------------
# small helpers
# ---------------------------------------------------------------------------

def close(a, b, rel=VAL_REL, abs_=Fraction(1, 10**18)):
    a, b = Fraction(a), Fraction(b)
    return abs(a - b) <= max(abs_, rel * max(abs(a), abs(b)))


def corr_violation(ctx, what, fn, detail):
    ctx.disagreements_checked += 1
    detail = dict(detail)
    detail['broken'] = 'correspondence ' + fn
    ctx.violation('C11/correspondence/' + what,
                  'correspondence %s no longer checks' % fn,
                  detail, found_input=False)


# ---------------------------------------------------------------------------
# unit: Holm
# ---------------------------------------------------------------------------

def gen_pvec(rng):
    n = rng.choice([0, 1, 2, 3, 5, 8, 13, 25, 40])
    th = rng.choice([0.01, 0.05, 0.001, 0.2, 0.5])
    p = []
    for _ in range(n):
        r = rng.random()
        if r < 0.25:
            p.append(1.0)                       # "boring" genes
        elif r < 0.5:
            p.append(th * rng.random() / max(1, n))   # survives correction
        elif r < 0.65:
            p.append(th * rng.random())
        elif r < 0.75:
            p.append(float(np.nextafter(th, rng.choice([-1, 2]))))
        elif r < 0.8:
            p.append(th)
        elif r < 0.85:
            p.append(th / max(1, rng.randint(1, n)))  # lands on th after *k
        else:
            p.append(rng.random())
    # ties
    for _ in range(rng.randint(0, max(0, n // 3))):
        i, j = rng.randrange(n), rng.randrange(n)
        p[i] = p[j]
    return p, th


def random_argsort(rng, p):
    """a valid argsort with a random order among equal values"""
    idx = list(range(len(p)))
    rng.shuffle(idx)
    idx.sort(key=lambda i: p[i])
    return idx


def check_holm(ctx, p, th, label='gen'):
    from cell_type_mapper.utils.stats_utils import (
        correct_ttest, approx_correct_ttest)
    arr = np.array(p, dtype=float)
    full = correct_ttest(arr.copy())
    approx = approx_correct_ttest(arr.copy(), th)
    px = [fr(x) for x in p]
    want = ru.textbook_holm(px)
    thx = fr(th)
    n_tie = len(p) - len(set(p))
    nt = len(p) >= 3 and (n_tie > 0 or any(x < th for x in p))
    ctx.case(('holm', tuple(p), th) if nt else None,
             sample={'kind': 'holm', 'p': p[:6], 'th': th})
    ctx.count('holm:' + label)
    detail = {'kind': 'holm', 'p': [float(x).hex() for x in p],
              'th': float(th).hex()}
    # (i) predicates on the implementation
    bad = False
    for i in range(len(p)):
        if not close(fr(full[i]), want[i]):
            ctx.violation('C11/holm/value',
                          'correct_ttest differs from textbook Holm at %d: '
                          '%r vs %r' % (i, float(full[i]), float(want[i])),
                          detail)
            bad = True
            break
        if near(want[i], thx):
            ctx.count('holm:near-threshold')
            continue
        if (approx[i] < th) != (want[i] < thx):
            ctx.violation('C11/holm/iff',
                          'approx_correct_ttest disagrees with the full '
                          'correction about the threshold at %d' % i, detail)
            bad = True
            break
        if approx[i] < th and not close(fr(approx[i]), want[i]):
            ctx.violation('C11/holm/approx-value',
                          'approx_correct_ttest value differs below the '
                          'threshold at %d' % i, detail)
            bad = True
            break
    # (ii) correspondence, with a random tie order (exercises holm_perm)
    if ctx.driver_ok and not bad:
        order = random_argsort(ctx.rng, px)
        m_full = [from_j(q) for q in ctx.model(
            'refmarkers.holm', {'p': jfrs(px), 'order': order})]
        sub = [x for x in px if x < thx]
        order2 = random_argsort(ctx.rng, sub)
        m_approx = [from_j(q) for q in ctx.model(
            'refmarkers.holmApprox',
            {'p': jfrs(px), 'th': jfr(thx), 'order': order2})]
        ok = len(m_full) == len(full) and all(
            close(m_full[i], fr(full[i])) for i in range(len(p)))
        ok = ok and len(m_approx) == len(approx) and all(
            close(m_approx[i], fr(approx[i])) for i in range(len(p)))
        if not ok:
            corr_violation(ctx, 'holm',
                           'CTM.Holm.correctTtestWith/approxCorrectTtestWith '
                           '~ correct_ttest/approx_correct_ttest', detail)


# ---------------------------------------------------------------------------
# unit: _calculate_tt_nu (compared with exact rational arithmetic only)
# ---------------------------------------------------------------------------

def check_ttnu(ctx, rng, case=None):
    from cell_type_mapper.utils.stats_utils import _calculate_tt_nu
    if case is None:
        G = rng.randint(1, 12)
        n1, n2 = rng.randint(2, 30), rng.randint(2, 30)
        nprng = np.random.default_rng(rng.randrange(2**31))
        m1, m2 = nprng.random(G) * 6, nprng.random(G) * 6
        v1, v2 = nprng.random(G), nprng.random(G) * 0.1
        for g in range(G):
            r = rng.random()
            if r < 0.15:
                v1[g] = 0.0
            if r < 0.08:
                v2[g] = 0.0
            if rng.random() < 0.1:
                m2[g] = m1[g]
    else:
        n1, n2 = case['n1'], case['n2']
        m1, m2, v1, v2 = (np.array(case[k], dtype=float)
                          for k in ('m1', 'm2', 'v1', 'v2'))
        G = len(m1)
    with np.errstate(all='ignore'):
        tt, nu = _calculate_tt_nu(m1, v1, n1, m2, v2, n2)
    ctx.case(('ttnu', n1, n2, tuple(m1), tuple(v1)),
             sample={'kind': 'ttnu', 'n1': n1, 'n2': n2})
    ctx.count('ttnu')
    detail = {'kind': 'ttnu', 'n1': n1, 'n2': n2,
              'm1': m1.tolist(), 'm2': m2.tolist(),
              'v1': v1.tolist(), 'v2': v2.tolist()}
    for g in range(G):
        a, b = fr(v1[g]) / n1, fr(v2[g]) / n2
        num = a + b
        den = fr(v1[g]) ** 2 / (n1 ** 3 - n1 ** 2) + \
            fr(v2[g]) ** 2 / (n2 ** 3 - n2 ** 2)
        d = fr(m1[g]) - fr(m2[g])
        want_nu = num * num / (den if den > 0 else 1)
        if not close(fr(nu[g]), want_nu, rel=Fraction(1, 10**9)):
            ctx.violation('C11/ttnu/nu', 'degrees of freedom differ from the '
                          'Welch-Satterthwaite formula at gene %d' % g, detail)
            return
        if num > 0:
            want_t2 = d * d / num
            sign_ok = (tt[g] > 0) == (d > 0) and (tt[g] < 0) == (d < 0)
            if not sign_ok or not close(fr(tt[g]) ** 2, want_t2,
                                        rel=Fraction(1, 10**9)):
                ctx.violation('C11/ttnu/t', 't statistic differs from '
                              '(m1-m2)/sqrt(v1/n1+v2/n2) at gene %d' % g,
                              detail)
                return
        else:
            # zero standard error: the documented 1e-10 stand-in
            if not close(fr(tt[g]), d / fr(1.0e-10), rel=Fraction(1, 10**9)):
                ctx.violation('C11/ttnu/zero-se', 't with zero standard '
                              'error is not (m1-m2)/1e-10', detail)
                return
    if ctx.driver_ok:
        out = ctx.model('refmarkers.ttnu', {
            'm1': jfrs(m1), 'v1': jfrs(v1), 'm2': jfrs(m2), 'v2': jfrs(v2),
            'n1': n1, 'n2': n2})
        for g in range(G):
            t2, nu_m = out[g]
            ok = nu_m is not None and close(
                from_j(nu_m), fr(nu[g]), rel=Fraction(1, 10**9))
            # the model's 1e-10 is the exact decimal, numpy's the float
            ok = ok and close(from_j(t2), fr(tt[g]) ** 2,
                              rel=Fraction(1, 10**6) if v1[g] == 0 == v2[g]
                              else Fraction(1, 10**9))
            if not ok:
                corr_violation(ctx, 'ttnu', 'CTM.RefMarkers.welchTSq/welchNu '
                               '~ _calculate_tt_nu', dict(detail, gene=g))
                return


# ---------------------------------------------------------------------------
# unit: penetrance distance / tests
# ---------------------------------------------------------------------------

def ulp(x, d):
    if d == 0:
        return float(x)
    return float(np.nextafter(x, np.inf if d > 0 else -np.inf))


def gen_scores(rng, th):
    G = rng.choice([1, 2, 3, 6, 10, 20, 35])
    q1, qd, fd = [], [], []

    def pick(strict, floor, hi):
        r = rng.random()
        if r < 0.12:
            return ulp(strict, rng.choice([-1, 0, 1]))
        if r < 0.24:
            return ulp(floor, rng.choice([-1, 0, 1]))
        if r < 0.5:
            return strict + (hi - strict) * rng.random()      # passes
        if r < 0.75:
            return floor + (strict - floor) * rng.random()    # in between
        if r < 0.85:
            return rng.choice([0.0, floor / 2, hi])
        return hi * rng.random()
    for _ in range(G):
        q1.append(pick(th['q1_th'], th['q1_min_th'], 1.0))
        qd.append(pick(th['qdiff_th'], th['qdiff_min_th'], 1.0))
        fd.append(pick(th['log2_fold_th'], th['log2_fold_min_th'],
                       th['log2_fold_th'] * 3 + 1))
    # duplicated genes: exact ties of every distance
    for _ in range(rng.randint(0, G // 3)):
        i, j = rng.randrange(G), rng.randrange(G)
        q1[i], qd[i], fd[i] = q1[j], qd[j], fd[j]
    return q1, qd, fd


def strict_ok(th, q1, qd, fd):
    return q1 > th['q1_th'] and qd > th['qdiff_th'] and \
        fd > th['log2_fold_th']


def floors_ok(th, q1, qd, fd):
    return q1 >= th['q1_min_th'] and qd >= th['qdiff_min_th'] and \
        fd >= th['log2_fold_min_th']


def near_tie_explains(th, q1, qd, fd):
    """exact-vs-float order of two compared distances differs somewhere
    (only consulted to classify a model/implementation mismatch)"""
    vals_x, vals_f = [], []
    thx = {k: fr(v) for k, v in th.items()}

    def term_x(x, t):
        return Fraction(0) if x > t else (x - t) ** 2

    def term_f(x, t):
        return 0.0 if x > t else float((x - t) ** 2)
    for a, b, c in zip(q1, qd, fd):
        a, b, c = float(a), float(b), float(c)
        tq1 = term_x(fr(a), thx['q1_th'])
        tqd = term_x(fr(b), thx['qdiff_th'])
        tf = term_x(fr(c), thx['log2_fold_th'])
        fq1 = term_f(a, th['q1_th'])
        fqd = term_f(b, th['qdiff_th'])
        ff = term_f(c, th['log2_fold_th'])
        H = Fraction(3, 2)
        vals_x += [H * tqd + tq1 + tf, tqd + H * tq1 + tf,
                   tqd + tq1 + H * tf, tqd + tq1 + tf]
        vals_f += [1.5 * fqd + fq1 + ff, fqd + 1.5 * fq1 + ff,
                   fqd + fq1 + 1.5 * ff, fqd + fq1 + ff]
    vals_x.append(Fraction(1, 10**10))
    vals_f.append(1.0e-10)
    n = len(vals_x)
    for i in range(n):
        for j in range(i + 1, n):
            sx = int(vals_x[i] > vals_x[j]) - int(vals_x[i] < vals_x[j])
            sf = int(vals_f[i] > vals_f[j]) - int(vals_f[i] < vals_f[j])
            if sx != sf:
                return True
            if sx != 0 and near(vals_x[i], vals_x[j],
                                rel=Fraction(1, 10**12)):
                return True
    return False


def check_distance(ctx, th, q1, qd, fd, label='gen'):
    from cell_type_mapper.diff_exp.scores import penetrance_parameter_distance
    detail = {'kind': 'distance', 'th': th,
              'q1': [float(x).hex() for x in q1],
              'qdiff': [float(x).hex() for x in qd],
              'fold': [float(x).hex() for x in fd]}
    try:
        with np.errstate(all='ignore'):
            d = penetrance_parameter_distance(
                q1_score=np.array(q1, dtype=float),
                qdiff_score=np.array(qd, dtype=float),
                log2_fold=np.array(fd, dtype=float),
                q1_th=th['q1_th'], q1_min_th=th['q1_min_th'],
                qdiff_th=th['qdiff_th'], qdiff_min_th=th['qdiff_min_th'],
                log2_fold_th=th['log2_fold_th'],
                log2_fold_min_th=th['log2_fold_min_th'])
        impl_err = None
    except Exception as e:      # noqa
        d = None
        msg = str(e)
        impl_err = ('lengthMismatch' if 'same shape' in msg else
                    'q1Th' if msg.startswith('q1_th must') else
                    'qdiffTh' if msg.startswith('qdiff_th must') else
                    'foldTh' if msg.startswith('log2_fold_th must') else
                    'emptyMax' if 'zero-size array' in msg else
                    'other:' + type(e).__name__)
    ctx.case(('dist', json.dumps(detail, sort_keys=True))
             if len(q1) >= 3 else None, sample=None)
    ctx.count('distance:' + (impl_err or 'ok'))
    if d is not None and len(q1) == len(qd) == len(fd):
        for g in range(len(q1)):
            inv = not floors_ok(th, q1[g], qd[g], fd[g])
            if bool(d['invalid'][g]) != inv:
                ctx.violation('C11/distance/invalid',
                              'invalid flag is not "below some floor" at %d'
                              % g, detail)
                return
            at_or_above = q1[g] >= th['q1_th'] and \
                qd[g] >= th['qdiff_th'] and fd[g] >= th['log2_fold_th']
            if (strict_ok(th, q1[g], qd[g], fd[g]) and d['true'][g] != 0.0) \
                    or (d['true'][g] == 0.0 and not at_or_above):
                ctx.violation('C11/distance/zero',
                              'distance_sq == 0 does not separate "passes '
                              'the strict criteria" from "below a strict '
                              'threshold" at %d' % g, detail)
                return
    if ctx.driver_ok:
        out = ctx.model('refmarkers.distance', {
            'th': ru.th_json(th), 'q1': jfrs(q1), 'qdiff': jfrs(qd),
            'fold': jfrs(fd)})
        if 'err' in out:
            same = impl_err == out['err']
        else:
            same = d is not None and len(out['ok']) == len(d['true'])
            if same:
                for g, m in enumerate(out['ok']):
                    for k in ('true', 'q1', 'qdiff', 'fold', 'wgt'):
                        if not close(from_j(m[k]), fr(d[k][g])):
                            same = False
                    if bool(d['invalid'][g]) != m['invalid']:
                        same = False
        if not same:
            detail['impl_err'] = impl_err
            detail['model'] = out if 'err' in out else 'values differ'
            corr_violation(ctx, 'distance', 'CTM.RefMarkers.'
                           'penetranceParameterDistance ~ '
                           'penetrance_parameter_distance', detail)


def check_penetrance(ctx, th, q1, qd, fd, exact, n_valid, label='gen'):
    from cell_type_mapper.diff_exp.scores import (
        approx_penetrance_test, exact_penetrance_test)
    detail = {'kind': 'penetrance', 'th': th, 'exact': exact,
              'n_valid': n_valid,
              'q1': [float(x).hex() for x in q1],
              'qdiff': [float(x).hex() for x in qd],
              'fold': [float(x).hex() for x in fd]}
    a1, a2, a3 = (np.array(q1, dtype=float), np.array(qd, dtype=float),
                  np.array(fd, dtype=float))
    impl_err = None
    try:
        with np.errstate(all='ignore'):
            if exact:
                raw = exact_penetrance_test(
                    q1_score=a1, qdiff_score=a2, q1_th=th['q1_th'],
                    qdiff_th=th['qdiff_th'])
                valid = np.logical_and(a3 > th['log2_fold_th'], raw)
            else:
                valid = approx_penetrance_test(
                    q1_score=a1, qdiff_score=a2, log2_fold=a3,
                    q1_th=th['q1_th'], q1_min_th=th['q1_min_th'],
                    qdiff_th=th['qdiff_th'],
                    qdiff_min_th=th['qdiff_min_th'],
                    log2_fold_th=th['log2_fold_th'],
                    log2_fold_min_th=th['log2_fold_min_th'],
                    n_valid=n_valid)
    except Exception as e:      # noqa
        valid = None
        impl_err = 'emptyMax' if 'zero-size array' in str(e) else \
            'other:' + type(e).__name__
    G = len(q1)
    ctx.case(('pen', json.dumps(detail, sort_keys=True)) if G >= 3 else None,
             sample={'kind': 'penetrance', 'n': G, 'exact': exact,
                     'n_valid': n_valid})
    ctx.count('penetrance:' + ('exact' if exact else 'approx'))
    if valid is not None:
        valid = [bool(x) for x in valid]
        for g in range(G):
            s_ok = strict_ok(th, q1[g], qd[g], fd[g])
            f_ok = floors_ok(th, q1[g], qd[g], fd[g])
            if valid[g] and not f_ok:
                ctx.violation(
                    'C11/sound/floor-bypassed' + sep_class(th),
                    'penetrance test accepts gene %d below a floor' % g,
                    detail)
                return
            if s_ok and not valid[g]:
                ctx.violation('C11/complete/penetrance',
                              'penetrance test rejects gene %d which passes '
                              'the strict criteria' % g, detail)
                return
            if exact and valid[g] and not s_ok:
                ctx.violation('C11/exact-only/penetrance',
                              'exact penetrance accepts gene %d which fails '
                              'a strict criterion' % g, detail)
                return
        if not exact:
            # not part of C11 (which only asks for soundness/completeness):
            # how often the approximation delivers its n_valid genes
            n_ok = sum(1 for g in range(G)
                       if floors_ok(th, q1[g], qd[g], fd[g]))
            if sum(valid) < min(n_valid, G, n_ok):
                ctx.count('penetrance:fewer-than-n_valid')
    if ctx.driver_ok:
        out = ctx.model('refmarkers.penetrance', {
            'th': ru.th_json(th), 'q1': jfrs(q1), 'qdiff': jfrs(qd),
            'fold': jfrs(fd), 'exact': exact, 'nValid': n_valid})
        if 'err' in out:
            same = impl_err == out['err']
        else:
            same = valid is not None and out['ok'] == valid
        if not same:
            if valid is not None and 'ok' in out and \
                    near_tie_explains(th, q1, qd, fd):
                ctx.count('penetrance:near-tie-tolerated')
                return
            detail['impl'] = valid if valid is not None else impl_err
            detail['model'] = out
            corr_violation(ctx, 'penetrance', 'CTM.RefMarkers.penetranceTests'
                           ' ~ approx_/exact_penetrance_test', detail)


def sep_class(th):
    """signature suffix: is some strict threshold within 1e-5 of its floor"""
    tight = any(th[a] - th[b] < 1.0e-5 for a, b in (
        ('q1_th', 'q1_min_th'), ('qdiff_th', 'qdiff_min_th'),
        ('log2_fold_th', 'log2_fold_min_th')))
    return '-by-eps-slack' if tight else ''


# ---------------------------------------------------------------------------
# unit: _write_to_tmp_file + _merge_sparse_by_pair_files
# ---------------------------------------------------------------------------

def check_sparse_merge(ctx, rng, rows_up=None, rows_down=None, n_per=None,
                       n_genes=None):
    import h5py
    from cell_type_mapper.diff_exp.markers import (
        _write_to_tmp_file, _merge_sparse_by_pair_files)
    from cell_type_mapper.utils.utils import choose_int_dtype
    if rows_up is None:
        n_genes = rng.choice([1, 5, 40, 300])
        n_pairs = rng.choice([1, 2, 7, 8, 9, 16, 17, 25, 40, 90, 105])
        n_per = rng.choice([8, 8, 16, 24])

        def rrow():
            if rng.random() < 0.3:
                return []
            k = rng.randint(0, min(n_genes, 12))
            return sorted(rng.sample(range(n_genes), k))
        rows_up = [rrow() for _ in range(n_pairs)]
        rows_down = [rrow() for _ in range(n_pairs)]
    n_pairs = len(rows_up)
    detail = {'kind': 'sparse', 'rows_up': rows_up, 'rows_down': rows_down,
              'n_per': n_per, 'n_genes': n_genes}
    ctx.case(('sparse', json.dumps(detail)) if n_pairs > n_per else None,
             sample=None)
    ctx.count('sparse-merge')
    with pipeline.workdir('c11s_') as d:
        paths = {}
        done_files = {'up': [], 'down': []}
        cols = list(range(0, n_pairs, n_per))
        rng_order = list(cols)
        rng.shuffle(rng_order)      # completion order is irrelevant
        for col0 in rng_order:
            p = d / ('chunk_%d.h5' % col0)
            idt = choose_int_dtype((0, n_genes))
            up = {i: np.array(rows_up[i], dtype=idt)
                  for i in range(col0, min(n_pairs, col0 + n_per))}
            dn = {i: np.array(rows_down[i], dtype=idt)
                  for i in range(col0, min(n_pairs, col0 + n_per))}
            _write_to_tmp_file(up_reg_lookup=up, down_reg_lookup=dn,
                               output_path=p, idx_dtype=idt)
            paths[col0] = p
            with h5py.File(p, 'r') as f:
                for dname in ('up', 'down'):
                    done_files[dname].append([col0, [
                        [int(x) for x in f[dname + '_pair_idx'][()]],
                        [int(x) for x in f[dname + '_gene_idx'][()]]]])
        out = d / 'merged.h5'
        with h5py.File(out, 'w') as f:
            f.create_dataset('n_pairs', data=n_pairs)
        try:
            _merge_sparse_by_pair_files(tmp_path_dict=paths, n_genes=n_genes,
                                        n_pairs=n_pairs, output_path=out)
        except Exception as e:      # noqa
            cls = ru.classify_error(e, '')
            ctx.violation('C11/raises/' + cls if cls == 'empty-direction'
                          else 'C11/merge/raises/' + cls,
                          'merging per-chunk tables raises %r' % e, detail)
            return
        with h5py.File(out, 'r') as f:
            got = {}
            for dname in ('up', 'down'):
                got[dname] = (
                    [int(x) for x in f['sparse_by_pair/%s_pair_idx' % dname]],
                    [int(x) for x in f['sparse_by_pair/%s_gene_idx' % dname]])
    for dname, rows in (('up', rows_up), ('down', rows_down)):
        ip, ix = got[dname]
        back = [ix[ip[i]:ip[i + 1]] for i in range(len(ip) - 1)]
        if back != [list(r) for r in rows]:
            ctx.violation('C11/merge/rows',
                          'merged %s table does not reproduce the per-pair '
                          'rows' % dname, detail)
            return
        if ctx.driver_ok:
            m = ctx.model('refmarkers.sparse', {'rows': rows, 'nPer': n_per})
            # the keyed merge of the model on the worker files themselves, in
            # the order they were written (= completion order)
            mk = ctx.model('refmarkers.mergeKeyed',
                           {'done': done_files[dname]})
            if m['merged'] != [ip, ix] or m['direct'] != [ip, ix] or \
                    mk != [ip, ix]:
                detail['model'] = m
                corr_violation(ctx, 'sparse', 'CTM.RefMarkers.mergeSparse ~ '
                               '_merge_sparse_by_pair_files', detail)
                return


# ---------------------------------------------------------------------------
# unit: _get_validity_mask
# ---------------------------------------------------------------------------

def check_validity_mask(ctx, rng, case=None):
    from cell_type_mapper.diff_exp.p_value_markers import _get_validity_mask
    if case is None:
        G = rng.choice([1, 2, 5, 12, 30, 45])
        k = rng.randint(0, G)
        idx = sorted(rng.sample(range(G), k))
        pool = [-1.0, -1.0, 0.001, 0.001, 0.25, 0.5, 2.0, 65500.0]
        dat = [float(np.float16(rng.choice(pool) if rng.random() < 0.6
                                else rng.random() * rng.choice([0.01, 1, 50])))
               for _ in idx]
        n_valid = rng.choice([0, 1, 2, 3, 5, 30, G, G + 3])
        if rng.random() < 0.5:
            gene_idx = None
        else:
            gene_idx = sorted(rng.sample(range(G), rng.randint(1, G)))
        case = {'kind': 'validity_mask', 'n_genes': G, 'idx': idx,
                'data': dat, 'n_valid': n_valid, 'gene_idx': gene_idx}
    G, idx, dat = case['n_genes'], case['idx'], case['data']
    n_valid, gene_idx = case['n_valid'], case['gene_idx']
    ctx.case(('vm', json.dumps(case)) if G >= 3 and idx else None, sample=None)
    ctx.count('validity-mask')
    try:
        got = _get_validity_mask(
            n_valid=n_valid, n_genes=G,
            gene_indices=np.array(idx, dtype=np.int64),
            raw_distances=np.array(dat, dtype=np.float16).astype(float),
            valid_gene_idx=None if gene_idx is None
            else np.array(gene_idx, dtype=np.int64))
        got = [bool(x) for x in got]
        err = None
    except Exception as e:      # noqa
        got = None
        err = type(e).__name__
    allowed = set(range(G)) if gene_idx is None else set(gene_idx)
    if got is None:
        ctx.violation('C11/validity-mask/raises/' + err,
                      '_get_validity_mask raises %s on a well-formed row'
                      % err, case)
        return
    rec = set(g for g in range(G) if got[g])
    elig = set(idx) & allowed
    strict = set(g for g, x in zip(idx, dat) if x == -1.0) & allowed
    if not rec <= elig:
        ctx.violation('C11/validity-mask/sound', 'a gene outside the mask '
                      'row or the gene list is recorded', case)
        return
    if not strict <= rec:
        ctx.violation('C11/validity-mask/complete', 'a gene stored with '
                      'distance -1 is not recorded', case)
        return
    if len(rec) < min(n_valid, len(elig)):
        ctx.count('validity-mask:fewer-than-n_valid')   # not part of C11
    if ctx.driver_ok:
        vm = ctx.model('refmarkers.validityFromMask', {
            'nValid': n_valid, 'nGenes': G,
            'row': [[g, jfr(x)] for g, x in zip(idx, dat)],
            'geneIdx': gene_idx})
        if vm.get('ok') != got:
            corr_violation(ctx, 'validityFromMask', 'CTM.RefMarkers.'
                           'getValidityMask ~ _get_validity_mask',
                           dict(case, impl=got, model=vm))


# ---------------------------------------------------------------------------
# unit: score_differential_genes on a synthetic statistics dict
# ---------------------------------------------------------------------------

def check_score_unit(ctx, rng, case=None):
    """many cheap cases for the relaxation pass, n_cells_min, n_valid_min,
    valid_gene_idx (no files, no sub-processes)"""
    from cell_type_mapper.diff_exp.scores import score_differential_genes
    import scipy.stats
    if case is None:
        th = ru.random_thresholds(rng)
        prob = ru.StatsProblem(rng, n_leaves=2,
                               n_genes=rng.choice([1, 2, 4, 9, 16, 33]),
                               th=th, two_level=False)
        G = len(prob.genes)
        case = {'kind': 'score_unit', 'problem': prob.to_json(),
                'exact': rng.random() < 0.25,
                'n_valid': rng.choice([0, 1, 2, 4, 30, G]),
                'n_valid_min': rng.choice([0, 1, 3, 10, 10, G + 1]),
                'n_cells_min': rng.choice([2, 2, 2, 1, 5]),
                'gene_idx': None if rng.random() < 0.5 else
                sorted(rng.sample(range(G), rng.randint(1, G)))}
    prob = ru.StatsProblem(None, data=case['problem'])
    th = prob.th
    a, b = sorted(prob.leaves)
    G = len(prob.genes)
    stats = {}
    for l in (a, b):
        n = prob.n[l]
        s = prob.mean[l] * n
        ss = prob.var[l] * max(1, n - 1) + s ** 2 / max(1, n)
        stats[l] = {'n_cells': n, 'mean': s / max(1, n),
                    'var': (ss - s ** 2 / max(1, n)) / max(1, n - 1),
                    'ge1': prob.ge1[l].copy()}
    from cell_type_mapper.utils.stats_utils import boring_t_from_p_value
    bt = boring_t_from_p_value(th['p_th'])
    gi = case['gene_idx']
    try:
        with np.errstate(all='ignore'):
            _, valid, up = score_differential_genes(
                node_1=a, node_2=b, precomputed_stats=stats,
                boring_t=bt, big_nu=None, exact_penetrance=case['exact'],
                n_valid=case['n_valid'], n_valid_min=case['n_valid_min'],
                n_cells_min=case['n_cells_min'],
                valid_gene_idx=None if gi is None else np.array(gi),
                **th)
        valid = [bool(x) for x in valid]
        up = [bool(x) for x in up]
    except Exception as e:      # noqa
        ctx.violation('C11/score-unit/raises/' + type(e).__name__,
                      'score_differential_genes raises %r' % e, case)
        return
    # oracle: unshortcut Welch p
    m1, v1, n1 = stats[a]['mean'], stats[a]['var'], stats[a]['n_cells']
    m2, v2, n2 = stats[b]['mean'], stats[b]['var'], stats[b]['n_cells']
    with np.errstate(all='ignore'):
        se2 = v1 / n1 + v2 / n2
        se = np.sqrt(se2)
        se = np.where(se > 0.0, se, 1.0e-10)
        t = (m1 - m2) / se
        den = (v1 ** 2) / (n1 ** 3 - n1 ** 2) + (v2 ** 2) / (n2 ** 3 - n2 ** 2)
        den = np.where(den > 0.0, den, 1.0)
        nu = se2 * se2 / den
        cdf = scipy.stats.t.cdf(t, df=nu)
        cdf = np.where(np.isfinite(cdf), cdf, 0.5)
        fi = np.finfo(float)
        cdf = np.clip(cdf, fi.smallest_normal, 1.0 - fi.epsneg)
        p = np.where(cdf < 0.5, 2.0 * cdf, 2.0 * (1.0 - cdf))
    holm = ru.textbook_holm([fr(x) for x in p])
    thx = th_frac(th)
    p1 = stats[a]['ge1'] / max(1, n1)
    p2 = stats[b]['ge1'] / max(1, n2)
    q1 = np.where(p1 > p2, p1, p2)
    dn = np.where(q1 > 0.0, q1, 1.0)
    qd = np.abs(p1 - p2) / dn
    fd = np.abs(m1 - m2)
    allowed = set(range(G)) if gi is None else set(gi)
    big = n1 >= case['n_cells_min'] and n2 >= case['n_cells_min']
    p_amb = any(near(h, thx['p_th']) for h in holm)
    ctx.case(('su', json.dumps(case, sort_keys=True)) if G >= 2 else None,
             sample=None)
    ctx.count('score-unit')
    for g in range(G):
        if near(holm[g], thx['p_th']):
            continue
        f_ok = floors_ok(th, float(q1[g]), float(qd[g]), float(fd[g]))
        s_ok = strict_ok(th, float(q1[g]), float(qd[g]), float(fd[g]))
        pok = holm[g] < thx['p_th']
        if valid[g] and not (big and pok and f_ok and g in allowed and
                             (s_ok or not case['exact'])):
            ctx.violation('C11/score-unit/sound', 'gene %d is valid but '
                          'fails a criterion' % g, dict(case, gene=g))
            return
        if not valid[g] and big and pok and s_ok and g in allowed:
            ctx.violation('C11/score-unit/complete', 'gene %d passes every '
                          'strict criterion but is not valid' % g,
                          dict(case, gene=g))
            return
        if up[g] != bool(m2[g] > m1[g]) and big:
            ctx.violation('C11/score-unit/direction', 'up flag of gene %d is '
                          'not mean2 > mean1' % g, dict(case, gene=g))
            return
    if ctx.driver_ok:
        out = ctx.model('refmarkers.score', {
            'th': ru.th_json(th), 'q1': jfrs(q1), 'qdiff': jfrs(qd),
            'fold': jfrs(fd), 'praw': jfrs(p), 'n1': int(n1), 'n2': int(n2),
            'exact': case['exact'], 'nValid': case['n_valid'],
            'nValidMin': case['n_valid_min'],
            'nCellsMin': case['n_cells_min'], 'geneIdx': gi,
            'mean1': jfrs(m1), 'mean2': jfrs(m2)})
        if 'err' in out or out['ok']['valid'] != valid or \
                out['ok']['up'] != up:
            if 'ok' in out and (p_amb or near_tie_explains(th, q1, qd, fd)):
                ctx.count('score-unit:near-tie-tolerated')
                return
            # boring_t may only differ from the model through the shortcut
            corr_violation(ctx, 'score-unit', 'CTM.RefMarkers.scoreCoreWith ~'
                           ' score_differential_genes',
                           dict(case, impl_valid=valid, impl_up=up,
                                model=out))


# ---------------------------------------------------------------------------
# file cases
# ---------------------------------------------------------------------------

def gen_file_case(rng, tier):
    th = ru.random_thresholds(rng)
    if tier == 'thorough' and rng.random() < 0.06:
        # many pairs: several chunks, n_per in {8, 16, 24, 48} depending on
        # the worker count; last chunk of 1..n_per pairs
        prob = ru.StatsProblem(rng, th=th, n_leaves=rng.randint(10, 15),
                               n_genes=rng.choice([3, 8, 12]))
    else:
        prob = ru.StatsProblem(rng, th=th)
    G = len(prob.genes)
    r = rng.random()
    if r < 0.5:
        gene_list = None
    else:
        k = rng.randint(1, G)
        gene_list = rng.sample(prob.genes, k)
        if rng.random() < 0.5:
            gene_list += ['not_a_gene_%d' % i for i in range(rng.randint(1, 3))]
        rng.shuffle(gene_list)
    cfg = {
        'exact': rng.random() < 0.3,
        'n_valid': rng.choice([30, 30, 5, 3, 1, 0, 12, 40]),
        'gene_list': gene_list,
        'procs': rng.sample([1, 2, 3, 4], 2),
        'max_gb': [rng.choice([1, 10]), rng.choice([0.001, 1.0e-6, 0.5])],
        'n_per': [10000, rng.choice([8, 16, 9])],
    }
    return prob, cfg


def aimed_gene_list_problem(rng, n_leaves=None):
    """two sibling clusters identical on every listed gene (no listed gene
    passes p_th, so the relaxation pass of score_differential_genes is entered
    with an EMPTY valid set) while 1-3 unlisted genes separate them strongly.
    Aimed at: the gene list must also hold in the relaxed pass."""
    th = ru.random_thresholds(rng)
    prob = ru.StatsProblem(rng, th=th,
                           n_leaves=n_leaves or rng.choice([2, 3, 4]),
                           n_genes=rng.choice([5, 8, 12]), two_level=False)
    G = len(prob.genes)
    a, b = sorted(prob.leaves)[:2]
    for l in (a, b):
        if prob.n[l] < 4:
            prob.n[l] = rng.choice([4, 6, 8])
    idx = list(range(G))
    rng.shuffle(idx)
    n_sep = rng.randint(1, min(3, G - 1))
    sep = idx[:n_sep]                       # unlisted, strongly separating
    listed = idx[n_sep:n_sep + max(1, (G - n_sep) // 2)]
    # every gene: identical statistics in a and b ...
    for g in range(G):
        prob.mean[b][g] = prob.mean[a][g]
        prob.var[a][g] = prob.var[b][g] = 0.01
        frac = rng.choice([0.0, 0.5, 1.0])
        prob.ge1[a][g] = int(round(frac * prob.n[a]))
        prob.ge1[b][g] = int(round(frac * prob.n[b]))
    # ... except the separating ones
    for g in sep:
        hi, lo = (a, b) if rng.random() < 0.5 else (b, a)
        prob.mean[hi][g] = 6.0 + rng.choice([0.0, 0.5, 1.0])
        prob.mean[lo][g] = 0.0
        prob.ge1[hi][g] = prob.n[hi]
        prob.ge1[lo][g] = 0
    gene_list = [prob.genes[g] for g in listed]
    if rng.random() < 0.5:
        gene_list.append('not_a_gene_0')
    rng.shuffle(gene_list)
    return prob, gene_list, sorted(listed), sorted(sep)


def gen_aimed_gene_list_case(rng, exact):
    prob, gene_list, _, _ = aimed_gene_list_problem(rng)
    cfg = {'exact': exact, 'n_valid': rng.choice([1, 3, 5]),
           'gene_list': gene_list, 'procs': rng.sample([1, 2, 3], 2),
           'max_gb': [1, 0.5], 'n_per': [10000, 8]}
    return prob, cfg


def th_frac(th):
    return {k: fr(v) for k, v in th.items()}


def gene_idx_of(genes, gene_list):
    if gene_list is None:
        return None
    s = set(gene_list)
    return [i for i, g in enumerate(genes) if g in s]


def pair_facts(o, th, thx, G):
    """per gene: independent verdicts with ambiguity flags"""
    facts = []
    for g in range(G):
        h = o['holm'][g]
        q1, qd, fd = o['q1x'][g], o['qdiffx'][g], o['foldx'][g]
        amb = near(h, thx['p_th'])
        for v, a, b in ((q1, 'q1_th', 'q1_min_th'),
                        (qd, 'qdiff_th', 'qdiff_min_th'),
                        (fd, 'log2_fold_th', 'log2_fold_min_th')):
            if near(v, thx[a]) or near(v, thx[b]):
                amb = True
        # the implementation's float values, compared as it compares them
        fq1, fqd, ffd = (float(o['q1'][g]), float(o['qdiff'][g]),
                         float(o['fold'][g]))
        facts.append({
            'p_ok': h < thx['p_th'],
            'strict': q1 > thx['q1_th'] and qd > thx['qdiff_th']
            and fd > thx['log2_fold_th'],
            'floors': q1 >= thx['q1_min_th'] and qd >= thx['qdiff_min_th']
            and fd >= thx['log2_fold_min_th'],
            'strict_f': strict_ok(th, fq1, fqd, ffd),
            'floors_f': floors_ok(th, fq1, fqd, ffd),
            'amb': amb,
            'up': o['mean2x'][g] > o['mean1x'][g],
            'mean_amb': near(o['mean2x'][g], o['mean1x'][g]),
        })
    return facts


def add_exact(oracle, a, b, o):
    """exact fold / means from the float means of the file"""
    if 'foldx' in o:
        return o
    m1 = [fr(x) for x in o['mean1']]
    m2 = [fr(x) for x in o['mean2']]
    o['mean1x'], o['mean2x'] = m1, m2
    o['foldx'] = [abs(x - y) for x, y in zip(m1, m2)]
    return o


def check_tables(ctx, route, prob_json, oracle, tables, th, cfg, detail0,
                 mask=None, nproc=1):
    """predicates on the written tables + model correspondence.
    returns True if the tables looked fine"""
    G = oracle.G
    thx = th_frac(th)
    view, probs = ru.tables_view(tables)
    sig0 = 'C11/%s' % route
    if tables['genes'] != oracle.genes:
        probs.append('gene_names differ from the statistics file')
    want_pairs = {i: p for i, p in enumerate(oracle.pairs)}
    if tables['idx_to_pair'] != want_pairs:
        probs.append('pair_to_idx is not the sorted leaf pairs')
    if probs:
        ctx.violation(sig0 + '/tables/malformed', 'malformed table: %s'
                      % probs[0], dict(detail0, problems=probs))
        return False
    if ctx.driver_ok:
        rank = {l: i for i, l in enumerate(oracle.leaves)}
        mp = ctx.model('refmarkers.pairs', {'n': len(oracle.leaves)})
        got = [[rank[a], rank[b]] for _, (a, b) in
               sorted(tables['idx_to_pair'].items())]
        if mp != got:
            corr_violation(ctx, 'pairs', 'CTM.RefMarkers.combos2 ~ '
                           '_prep_output_file', dict(detail0, model=mp[:10]))
            return False
    # by-gene == transpose of by-pair (exactly, rows sorted)
    for d in ('up', 'down'):
        tr = [[] for _ in range(G)]
        for i, row in enumerate(view['pair_' + d]):
            for g in row:
                tr[g].append(i)
        if [sorted(r) for r in view['gene_' + d]] != tr or \
                any(len(set(r)) != len(r) for r in view['gene_' + d]):
            ctx.violation(sig0 + '/transpose',
                          'sparse_by_gene/%s is not the transpose of '
                          'sparse_by_pair/%s' % (d, d), detail0)
            return False
    if ctx.driver_ok:
        # composed model: pair-major rows -> B's on-disk transposition
        # (serial for one worker, parallel otherwise) == the written arrays
        for d in ('up', 'down'):
            mg = ctx.model('refmarkers.byGene', {
                'rows': view['pair_' + d], 'nGenes': G, 'nProc': nproc,
                'chunk': ctx.rng.choice([1, 2, 7, 100])})
            got = [[int(x) for x in
                    tables['raw']['sparse_by_gene/%s_gene_idx' % d]],
                   [int(x) for x in
                    tables['raw']['sparse_by_gene/%s_pair_idx' % d]]]
            if mg.get('ok') != got:
                corr_violation(ctx, 'byGene', 'CTM.RefMarkers.byGeneTable ~ '
                               'add_sparse_by_gene_markers_to_file',
                               dict(detail0, direction=d, model=mg))
                return False
    gene_idx = gene_idx_of(oracle.genes, cfg['gene_list'])
    allowed = set(range(G)) if gene_idx is None else set(gene_idx)
    exact = cfg['exact'] and route == 'main'
    any_marker = False
    any_reject = False
    ok = True
    for i, (a, b) in enumerate(oracle.pairs):
        o = add_exact(oracle, a, b, oracle.pair(a, b))
        up, down = view['pair_up'][i], view['pair_down'][i]
        rec = set(up) | set(down)
        any_marker = any_marker or bool(rec)
        any_reject = any_reject or len(rec) < G
        d1 = dict(detail0, pair=[a, b], pair_idx=i, up=up, down=down)
        if set(up) & set(down) or len(set(up)) != len(up) or \
                len(set(down)) != len(down):
            ctx.violation(sig0 + '/no-both', 'a gene is both up and down (or '
                          'repeated) for pair %s/%s' % (a, b), d1)
            return False
        facts = pair_facts(o, th, thx, G)
        big = o['n1'] >= 2 and o['n2'] >= 2
        for g in range(G):
            f = facts[g]
            d2 = dict(d1, gene=g, gene_name=oracle.genes[g],
                      holm=float(o['holm'][g]), q1=float(o['q1x'][g]),
                      qdiff=float(o['qdiffx'][g]), fold=float(o['foldx'][g]),
                      n1=o['n1'], n2=o['n2'])
            if g in rec:
                if not big:
                    ctx.violation(sig0 + '/sound/n_cells',
                                  'marker recorded for a pair with a cluster '
                                  'of fewer than 2 cells', d2)
                    return False
                if g not in allowed:
                    ctx.violation(sig0 + '/sound/gene-list',
                                  'marker recorded outside the gene list', d2)
                    return False
                if not f['amb']:
                    if not f['p_ok']:
                        ctx.violation(sig0 + '/sound/p-value',
                                      'marker recorded with Holm-corrected '
                                      'p >= p_th', d2)
                        return False
                    if not f['floors']:
                        ctx.violation(sig0 + '/sound/floor' + sep_class(th),
                                      'marker recorded below a floor', d2)
                        return False
                    if exact and not f['strict']:
                        ctx.violation(sig0 + '/exact-only',
                                      'exact penetrance requested but a gene '
                                      'failing a strict threshold is '
                                      'recorded', d2)
                        return False
                if not f['mean_amb'] and (g in up) != f['up']:
                    ctx.violation(sig0 + '/direction',
                                  'direction is not the sign of the '
                                  'difference of means', d2)
                    return False
            else:
                if big and g in allowed and not f['amb'] and f['p_ok'] \
                        and f['strict']:
                    ctx.violation(sig0 + '/complete',
                                  'gene passes every strict criterion but is '
                                  'not recorded', d2)
                    return False
        # model correspondence for this pair
        if ctx.driver_ok:
            ok = model_pair(ctx, route, o, th, thx, cfg, gene_idx, exact, up,
                            down, d1, mask, i, facts) and ok
    ctx.case(('file', route, json.dumps(prob_json, sort_keys=True),
              json.dumps(cfg, sort_keys=True))
             if len(oracle.leaves) >= 3 and any_marker and any_reject
             else None,
             sample={'kind': 'file', 'route': route,
                     'leaves': len(oracle.leaves), 'genes': G,
                     'exact': exact, 'n_valid': cfg['n_valid'],
                     'markers': sum(len(r) for r in view['pair_up'])
                     + sum(len(r) for r in view['pair_down'])})
    ctx.traces += 1
    return ok


def model_pair(ctx, route, o, th, thx, cfg, gene_idx, exact, up, down, d1,
               mask, i, facts):
    G = len(facts)
    p_amb = any(near(h, thx['p_th']) for h in o['holm'])
    base = {'th': ru.th_json(th), 'q1': jfrs(o['q1']),
            'qdiff': jfrs(o['qdiff']), 'fold': jfrs(o['fold']),
            'praw': jfrs(o['p']), 'n1': o['n1'], 'n2': o['n2']}
    if route == 'main':
        inp = dict(base, exact=exact, nValid=cfg['n_valid'],
                   geneIdx=gene_idx,
                   mean1=jfrs(o['mean1']), mean2=jfrs(o['mean2']))
        out = ctx.model('refmarkers.score', inp)
        if 'err' in out:
            corr_violation(ctx, 'score/model-error', 'CTM.RefMarkers.'
                           'scoreCoreWith ~ score_differential_genes',
                           dict(d1, model=out))
            return False
        same = out['ok']['upIdx'] == sorted(up) and \
            out['ok']['downIdx'] == sorted(down)
        if not same:
            if p_amb or (not exact and near_tie_explains(
                    th, o['q1'], o['qdiff'], o['fold'])):
                ctx.count('file:near-tie-tolerated')
                return True
            corr_violation(ctx, 'score', 'CTM.RefMarkers.scoreCoreWith ~ '
                           'score_differential_genes',
                           dict(d1, model_up=out['ok']['upIdx'],
                                model_down=out['ok']['downIdx']))
            return False
        return True
    # mask route: the row of the mask file, then the validity from that row
    ip, ix, data = mask['indptr'], mask['indices'], mask['data']
    row_idx = [int(x) for x in ix[int(ip[i]):int(ip[i + 1])]]
    row_dat = [float(x) for x in data[int(ip[i]):int(ip[i + 1])]]
    mrow = ctx.model('refmarkers.maskRow', base)
    if 'err' in mrow:
        corr_violation(ctx, 'maskRow/model-error',
                       'CTM.RefMarkers.pValuesWorkerRow ~ _p_values_worker',
                       dict(d1, model=mrow))
        return False
    m_idx = [int(e[0]) for e in mrow['ok']]
    same = m_idx == row_idx
    if same:
        for (g, w), got in zip(mrow['ok'], row_dat):
            want16 = float(np.float16(float(from_j(w))))
            lo = float(np.nextafter(np.float16(want16), np.float16(-np.inf)))
            hi = float(np.nextafter(np.float16(want16), np.float16(np.inf)))
            if not (lo <= got <= hi) or ((got == -1.0) != (from_j(w) == -1)):
                same = False
    if not same:
        if p_amb:
            ctx.count('file:near-tie-tolerated')
            return True
        corr_violation(ctx, 'maskRow', 'CTM.RefMarkers.pValuesWorkerRow ~ '
                       '_p_values_worker',
                       dict(d1, file_row=list(zip(row_idx, row_dat)),
                            model_row=[[e[0], float(from_j(e[1]))]
                                       for e in mrow['ok']]))
        return False
    vm = ctx.model('refmarkers.validityFromMask', {
        'nValid': cfg['n_valid'], 'nGenes': G,
        'row': [[g, jfr(x)] for g, x in zip(row_idx, row_dat)],
        'geneIdx': gene_idx})
    if 'err' in vm:
        corr_violation(ctx, 'validityFromMask/model-error',
                       'CTM.RefMarkers.getValidityMask ~ _get_validity_mask',
                       dict(d1, model=vm))
        return False
    rec_model = [g for g in range(G) if vm['ok'][g]]
    if rec_model != sorted(set(up) | set(down)):
        corr_violation(ctx, 'validityFromMask',
                       'CTM.RefMarkers.getValidityMask ~ _get_validity_mask',
                       dict(d1, model=rec_model))
        return False
    return True


def check_mask_file(ctx, oracle, mask, th, detail0):
    """the mask file alone: stored <=> both clusters have >= 2 cells,
    corrected p < p_th and no floor violated; stored value -1 <=> passes every
    strict criterion"""
    thx = th_frac(th)
    G = oracle.G
    ip = [int(x) for x in mask['indptr']]
    probs = ru.csr_problems(mask['indptr'], mask['indices'], G, 'mask')
    if len(ip) != len(oracle.pairs) + 1:
        probs.append('mask: %d rows for %d pairs'
                     % (len(ip) - 1, len(oracle.pairs)))
    if probs:
        ctx.violation('C11/mask-file/malformed', probs[0],
                      dict(detail0, problems=probs))
        return False
    for i, (a, b) in enumerate(oracle.pairs):
        o = add_exact(oracle, a, b, oracle.pair(a, b))
        facts = pair_facts(o, th, thx, G)
        idx = [int(x) for x in mask['indices'][ip[i]:ip[i + 1]]]
        dat = [float(x) for x in mask['data'][ip[i]:ip[i + 1]]]
        stored = dict(zip(idx, dat))
        big = o['n1'] >= 2 and o['n2'] >= 2
        for g in range(G):
            f = facts[g]
            if g in stored and not big:
                ctx.violation('C11/mask-file/n_cells',
                              'mask row is not empty for a pair with a '
                              'cluster of fewer than 2 cells',
                              dict(detail0, pair=[a, b], gene=g))
                return False
            if f['amb']:
                continue
            want = f['p_ok'] and f['floors'] and big
            d2 = dict(detail0, pair=[a, b], gene=g,
                      holm=float(o['holm'][g]), stored=stored.get(g))
            if (g in stored) != want:
                ctx.violation('C11/mask-file/membership',
                              'mask row does not hold exactly the genes with '
                              'p < p_th above every floor', d2)
                return False
            if g in stored and (stored[g] == -1.0) != f['strict']:
                ctx.violation('C11/mask-file/strict-flag',
                              'stored distance -1 is not "passes the strict '
                              'criteria"', d2)
                return False
    return True


def check_shortcuts(ctx, oracle, th, detail0):
    """the speed-ups: |t| < boring_t must imply unshortcut p >= p_th, and the
    implementation's corrected p-values must fall on the same side of p_th as
    textbook Holm on the unshortcut p-values"""
    from cell_type_mapper.utils.stats_utils import boring_t_from_p_value
    from cell_type_mapper.diff_exp.scores import diffexp_p_values
    thx = th_frac(th)
    bt = boring_t_from_p_value(th['p_th'])
    for (a, b) in oracle.pairs:
        o = oracle.pair(a, b)
        if bt is not None:
            skipped = np.abs(o['t']) < bt
            badg = np.where(np.logical_and(
                skipped, o['p'] < th['p_th'] * (1 - 1e-9)))[0]
            if len(badg):
                ctx.violation('C11/shortcut/boring_t-skips-significant',
                              'a gene with |t| < boring_t has unshortcut '
                              'p < p_th', dict(detail0, pair=[a, b],
                                               gene=int(badg[0]),
                                               boring_t=float(bt)))
                return False
        with np.errstate(all='ignore'):
            pc = diffexp_p_values(
                mean1=oracle.mean[a], var1=oracle.var[a], n1=oracle.n[a],
                mean2=oracle.mean[b], var2=oracle.var[b], n2=oracle.n[b],
                boring_t=bt, big_nu=None, p_th=th['p_th'])
        for g in range(oracle.G):
            h = o['holm'][g]
            if near(h, thx['p_th']):
                continue
            if (pc[g] < th['p_th']) != (h < thx['p_th']):
                ctx.violation('C11/shortcut/p-side',
                              'corrected p-value of the implementation is on '
                              'the other side of p_th than textbook Holm on '
                              'unshortcut Welch p-values',
                              dict(detail0, pair=[a, b], gene=g,
                                   impl=float(pc[g]), holm=float(h)))
                return False
        ctx.evaluations += 1
    return True


def route_error(ctx, route, res, detail0, expect=()):
    """a route raised on a valid configuration"""
    cls = res['error']
    if cls in expect:
        ctx.count('%s:raises-%s(expected)' % (route, cls))
        return
    cfg = detail0.get('cfg', {})
    n_genes = len(detail0.get('problem', {}).get('genes', []))
    if cls in ('one-pair-chunk', 'empty-direction', 'no-pairs'):
        sig = 'C11/raises/' + cls
    elif cls == 'IndexError-n_valid' and cfg.get('n_valid', 0) > n_genes:
        sig = 'C11/raises/n_valid-gt-n_genes'
    else:
        sig = 'C11/%s/raises/%s' % (route, cls)
    ctx.violation(sig, '%s raises on a valid configuration (%s): %s'
                  % (route, cls, res['repr']),
                  dict(detail0, route=route, stderr=res['stderr'][-600:]))


def run_file_case(ctx, prob, cfg, label='gen'):
    th = prob.th
    pj = prob.to_json()
    detail0 = {'kind': 'file', 'problem': pj, 'cfg': cfg}
    ctx.count('file:' + label.split(':')[0])
    ctx.count('leaves:%d' % len(prob.leaves))
    with pipeline.workdir('c11_') as d:
        stats = prob.write(d / 'stats.h5')
        oracle = ru.Oracle(stats)
        G = oracle.G
        check_shortcuts(ctx, oracle, th, detail0)
        gl = cfg['gene_list']
        overlap = gl is None or any(g in set(oracle.genes) for g in gl)
        expect = () if overlap else ('no-gene-overlap',)
        # ---- main route, two worker/budget settings -----------------------
        res = []
        for k in range(2):
            (d / ('tmp%d' % k)).mkdir()
            r = ru.run_main_route(
                stats, prob.tree, d / ('main%d.h5' % k), th,
                n_processors=cfg['procs'][k], max_gb=cfg['max_gb'][k],
                exact=cfg['exact'], n_valid=cfg['n_valid'], gene_list=gl,
                tmp_dir=d / ('tmp%d' % k))
            res.append(r)
            ctx.count('main:' + ('ok' if r['ok'] else r['error']))
        if res[0]['ok'] and res[1]['ok'] and not ru.tables_equal(
                res[0]['tables'], res[1]['tables']):
            ctx.violation('C11/main/depends-on-workers',
                          'main route output differs between n_processors/'
                          'max_gb settings %r/%r vs %r/%r'
                          % (cfg['procs'][0], cfg['max_gb'][0],
                             cfg['procs'][1], cfg['max_gb'][1]),
                          dict(detail0, outcome=[
                              r['ok'] or r['error'] for r in res]))
        for r in res:
            if not r['ok']:
                route_error(ctx, 'main', r, detail0, expect)
        if res[0]['ok']:
            check_tables(ctx, 'main', pj, oracle, res[0]['tables'], th, cfg,
                         detail0, nproc=cfg['procs'][0])
            # ---- swap: rename so that every pair swaps order --------------
            check_swap(ctx, prob, cfg, res[0]['tables'], oracle, d, detail0)
        # ---- p-value-mask route ------------------------------------------
        mres = []
        for k in range(2):
            (d / ('mtmp%d' % k)).mkdir()
            r = ru.run_mask_file(stats, d / ('mask%d.h5' % k), th,
                                 n_processors=cfg['procs'][k],
                                 n_per=cfg['n_per'][k],
                                 tmp_dir=d / ('mtmp%d' % k))
            mres.append(r)
            ctx.count('mask-file:' + ('ok' if r['ok'] else r['error']))
        if mres[0]['ok'] and mres[1]['ok'] and not all(
                np.array_equal(mres[0]['mask'][k], mres[1]['mask'][k])
                for k in ('indptr', 'indices', 'data')):
            ctx.violation('C11/mask-file/depends-on-workers',
                          'p-value mask differs between n_processors/n_per '
                          'settings', dict(detail0, outcome=[
                              r['ok'] or r['error'] for r in mres]))
        for r in mres:
            if not r['ok']:
                route_error(ctx, 'mask-file', r, detail0)
        good = [k for k in range(2) if mres[k]['ok']]
        if good:
            k0 = good[0]
            mask = mres[k0]['mask']
            check_mask_file(ctx, oracle, mask, th, detail0)
            fres = []
            for k in range(2):
                (d / ('ftmp%d' % k)).mkdir()
                r = ru.run_from_mask(
                    stats, d / ('mask%d.h5' % k0), d / ('fm%d.h5' % k),
                    n_processors=cfg['procs'][k], max_gb=cfg['max_gb'][k],
                    n_valid=cfg['n_valid'], gene_list=gl,
                    tmp_dir=d / ('ftmp%d' % k))
                fres.append(r)
                ctx.count('from-mask:' + ('ok' if r['ok'] else r['error']))
            if fres[0]['ok'] and fres[1]['ok'] and not ru.tables_equal(
                    fres[0]['tables'], fres[1]['tables']):
                ctx.violation('C11/mask-route/depends-on-workers',
                              'p-value-mask route output differs between '
                              'n_processors/max_gb settings %r/%r vs %r/%r'
                              % (cfg['procs'][0], cfg['max_gb'][0],
                                 cfg['procs'][1], cfg['max_gb'][1]),
                              dict(detail0, outcome=[
                                  r['ok'] or r['error'] for r in fres]))
            for r in fres:
                if not r['ok']:
                    route_error(ctx, 'mask-route', r, detail0,
                                () if overlap else ('empty-gene-idx',))
            okk = [k for k in range(2) if fres[k]['ok']]
            if okk:
                check_tables(ctx, 'mask-route', pj, oracle,
                             fres[okk[0]]['tables'], th, cfg, detail0,
                             mask=mask, nproc=cfg['procs'][okk[0]])


def check_swap(ctx, prob, cfg, tables, oracle, d, detail0):
    srt = sorted(prob.leaves)
    K = len(srt)
    mapping = {l: 'z%03d' % (K - i) for i, l in enumerate(srt)}
    p2 = prob.renamed(mapping)
    (d / 'swap').mkdir()
    stats2 = p2.write(d / 'swap' / 'stats.h5')
    r = ru.run_main_route(stats2, p2.tree, d / 'swap' / 'out.h5', prob.th,
                          n_processors=cfg['procs'][0], max_gb=cfg['max_gb'][0],
                          exact=cfg['exact'], n_valid=cfg['n_valid'],
                          gene_list=cfg['gene_list'], tmp_dir=d / 'swap')
    ctx.evaluations += 1
    if not r['ok']:
        ctx.violation('C11/swap/raises', 'renaming the clusters makes the '
                      'main route raise: %s' % r['repr'], detail0)
        return
    v1, p1 = ru.tables_view(tables)
    v2, pr2 = ru.tables_view(r['tables'])
    if p1 or pr2:
        return
    pair2idx = {p: i for i, p in r['tables']['idx_to_pair'].items()}
    thx = th_frac(prob.th)
    for i, (a, b) in enumerate(oracle.pairs):
        j = pair2idx.get((mapping[b], mapping[a]))
        if j is None:
            ctx.violation('C11/swap/pairs', 'renamed run lacks the swapped '
                          'pair', dict(detail0, pair=[a, b]))
            return
        o = add_exact(oracle, a, b, oracle.pair(a, b))
        eq = set(g for g in range(oracle.G)
                 if o['mean1x'][g] == o['mean2x'][g])
        up1, dn1 = set(v1['pair_up'][i]), set(v1['pair_down'][i])
        up2, dn2 = set(v2['pair_up'][j]), set(v2['pair_down'][j])
        if (up1 - eq, dn1 - eq, (up1 | dn1) & eq) != \
                (dn2 - eq, up2 - eq, (up2 | dn2) & eq):
            if any(near(h, thx['p_th']) for h in o['holm']):
                ctx.count('swap:near-threshold-tolerated')
                continue
            ctx.violation('C11/swap/direction-only',
                          'swapping the order of a pair changes more than '
                          'the direction',
                          dict(detail0, pair=[a, b], up=sorted(up1),
                               down=sorted(dn1), swapped_up=sorted(up2),
                               swapped_down=sorted(dn2)))
            return


# ---------------------------------------------------------------------------
# entry points
# ---------------------------------------------------------------------------

def run(ctx):
    rng = ctx.rng
    quick = ctx.tier == 'quick'
    cdir = core.VERIF / 'corpus' / 'C11'
    for f in sorted(cdir.glob('*.json')) if cdir.is_dir() else []:
        replay(ctx, json.loads(f.read_text()), from_corpus=True)
    # ---- unit layer --------------------------------------------------------
    for _ in range(150 if quick else 1500):
        p, th = gen_pvec(rng)
        check_holm(ctx, p, th)
    for _ in range(30 if quick else 300):
        check_ttnu(ctx, rng)
    for k in range(120 if quick else 1200):
        th = ru.random_thresholds(rng)
        q1, qd, fd = gen_scores(rng, th)
        if k % 3 == 0:
            check_distance(ctx, th, q1, qd, fd)
        check_penetrance(ctx, th, q1, qd, fd, exact=(k % 5 == 0),
                         n_valid=rng.choice([30, 5, 3, 1, 0, len(q1),
                                             len(q1) + 2]))
    # malformed stream: threshold not above its floor, length mismatch, empty
    for k in range(12 if quick else 60):
        th = ru.random_thresholds(rng)
        q1, qd, fd = gen_scores(rng, th)
        kind = k % 4
        if kind == 0:
            a, b = rng.choice([('q1_th', 'q1_min_th'),
                               ('qdiff_th', 'qdiff_min_th'),
                               ('log2_fold_th', 'log2_fold_min_th')])
            th[b] = th[a] if rng.random() < 0.5 else th[a] + 0.1
        elif kind == 1:
            qd = qd[:-1] if rng.random() < 0.5 else qd + [0.5]
        elif kind == 2:
            q1, qd, fd = [], [], []
        check_distance(ctx, th, q1, qd, fd, label='malformed')
    for _ in range(10 if quick else 80):
        check_sparse_merge(ctx, rng)
    for _ in range(150 if quick else 1500):
        check_validity_mask(ctx, rng)
    for _ in range(120 if quick else 1500):
        check_score_unit(ctx, rng)
    # ---- file layer --------------------------------------------------------
    # aimed family (always part of quick): gene list vs the relaxation pass
    for k in range(8 if quick else 40):
        prob, _, listed, _ = aimed_gene_list_problem(rng, n_leaves=2)
        check_score_unit(ctx, rng, {
            'kind': 'score_unit', 'problem': prob.to_json(),
            'exact': k % 4 == 3, 'n_valid': rng.choice([1, 3, 5, 30]),
            'n_valid_min': rng.choice([10, 10, 1, 3]), 'n_cells_min': 2,
            'gene_idx': listed})
    for exact in ((False, False, True) if quick else (False, True) * 6):
        prob, cfg = gen_aimed_gene_list_case(rng, exact)
        run_file_case(ctx, prob, cfg, label='aimed-gene-list')
    n_files = 20 if quick else 300
    for k in range(n_files):
        prob, cfg = gen_file_case(rng, ctx.tier)
        run_file_case(ctx, prob, cfg)


def replay(ctx, data, from_corpus=False):
    d = data.get('detail', data)
    kind = d.get('kind')
    fh = float.fromhex
    if kind == 'holm':
        check_holm(ctx, [fh(x) for x in d['p']], fh(d['th']), label='replay')
    elif kind in ('distance', 'penetrance'):
        q1 = [fh(x) for x in d['q1']]
        qd = [fh(x) for x in d['qdiff']]
        fd = [fh(x) for x in d['fold']]
        if kind == 'distance':
            check_distance(ctx, d['th'], q1, qd, fd, label='replay')
        else:
            check_penetrance(ctx, d['th'], q1, qd, fd, d['exact'],
                             d['n_valid'], label='replay')
    elif kind == 'sparse':
        check_sparse_merge(ctx, ctx.rng, d['rows_up'], d['rows_down'],
                           d['n_per'], d['n_genes'])
    elif kind == 'file':
        prob = ru.StatsProblem(None, data=d['problem'])
        run_file_case(ctx, prob, d['cfg'], label='replay')
    elif kind == 'validity_mask':
        check_validity_mask(ctx, ctx.rng, d)
    elif kind == 'score_unit':
        check_score_unit(ctx, ctx.rng, {k: v for k, v in d.items()
                                        if k in ('kind', 'problem', 'exact',
                                                 'n_valid', 'n_valid_min',
                                                 'n_cells_min', 'gene_idx')})
    elif kind == 'ttnu':
        check_ttnu(ctx, ctx.rng, d)
    elif not from_corpus:
        print('nothing to replay for kind', kind)
