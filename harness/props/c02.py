"""
C02 -- assignments are the plurality of bootstrapped nearest-centroid votes.

Two levels.
 unit:     generated arrays -> the real tally_votes (recording rng),
           correlation_nearest_neighbors, aggregate_votes, choose_node,
           convert_to_cpm vs (i) an independent recomputation and (ii) the
           Lean model (CTM/Model/Numeric.lean, CTM/Model/Election.lean).
 pipeline: the real run_mapping with the trace hook; every vote of every
           (cell, node, iteration) is recomputed from the statistics file, the
           query file and the traced subsets -- in float by the harness
           (predicate) and exactly by the model -- and compared with the JSON
           output.
Decisions are compared tie-aware (DESIGN 3.3): an argmax of the code is
accepted iff its correlation is within 1e-9 of the best one.
"""
import json

import numpy as np

from ctmverif import election_util as eu
from ctmverif import election_pipeline as ep

RULE = ('unit: arrays with 2-8 leaves, 3-14 genes, 1-5 cells, 1-12 '
        'iterations; values float / small-integer / dyadic; aimed rows '
        '(constant query row, constant centroid, duplicated centroid, query '
        '= centroid, positive/negative affine image of a centroid); leaf->'
        'child maps with and without repeated types (sorted and unsorted '
        'names); factors 1, 0.5, 1/n, products landing on .5, tiny, random; '
        'n_assignments 1..children+2; many-iteration cases crossing the vote '
        'counter widths (255, 256, 257, 300, 700, 65536; thorough also '
        '65535) on confidently mapped cells, unit and pipeline; elections over '
        '10001..24999 query rows (row batching), thorough also one ~12000-cell '
        'pipeline run with one chunk vs 4000-cell chunks; same-process histories '
        '(consecutive problems through the SAME marker-cache / statistics paths, '
        'real run_type_assignment in this process); malformed stream: factor > 1, '
        'factor <= 0, n_assignments 0, no reference rows, no marker genes. '
        'pipeline: generated '
        'mapping problems (independent gene orders of query and reference, '
        'extra/missing genes, 1-3 levels, single-child chains) incl. exact '
        'centroid copies and duplicated centroids. non-trivial = >= 2 '
        'children and >= 2 genes (unit) / some node with a real choice '
        '(pipeline); distinct by canonical JSON of the case')
TRUSTED = ['numpy float64 arithmetic (dot products, sqrt, mean, the product '
           'bootstrap_factor*n_markers) and numpy.log2: compared to 1e-9, '
           'not proved',
           'tie tolerance: an argmax of the code is accepted iff its exact '
           'correlation is within 1e-9 of the exact optimum']
ASSUMPTIONS = ['bootstrap_iteration >= 1 (votes/0 is outside the model)',
               'the correlation value of a winning leaf enters the model as '
               'data (irrational in general); its range and the decision '
               'are proved on the signed squared correlation']

SIG = 'C02'


# ---------------------------------------------------------------------------
# unit level
# ---------------------------------------------------------------------------

TYPE_POOL = ['b', 'a', 'B', 'a10', 'a2', 'c d', 'Z', '10', '9', 'aa', 'é']


def gen_unit(rng, i):
    n_leaves = rng.randint(2, 8) if i % 5 else rng.randint(2, 3)
    n_genes = rng.randint(3, 14) if i % 7 else rng.randint(1, 3)
    flat = (i % 6 == 3)
    if flat:
        # room for cancellation in one-pass variance formulas
        n_genes = rng.randint(8, 40)
    n_cells = rng.randint(1, 5)
    style = rng.choice(['float', 'float', 'int', 'dyadic'])

    def val():
        if style == 'float':
            return rng.random() * 6.0
        if style == 'int':
            return float(rng.randint(0, 3))
        return rng.randint(0, 24) / 4.0

    refs = [[val() for _ in range(n_genes)] for _ in range(n_leaves)]
    query = [[val() for _ in range(n_genes)] for _ in range(n_cells)]
    label = [style]
    # aimed rows
    for c in range(n_cells):
        u = rng.random()
        j = rng.randrange(n_leaves)
        if u < 0.10:
            query[c] = [0.0] * n_genes
            label.append('const-query')
        elif u < 0.15:
            query[c] = [2.5] * n_genes
            label.append('const-query')
        elif u < 0.30:
            query[c] = list(refs[j])
            label.append('query=centroid')
        elif u < 0.40:
            query[c] = [2.0 * v + 1.0 for v in refs[j]]
            label.append('affine+')
        elif u < 0.47:
            query[c] = [7.0 - 0.5 * v for v in refs[j]]
            label.append('affine-')
    if rng.random() < 0.2:
        refs[rng.randrange(n_leaves)] = [1.0] * n_genes
        label.append('const-centroid')
    if flat:
        import math
        vals = [0.1, 1.0 / 3.0, 7.3, math.log2(1.0 + 1.0e6 / rng.randint(2, 5000)),
                math.log2(1.0 + 1.0e6 / rng.randint(2, 40))]
        for c in range(n_cells):
            v = rng.choice(vals)
            query[c] = [v] * n_genes
            if rng.random() < 0.4:
                # constant on most drawn subsets only
                for _ in range(rng.randint(1, 2)):
                    query[c][rng.randrange(n_genes)] = val()
        if i % 12 == 3:
            # flat CLUSTER profile instead of flat cells (both at once is the
            # proposed finding C02-flat-cell-vs-flat-cluster: two constant rows
            # with inexact float means correlate at +-1 in the code)
            query = [[val() for _ in range(n_genes)] for _ in range(n_cells)]
            refs[rng.randrange(n_leaves)] = [rng.choice(vals)] * n_genes
        else:
            refs = [r if len(set(r)) > 1 else [val() for _ in r] for r in refs]
        label.append('flat-nonzero')
    if rng.random() < 0.25 and n_leaves > 2:
        a, b = rng.sample(range(n_leaves), 2)
        refs[b] = list(refs[a])
        label.append('dup-centroid')
    # leaf -> child
    k = rng.randint(1, n_leaves) if rng.random() < 0.7 else n_leaves
    names = rng.sample(TYPE_POOL, k)
    types = list(names) + [rng.choice(names) for _ in range(n_leaves - k)]
    rng.shuffle(types)
    u = rng.random()
    if u < 0.15:
        factor = 1.0
    elif u < 0.30:
        factor = 0.5
    elif u < 0.40:
        factor = 1.0 / n_genes
    elif u < 0.50:
        factor = (rng.randint(0, n_genes - 1) + 0.5) / n_genes
    elif u < 0.55:
        factor = 0.01
    else:
        factor = rng.uniform(0.05, 1.0)
    return {'kind': 'unit', 'refs': refs, 'query': query, 'types': types,
            'factor': factor, 'iters': rng.randint(1, 12) if i % 4
            else rng.randint(1, 2),
            'n_assign': rng.randint(1, len(set(types)) + 2),
            'seed': rng.randrange(2 ** 31), 'label': sorted(set(label))}


def gen_malformed(rng, i):
    case = gen_unit(rng, i + 1)
    which = i % 6
    if which == 0:
        case['factor'] = 1.0 + rng.uniform(0.3, 2.0)
        case['label'] = ['factor>1']
    elif which == 1:
        case['factor'] = -rng.uniform(0.0, 2.0)
        case['label'] = ['factor<=0']
    elif which == 2:
        case['n_assign'] = 0
        case['label'] = ['n_assign=0']
    elif which == 3:
        case['refs'] = []
        case['types'] = []
        case['label'] = ['no-reference']
    elif which == 4:
        case['factor'] = 0.0
        case['label'] = ['factor=0']
    else:
        # no marker genes at all: every correlation is 0, leaf 0 wins
        case['refs'] = [[] for _ in case['refs']]
        case['query'] = [[] for _ in case['query']]
        case['label'] = ['zero-genes']
    return case


def classify(e):
    msg = str(e)
    if isinstance(e, ValueError) and 'larger sample' in msg:
        return 'sampleTooLarge'
    if isinstance(e, ValueError) and 'negative dimensions' in msg:
        return 'negativeSample'
    if isinstance(e, ValueError) and 'empty sequence' in msg:
        return 'noReference'
    if isinstance(e, IndexError):
        return 'indexError'
    return 'other:%s' % type(e).__name__


def nontrivial_unit(case):
    return len(set(case['types'])) >= 2 and len(case['refs']) >= 2 and \
        len(case['refs'][0]) >= 2


def check_unit(ctx, case):
    from cell_type_mapper.type_assignment import election
    from cell_type_mapper.utils import distance_utils
    refs = np.array(case['refs'], dtype=float)
    query = np.array(case['query'], dtype=float)
    n_genes = query.shape[1]
    if refs.size == 0:
        refs = refs.reshape(0, n_genes)
    n_leaves = refs.shape[0]
    types = list(case['types'])
    factor, iters, n_assign = case['factor'], case['iters'], case['n_assign']
    for lb in case['label']:
        ctx.count('unit:' + lb)
    ctx.case(json.dumps(case, sort_keys=True) if nontrivial_unit(case)
             else None, sample={k: case[k] for k in
                                ('label', 'types', 'factor', 'iters',
                                 'n_assign')})

    def violation(cls, what, found=True, **extra):
        d = dict(case)
        d.update(extra)
        if not found:
            d['broken'] = what
        ctx.violation('%s/unit/%s' % (SIG, cls), what, d, found_input=found)

    # ---- the real tally
    rr = eu.RecordingRng(case['seed'])
    impl_err = None
    with np.errstate(all='ignore'):
        try:
            votes, corr_sum = election.tally_votes(
                query_gene_data=query, reference_gene_data=refs,
                bootstrap_factor=factor, bootstrap_iteration=iters, rng=rr)
        except Exception as e:   # noqa
            impl_err = classify(e)
    ctx.count('tally:' + (impl_err or 'ok'))
    msize = None
    if ctx.driver_ok:
        msize = ctx.model('election.bootstrapSize', {
            'flProd': eu.rat(float(factor) * n_genes), 'n': n_genes})
    want_size = eu.expected_subset_size(factor, n_genes)
    if impl_err is not None:
        # rejection path: the model must raise the same class
        if ctx.driver_ok:
            merr = msize.get('err')
            if merr is None and n_leaves == 0:
                merr = 'noReference'
            if merr != impl_err:
                ctx.disagreements_checked += 1
                violation('correspondence/tally-error/impl=%s/model=%s'
                          % (impl_err, merr),
                          'correspondence CTM.Election.tallyVotes ~ '
                          'tally_votes (error class)', found=False)
        return
    # the code sorts each draw before using it (np.sort(chosen_idx))
    subsets = [sorted(map(int, s)) for s in rr.draws]
    # ---- predicate: the subsets
    if len(subsets) != iters:
        violation('subset/count', '%d subsets drawn for %d iterations'
                  % (len(subsets), iters))
        return
    if 0.0 < factor <= 1.0:
        for s in subsets:
            p = eu.subset_problems(s, n_genes, want_size)
            if p:
                violation('subset/' + p[0].split(' ')[0],
                          'bootstrap subset %r of %d markers (factor %r): %s'
                          % (s, n_genes, factor, p), subset=s)
                return
    if ctx.driver_ok:
        if 'ok' not in msize or any(len(s) != msize['ok'] for s in subsets):
            ctx.disagreements_checked += 1
            violation('correspondence/bootstrapSize',
                      'correspondence CTM.Numeric.bootstrapSize ~ '
                      'tally_votes n_bootstrap', found=False,
                      model=msize, sizes=[len(s) for s in subsets])
        else:
            ok = ctx.model('election.subsetOk', {
                'n': n_genes, 'size': msize['ok'], 'subsets': subsets})
            if not all(ok):
                ctx.disagreements_checked += 1
                violation('correspondence/subsetOk',
                          'correspondence CTM.Numeric.subsetOk ~ traced '
                          'subsets', found=False, subsets=subsets)
    # ---- per iteration: the real nearest neighbour on the subset
    nn = []
    cc = []
    with np.errstate(all='ignore'):
        for s in subsets:
            a, b = distance_utils.correlation_nearest_neighbors(
                baseline_array=refs[:, s], query_array=query[:, s],
                return_correlation=True)
            nn.append([int(v) for v in a])
            cc.append([float(v) for v in b])
    mv = None
    if ctx.driver_ok:
        mv = ctx.model('election.cellVotes', {
            'refs': [eu.rats(r) for r in refs.tolist()],
            'xs': [eu.rats(r) for r in query.tolist()],
            'subsets': subsets})
    n_amb = 0
    for c in range(query.shape[0]):
        for it, s in enumerate(subsets):
            ctx.evaluations += 1
            if eu.fragile_constant(query[c, s]) or \
                    eu.fragile_constant(refs[:, s]):
                # a constant row whose float mean is inexact: the exact
                # correlation is 0 (norm := 1 rule); the code's value is
                # rounding noise around 0 and must be finite
                ctx.count('unit:fragile-constant-row')
            if not np.isfinite(cc[it][c]):
                violation('nearest/corr-not-finite',
                          'cell %d iteration %d: reported correlation %r '
                          '(query row on the subset: %r)'
                          % (c, it, cc[it][c], query[c, s].tolist()),
                          cell=c, subset=s)
                return
            if np.ptp(query[c, s]) == 0 and abs(cc[it][c]) > eu.REL:
                violation('nearest/constant-row-not-zero',
                          'cell %d iteration %d: constant row, reported '
                          'correlation %r' % (c, it, cc[it][c]), cell=c,
                          subset=s)
                return
            fr = eu.float_corr(refs[:, s], query[c, s])
            j = nn[it][c]
            if not (0 <= j < n_leaves):
                violation('nearest/index', 'nearest neighbour index %d' % j)
                return
            if fr[j] < fr.max() - eu.REL:
                violation('nearest/not-argmax',
                          'cell %d iteration %d: voted leaf %d with '
                          'correlation %r, leaf %d has %r'
                          % (c, it, j, fr[j], int(fr.argmax()), fr.max()),
                          cell=c, subset=s)
                return
            if abs(cc[it][c] - fr[j]) > eu.REL:
                violation('nearest/corr-value',
                          'cell %d iteration %d: reported correlation %r, '
                          'Pearson is %r' % (c, it, cc[it][c], fr[j]),
                          cell=c, subset=s)
                return
            if mv is not None:
                m = mv[c][it]
                if 'err' in m:
                    ctx.disagreements_checked += 1
                    violation('correspondence/tallyIter-error',
                              'correspondence CTM.Election.tallyIter ~ '
                              'tally_votes', found=False, model=m)
                    return
                sc = [eu.ssq_to_r(eu.frac(q)) for q in m['scores']]
                # float recomputation against the exact one
                if max(abs(a - b) for a, b in zip(sc, fr)) > eu.REL:
                    ctx.disagreements_checked += 1
                    violation('correspondence/corrSsq',
                              'correspondence CTM.Numeric.corrSsq ~ Pearson '
                              '(float recomputation)', found=False,
                              exact=sc, float=fr.tolist(), subset=s)
                    return
                if m['idx'] != j:
                    ctx.disagreements_checked += 1
                    if sc[j] < max(sc) - eu.REL:
                        violation('correspondence/nearestLeaf',
                                  'correspondence CTM.Numeric.nearestLeaf ~ '
                                  'correlation_nearest_neighbors',
                                  found=False, cell=c, subset=s, model=m,
                                  impl=j)
                        return
                    n_amb += 1
    ctx.count('unit:near-tie-votes', n_amb)
    # ---- predicate: votes are the count, corr_sum the sum
    want_votes = np.zeros((query.shape[0], n_leaves), dtype=int)
    want_corr = np.zeros((query.shape[0], n_leaves), dtype=float)
    for it in range(iters):
        for c in range(query.shape[0]):
            want_votes[c, nn[it][c]] += 1
            want_corr[c, nn[it][c]] += cc[it][c]
    if not np.array_equal(np.asarray(votes).astype(int), want_votes) or \
            not np.allclose(corr_sum, want_corr, rtol=eu.REL, atol=eu.REL):
        violation('tally/count',
                  'votes/corr_sum are not the count/sum of the per-iteration '
                  'nearest neighbours', votes=np.asarray(votes).tolist(),
                  want=want_votes.tolist())
        return
    if ctx.driver_ok:
        for c in range(query.shape[0]):
            out = ctx.model('election.tallyCell', {
                'nLeaves': n_leaves,
                'rows': [[nn[it][c], eu.rat(cc[it][c])]
                         for it in range(iters)]})
            if out['votes'] != [int(v) for v in votes[c]] or any(
                    not eu.near(float(eu.frac(a)), float(b), ab=eu.REL)
                    for a, b in zip(out['corrSum'], corr_sum[c])):
                ctx.disagreements_checked += 1
                violation('correspondence/tallyCell',
                          'correspondence CTM.Election.tallyCell ~ '
                          'tally_votes', found=False, model=out, cell=c)
                return
    ctx.traces += 1
    # ---- aggregate_votes directly
    agg_v, agg_c, agg_t = election.aggregate_votes(
        vote_array=votes, correlation_array=corr_sum,
        reference_types=list(types))
    agg_t = [str(t) for t in agg_t]
    if agg_t != sorted(set(types)):
        violation('aggregate/types', 'aggregate_votes types %r' % agg_t)
        return
    for c in range(query.shape[0]):
        dv, dc = eu.tally_by_child(types, votes[c], corr_sum[c])
        if [int(v) for v in agg_v[c]] != [dv[t] for t in agg_t] or any(
                not eu.near(float(a), dc[t], ab=eu.REL)
                for a, t in zip(agg_c[c], agg_t)):
            violation('aggregate/sum',
                      'aggregate_votes: a child does not get the sum of '
                      'its leaves', cell=c)
            return
        if ctx.driver_ok:
            tid = {t: i for i, t in enumerate(sorted(set(types)))}
            out = ctx.model('election.aggregate', {
                'types': [tid[t] for t in types],
                'votes': [int(v) for v in votes[c]],
                'corr': eu.rats(corr_sum[c])})
            if out['votes'] != [int(v) for v in agg_v[c]] or \
                    out['types'] != list(range(len(agg_t))) or any(
                    not eu.near(float(eu.frac(a)), float(b), ab=eu.REL)
                    for a, b in zip(out['corr'], agg_c[c])):
                ctx.disagreements_checked += 1
                violation('correspondence/aggregateVotes',
                          'correspondence CTM.Election.aggregateVotes ~ '
                          'aggregate_votes', found=False, model=out, cell=c)
                return
    # ---- choose_node with the same stream
    rr2 = eu.RecordingRng(case['seed'])
    cn_err = None
    with np.errstate(all='ignore'):
        try:
            (res, probs, avg, runners) = election.choose_node(
                query_gene_data=query, reference_gene_data=refs,
                reference_types=list(types), bootstrap_factor=factor,
                bootstrap_iteration=iters, rng=rr2, n_assignments=n_assign)
        except Exception as e:   # noqa
            cn_err = classify(e)
    ctx.count('choose:' + (cn_err or 'ok'))
    if cn_err is None and [sorted(map(int, s)) for s in rr2.draws] != subsets:
        violation('choose/stream', 'choose_node consumed a different '
                  'random stream than tally_votes', found=False)
        return
    tid = {t: i for i, t in enumerate(sorted(set(types)))}
    for c in range(query.shape[0]):
        dv, dc = eu.tally_by_child(types, votes[c], corr_sum[c])
        mcols = None
        if ctx.driver_ok:
            mcols = ctx.model('election.columns', {
                'types': [tid[t] for t in types],
                'votes': [int(v) for v in votes[c]],
                'corr': eu.rats(corr_sum[c])})
        if cn_err is not None:
            if n_assign >= 1:
                violation('choose/raises', 'choose_node raised %s' % cn_err)
                return
            if ctx.driver_ok:
                out = ctx.model('election.choose', {
                    'types': [tid[t] for t in types],
                    'votes': [int(v) for v in votes[c]],
                    'corr': eu.rats(corr_sum[c]), 'iters': iters,
                    'nAssign': n_assign,
                    'order': list(range(len(mcols['types'])))})
                if out.get('err') != cn_err:
                    ctx.disagreements_checked += 1
                    violation('correspondence/choose-error',
                              'correspondence CTM.Election.chooseCell ~ '
                              'choose_node (error class)', found=False,
                              model=out, impl=cn_err)
            return
        ctx.evaluations += 1
        winner = str(res[c])
        tuples = runners[c]
        kept = [t for t in tuples if t[1]]
        p = eu.check_choice(
            dv, dc, iters, n_assign - 1, winner, float(probs[c]),
            float(avg[c]), [str(t[0]) for t in kept],
            [float(t[2]) for t in kept], [float(t[3]) for t in kept])
        # raw tuples: n_assign-1 listed (or all other children), flags
        want_n = min(n_assign, len(dv)) - 1
        if len(tuples) != want_n:
            p.append(('tuple-count', '%d runner-up tuples, %d expected'
                      % (len(tuples), want_n)))
        for t in tuples:
            if str(t[0]) in dv and bool(t[1]) != (dv[str(t[0])] > 0):
                p.append(('tuple-flag', 'runner-up flag of %r wrong'
                          % (t[0],)))
        if p:
            violation('choose/' + p[0][0],
                      'cell %d: %s' % (c, p), cell=c, child_votes=dv,
                      winner=winner, prob=float(probs[c]),
                      runners=[[str(t[0]), bool(t[1]), float(t[2]),
                                float(t[3])] for t in tuples])
            return
        if ctx.driver_ok:
            col_types = mcols['types']
            names = sorted(set(types))
            listed = [tid[winner]] + [tid[str(t[0])] for t in tuples]
            order = eu.order_from_output(col_types, mcols['votes'], listed)
            out = ctx.model('election.choose', {
                'types': [tid[t] for t in types],
                'votes': [int(v) for v in votes[c]],
                'corr': eu.rats(corr_sum[c]), 'iters': iters,
                'nAssign': n_assign, 'order': order})
            same = 'ok' in out and out['validOrder']
            if same:
                o = out['ok']
                same = (names[o['winner']] == winner and
                        float(eu.frac(o['prob'])) == float(probs[c]) and
                        eu.near(float(eu.frac(o['avgCorr'])), float(avg[c]),
                                ab=eu.REL) and
                        len(o['runners']) == len(tuples) and all(
                            names[m['type']] == str(t[0]) and
                            m['valid'] == bool(t[1]) and
                            float(eu.frac(m['prob'])) == float(t[3]) and
                            eu.near(float(eu.frac(m['avgCorr'])),
                                    float(t[2]), ab=eu.REL)
                            for m, t in zip(o['runners'], tuples)))
            if not same:
                ctx.disagreements_checked += 1
                violation('correspondence/chooseCell',
                          'correspondence CTM.Election.chooseCell ~ '
                          'choose_node', found=False, model=out, cell=c,
                          order=order)
                return
    # ---- cpm on the query rows (raw counts -> CPM), exact vs float
    from cell_type_mapper.cell_by_gene.utils import convert_to_cpm
    raw = np.floor(np.abs(query) * 3.0)
    # also rows that are not counts: sums strictly between 0 and 1, and empty
    for c in range(raw.shape[0]):
        if (case['seed'] + c) % 3 == 0 and raw[c].sum() > 0:
            raw[c] = raw[c] / raw[c].sum() * [0.7, 0.05, 1e-4][c % 3]
        elif (case['seed'] + c) % 3 == 1 and c % 2:
            raw[c] = 0.0
    got = convert_to_cpm(raw)
    if not np.all(np.isfinite(got)):
        violation('cpm/not-finite', 'convert_to_cpm returns non-finite values '
                  'for rows %r' % (raw.tolist(),))
        return
    for c in range(raw.shape[0]):
        s = raw[c].sum()
        want = raw[c] / (s if s > 0 else 1.0) * 1.0e6
        if not np.allclose(got[c], want, rtol=1e-12, atol=0):
            violation('cpm/value', 'convert_to_cpm row %d' % c, cell=c)
            return
        if ctx.driver_ok:
            out = ctx.model('election.cpm', {'row': eu.rats(raw[c])})
            if any(not eu.near(float(eu.frac(a)), float(b), rel=1e-12, ab=0)
                   for a, b in zip(out, got[c])):
                ctx.disagreements_checked += 1
                violation('correspondence/cpm',
                          'correspondence CTM.Numeric.cpm ~ convert_to_cpm',
                          found=False, cell=c)
                return


# ---------------------------------------------------------------------------
# many iterations: the vote counter crosses the integer-width boundaries
# (uint8 255/256, uint16 65535/65536)
# ---------------------------------------------------------------------------

def gen_many(rng, iters, with_choose=True):
    n_leaves = rng.randint(2, 3)
    n_genes = rng.randint(3, 5)
    refs = [[float(rng.randint(0, 9)) + rng.random() for _ in range(n_genes)]
            for _ in range(n_leaves)]
    # confidently mapped cells: copies / affine images of a centroid
    query = []
    for _ in range(rng.randint(1, 2)):
        j = rng.randrange(n_leaves)
        query.append([2.0 * v + 1.0 for v in refs[j]]
                     if rng.random() < 0.5 else list(refs[j]))
    names = rng.sample(TYPE_POOL, n_leaves)
    if n_leaves == 3 and rng.random() < 0.5:
        names[2] = names[0]
    return {'kind': 'unit-many', 'refs': refs, 'query': query,
            'types': names, 'factor': rng.choice([1.0, 1.0, 0.7]),
            'iters': iters, 'n_assign': rng.randint(1, 4),
            'seed': rng.randrange(2 ** 31), 'with_choose': with_choose,
            'label': ['iters-%d' % iters]}


def check_many(ctx, case):
    """tally_votes / choose_node with hundreds .. 65536 iterations; the
    per-iteration work is cached per distinct subset (the nearest neighbour
    is a function of the subset)"""
    from cell_type_mapper.type_assignment import election
    from cell_type_mapper.utils import distance_utils
    from props import c03
    refs = np.array(case['refs'], dtype=float)
    query = np.array(case['query'], dtype=float)
    n_cells, n_genes = query.shape
    n_leaves = refs.shape[0]
    types = list(case['types'])
    factor, iters, n_assign = case['factor'], case['iters'], case['n_assign']
    ctx.count('many:iters-%d' % iters)
    ctx.case(json.dumps(case, sort_keys=True), sample={
        k: case[k] for k in ('label', 'types', 'factor', 'iters',
                             'n_assign')})

    def violation(cls, what, found=True, **extra):
        d = dict(case)
        d.update(extra)
        if not found:
            d['broken'] = what
        ctx.violation('%s/many/%s' % (SIG, cls), what, d, found_input=found)

    rr = eu.RecordingRng(case['seed'])
    with np.errstate(all='ignore'):
        votes, corr_sum = election.tally_votes(
            query_gene_data=query, reference_gene_data=refs,
            bootstrap_factor=factor, bootstrap_iteration=iters, rng=rr)
    subsets = [tuple(sorted(map(int, s))) for s in rr.draws]
    size = eu.expected_subset_size(factor, n_genes)
    if len(subsets) != iters:
        violation('subset/count', '%d subsets for %d iterations'
                  % (len(subsets), iters))
        return
    mult = {}
    for s in subsets:
        mult[s] = mult.get(s, 0) + 1
    want_votes = np.zeros((n_cells, n_leaves), dtype=np.int64)
    want_corr = np.zeros((n_cells, n_leaves), dtype=float)
    distinct = sorted(mult)
    mv = None
    if ctx.driver_ok:
        mv = ctx.model('election.cellVotes', {
            'refs': [eu.rats(r) for r in refs.tolist()],
            'xs': [eu.rats(r) for r in query.tolist()],
            'subsets': [list(s) for s in distinct]})
    for si, s in enumerate(distinct):
        p = eu.subset_problems(list(s), n_genes, size)
        if p:
            violation('subset/' + p[0].split(' ')[0], 'subset %r: %s'
                      % (s, p))
            return
        cols = list(s)
        with np.errstate(all='ignore'):
            a, b = distance_utils.correlation_nearest_neighbors(
                baseline_array=refs[:, cols], query_array=query[:, cols],
                return_correlation=True)
        for c in range(n_cells):
            ctx.evaluations += 1
            fr = eu.float_corr(refs[:, cols], query[c, cols])
            j = int(a[c])
            if fr[j] < fr.max() - eu.REL or abs(float(b[c]) - fr[j]) > eu.REL:
                violation('nearest/not-argmax', 'cell %d subset %r: leaf %d '
                          'corr %r, recomputed %r' % (c, s, j, float(b[c]),
                                                      fr.tolist()))
                return
            if mv is not None:
                m = mv[c][si]
                sc = [eu.ssq_to_r(eu.frac(q)) for q in m['scores']]
                if max(abs(x - y) for x, y in zip(sc, fr)) > eu.REL or (
                        m['idx'] != j and sc[j] < max(sc) - eu.REL):
                    ctx.disagreements_checked += 1
                    violation('correspondence/nearestLeaf',
                              'correspondence CTM.Numeric.nearestLeaf ~ '
                              'correlation_nearest_neighbors', found=False,
                              model=m, impl=j)
                    return
            want_votes[c, j] += mult[s]
            want_corr[c, j] += mult[s] * float(b[c])
    # every iteration casts exactly one vote per cell; the counters hold it
    got = np.asarray(votes).astype(np.int64)
    if not np.array_equal(got, want_votes) or \
            not np.allclose(corr_sum, want_corr, rtol=1e-9, atol=1e-9):
        violation('tally/count',
                  '%d iterations: votes %r (dtype %s), the per-iteration '
                  'nearest neighbours give %r'
                  % (iters, got.tolist(), np.asarray(votes).dtype,
                     want_votes.tolist()), votes=got.tolist(),
                  want=want_votes.tolist())
        return
    if ctx.driver_ok and iters <= 1000:
        # tallyCell on the rows in iteration order (cached per subset)
        per = {}
        for s in distinct:
            cols = list(s)
            with np.errstate(all='ignore'):
                a, b = distance_utils.correlation_nearest_neighbors(
                    baseline_array=refs[:, cols], query_array=query[:, cols],
                    return_correlation=True)
            per[s] = (a, b)
        for c in range(n_cells):
            out = ctx.model('election.tallyCell', {
                'nLeaves': n_leaves,
                'rows': [[int(per[s][0][c]), eu.rat(float(per[s][1][c]))]
                         for s in subsets]})
            if out['votes'] != want_votes[c].tolist():
                ctx.disagreements_checked += 1
                violation('correspondence/tallyCell',
                          'correspondence CTM.Election.tallyCell ~ '
                          'tally_votes', found=False, model=out['votes'])
                return
    ctx.traces += 1
    if not case.get('with_choose', True):
        return
    rr2 = eu.RecordingRng(case['seed'])
    with np.errstate(all='ignore'):
        (res, probs, avg, runners) = election.choose_node(
            query_gene_data=query, reference_gene_data=refs,
            reference_types=list(types), bootstrap_factor=factor,
            bootstrap_iteration=iters, rng=rr2, n_assignments=n_assign)
    names = sorted(set(types))
    tid = {t: i for i, t in enumerate(names)}
    for c in range(n_cells):
        ctx.evaluations += 1
        dv, dc = eu.tally_by_child(types, want_votes[c], want_corr[c])
        kept = [t for t in runners[c] if t[1]]
        ra = [str(t[0]) for t in kept]
        rc = [float(t[2]) for t in kept]
        rp = [float(t[3]) for t in kept]
        p = eu.check_choice(dv, dc, iters, n_assign - 1, str(res[c]),
                            float(probs[c]), float(avg[c]), ra, rc, rp)
        p += c03.contract_problems(types, dv, iters, n_assign, str(res[c]),
                                   float(probs[c]), float(avg[c]), ra, rc,
                                   rp)
        if p:
            violation('choose/' + p[0][0], 'cell %d, %d iterations: %s'
                      % (c, iters, p[:4]), cell=c, child_votes=dv,
                      winner=str(res[c]), prob=float(probs[c]),
                      avg=float(avg[c]))
            return
        if ctx.driver_ok:
            mt = [tid[t] for t in types]
            cols = ctx.model('election.columns', {
                'types': mt, 'votes': want_votes[c].tolist(),
                'corr': eu.rats(want_corr[c])})
            listed = [tid[str(res[c])]] + [tid[str(t[0])]
                                           for t in runners[c]]
            order = eu.order_from_output(cols['types'], cols['votes'],
                                         listed)
            out = ctx.model('election.choose', {
                'types': mt, 'votes': want_votes[c].tolist(),
                'corr': eu.rats(want_corr[c]), 'iters': iters,
                'nAssign': n_assign, 'order': order})
            same = 'ok' in out and out['validOrder'] and \
                names[out['ok']['winner']] == str(res[c]) and \
                float(eu.frac(out['ok']['prob'])) == float(probs[c]) and \
                eu.near(float(eu.frac(out['ok']['avgCorr'])), float(avg[c]),
                        ab=eu.REL) and \
                [names[x] for x in out['ok']['kept']['assignment']] == ra \
                and [float(eu.frac(x))
                     for x in out['ok']['kept']['probability']] == rp
            if not same:
                ctx.disagreements_checked += 1
                violation('correspondence/chooseCell',
                          'correspondence CTM.Election.chooseCell ~ '
                          'choose_node (many iterations)', found=False,
                          model=out, cell=c)
                return


# ---------------------------------------------------------------------------
# many query rows in one election (row batching inside
# correlation_nearest_neighbors: 10000-row boundaries)
# ---------------------------------------------------------------------------

def gen_rows(rng, n_query):
    return {'kind': 'unit-rows', 'n_query': n_query,
            'n_genes': rng.randint(3, 6), 'n_refs': rng.randint(2, 4),
            'iters': rng.randint(1, 2), 'factor': rng.choice([1.0, 0.7]),
            'seed': rng.randrange(2 ** 31), 'label': ['rows-%d' % n_query]}


def rows_arrays(case):
    g = np.random.default_rng(case['seed'])
    refs = g.random((case['n_refs'], case['n_genes'])) * 6.0
    query = g.random((case['n_query'], case['n_genes'])) * 6.0
    # some rows are copies of a centroid
    pick = g.integers(0, case['n_refs'], case['n_query'])
    copy = g.random(case['n_query']) < 0.2
    query[copy] = refs[pick[copy]]
    names = ['t%d' % i for i in range(case['n_refs'])]
    if case['n_refs'] > 2:
        names[-1] = names[0]
    return refs, query, names


def slice_corr(refs, query, step=997):
    """Pearson correlation of every query row with every reference row,
    from the definition, in small slices: (n_query, n_refs)"""
    rc = refs - refs.mean(axis=1, keepdims=True)
    rn = np.sqrt((rc * rc).sum(axis=1))
    out = np.zeros((query.shape[0], refs.shape[0]))
    for r0 in range(0, query.shape[0], step):
        q = query[r0:r0 + step]
        qc = q - q.mean(axis=1, keepdims=True)
        qn = np.sqrt((qc * qc).sum(axis=1))
        den = np.outer(qn, rn)
        num = qc @ rc.T
        with np.errstate(all='ignore'):
            out[r0:r0 + step] = np.where(den > 0, num / np.where(
                den > 0, den, 1.0), 0.0)
    return out


def check_rows(ctx, case):
    from cell_type_mapper.type_assignment import election
    from cell_type_mapper.utils import distance_utils
    refs, query, types = rows_arrays(case)
    n = query.shape[0]
    iters, factor = case['iters'], case['factor']
    ctx.count('rows:%d' % n)
    ctx.case(json.dumps(case, sort_keys=True), sample=case)

    def violation(cls, what, found=True, **extra):
        d = dict(case)
        d.update(extra)
        if not found:
            d['broken'] = what
        ctx.violation('%s/rows/%s' % (SIG, cls), what, d, found_input=found)

    with np.errstate(all='ignore'):
        idx, val = distance_utils.correlation_nearest_neighbors(
            baseline_array=refs, query_array=query, return_correlation=True)
    idx = np.asarray(idx).astype(int)
    val = np.asarray(val, dtype=float)
    want = slice_corr(refs, query)
    ctx.evaluations += n
    rows = np.arange(n)
    if idx.shape != (n,) or idx.min() < 0 or idx.max() >= refs.shape[0]:
        violation('nearest/index', 'neighbour indices malformed')
        return
    bad = np.where((want[rows, idx] < want.max(axis=1) - eu.REL) |
                   (np.abs(val - want[rows, idx]) > eu.REL))[0]
    if len(bad):
        r = int(bad[0])
        violation('nearest/not-argmax',
                  'query row %d of %d: neighbour %d with reported '
                  'correlation %r; correlations are %r (%d rows wrong, '
                  'first %d last %d)' % (r, n, idx[r], float(val[r]),
                                         want[r].tolist(), len(bad),
                                         int(bad[0]), int(bad[-1])),
                  row=r, query_row=query[r].tolist(), refs=refs.tolist())
        return
    if ctx.driver_ok:
        sample = sorted(set(
            r for r in [0, 1, n - 1, n - 2] + [
                k * 10000 + d for k in range(1, n // 10000 + 1)
                for d in (-1, 0, 1)] + [k * 5000 for k in range(1, 6)]
            if 0 <= r < n))
        out = ctx.model('election.corr', {
            'refs': [eu.rats(r) for r in refs.tolist()],
            'xs': [eu.rats(query[r].tolist()) for r in sample]})
        for r, o in zip(sample, out):
            sc = [eu.ssq_to_r(eu.frac(q)) for q in o['scores']]
            if max(abs(a - b) for a, b in zip(sc, want[r])) > eu.REL or (
                    o['nearest'] != int(idx[r]) and
                    sc[int(idx[r])] < max(sc) - eu.REL):
                ctx.disagreements_checked += 1
                violation('correspondence/nearestLeaf',
                          'correspondence CTM.Numeric.nearestLeaf ~ '
                          'correlation_nearest_neighbors (row %d of %d)'
                          % (r, n), found=False, model=o, impl=int(idx[r]))
                return
    # tally_votes / choose_node over the same rows
    rr = eu.RecordingRng(case['seed'])
    with np.errstate(all='ignore'):
        votes, corr_sum = election.tally_votes(
            query_gene_data=query, reference_gene_data=refs,
            bootstrap_factor=factor, bootstrap_iteration=iters, rng=rr)
    subsets = [sorted(map(int, s)) for s in rr.draws]
    want_votes = np.zeros((n, refs.shape[0]), dtype=np.int64)
    want_corr = np.zeros((n, refs.shape[0]))
    ambiguous = np.zeros(n, dtype=bool)
    for s in subsets:
        w = slice_corr(refs[:, s], query[:, s])
        j = w.argmax(axis=1)
        srt = np.sort(w, axis=1)
        ambiguous |= (srt[:, -1] - srt[:, -2] <= eu.REL)
        want_votes[rows, j] += 1
        want_corr[rows, j] += w[rows, j]
    got = np.asarray(votes).astype(np.int64)
    ok = ~ambiguous
    ctx.evaluations += n
    badr = np.where(ok & ((got != want_votes).any(axis=1) | (
        np.abs(corr_sum - want_corr) > eu.REL).any(axis=1)))[0]
    if (got.sum(axis=1) != iters).any() or len(badr):
        r = int(badr[0]) if len(badr) else int(
            np.where(got.sum(axis=1) != iters)[0][0])
        violation('tally/count', 'query row %d of %d: votes %r, recomputed '
                  '%r (%d rows wrong)' % (r, n, got[r].tolist(),
                                          want_votes[r].tolist(), len(badr)),
                  row=r, subsets=subsets)
        return
    rr2 = eu.RecordingRng(case['seed'])
    with np.errstate(all='ignore'):
        res, probs, avg, runners = election.choose_node(
            query_gene_data=query, reference_gene_data=refs,
            reference_types=list(types), bootstrap_factor=factor,
            bootstrap_iteration=iters, rng=rr2, n_assignments=2)
    names = sorted(set(types))
    child_votes = np.zeros((n, len(names)), dtype=np.int64)
    for k, t in enumerate(types):
        child_votes[:, names.index(t)] += want_votes[:, k]
    widx = np.array([names.index(str(t)) for t in res])
    ctx.evaluations += n
    wv = child_votes[rows, widx]
    badc = np.where(ok & ((wv != child_votes.max(axis=1)) |
                          (np.asarray(probs) != wv / iters)))[0]
    if len(badc):
        r = int(badc[0])
        violation('choose/winner-not-plurality',
                  'query row %d of %d: winner %r probability %r, child '
                  'votes %r (%d rows wrong)'
                  % (r, n, str(res[r]), float(probs[r]),
                     dict(zip(names, child_votes[r].tolist())), len(badc)),
                  row=r)
        return
    ctx.traces += 1
    ctx.count('rows:ambiguous', int(ambiguous.sum()))


def check_big_pipeline(ctx, case):
    """~12000 cells through run_mapping with one 12000-cell chunk and with
    4000-cell chunks (factor 1: every subset is the whole marker list, so the
    result does not depend on the random stream): identical on cell id, and the
    first-level assignment recomputed from the files for every cell"""
    from ctmverif import pipeline
    g = np.random.default_rng(case['seed'])
    import random as _random
    prng = _random.Random(case['seed'])
    tree = ep.gen_tree(prng, 2, max_leaves=5)
    tv = eu.TreeView(tree)
    genes = ['g%d' % i for i in range(case['n_genes'])]
    leaf_n = {l: 2 for l in tv.leaves}
    leaf_sum = {l: g.random(case['n_genes']) * 12.0 for l in tv.leaves}
    X = g.random((case['n_cells'], case['n_genes'])) * 6.0
    cell_ids = ['c%d' % i for i in range(case['n_cells'])]
    qgenes = list(genes)
    prng.shuffle(qgenes)
    markers = {p: list(genes) for p in ['None'] + [
        '%s/%s' % (tree['hierarchy'][0], nd)
        for nd in tree[tree['hierarchy'][0]]]}
    ctx.count('big-pipeline')

    def violation(cls, what, found=True, **extra):
        d = dict(case)
        d.update(extra)
        ctx.violation('%s/big-pipeline/%s' % (SIG, cls), what, d,
                      found_input=found)

    outs = {}
    with pipeline.workdir() as d:
        stats = pipeline.write_stats_file(d / 'stats.h5', tree, genes,
                                          leaf_sum, leaf_n)
        q = pipeline.write_h5ad(d / 'query.h5ad', X, cell_ids, qgenes)
        (d / 'markers.json').write_text(json.dumps(markers))
        for cs in case['chunk_sizes']:
            sub = d / ('cs%d' % cs)
            sub.mkdir()
            cfg = pipeline.mapping_config(
                q, stats, d / 'markers.json', sub, sub, n_processors=1,
                chunk_size=cs, bootstrap_factor=1.0, bootstrap_iteration=2,
                rng_seed=case['seed'] % 1000, n_runners_up=1,
                normalization='log2CPM', csv=False)
            res = pipeline.run_mapping(cfg)
            if not res['ok'] or res['json'] is None:
                violation('run-fails', 'run_mapping failed with chunk_size '
                          '%d: %r' % (cs, res['error']))
                return
            outs[cs] = {r['cell_id']: r for r in res['json']['results']}
    h = tree['hierarchy']
    # recompute the top-level choice of every cell from the inputs
    leaves = sorted(tv.leaves)
    means = np.array([leaf_sum[l] / leaf_n[l] for l in leaves])
    col = [qgenes.index(x) for x in genes]
    w = slice_corr(means, X[:, col])
    srt = np.sort(w, axis=1)
    clear = (srt[:, -1] - srt[:, -2]) > eu.REL if len(leaves) > 1 else \
        np.ones(len(X), dtype=bool)
    top = [tv.anc[leaves[j]][h[0]] for j in w.argmax(axis=1)]
    n_top = len(tree[h[0]])
    for cs, out in outs.items():
        ctx.evaluations += len(cell_ids)
        if sorted(out) != sorted(cell_ids):
            violation('cells', 'chunk_size %d: result cells differ from '
                      'the query cells' % cs)
            return
        if n_top > 1:
            for i, cid in enumerate(cell_ids):
                r = out[cid][h[0]]
                if clear[i] and (r['assignment'] != top[i] or
                                 r['bootstrapping_probability'] != 1.0):
                    violation('top-level', 'chunk_size %d, cell %r (row %d '
                              'of %d): assigned %r with probability %r, '
                              'nearest leaf is in %r'
                              % (cs, cid, i, len(cell_ids), r['assignment'],
                                 r['bootstrapping_probability'], top[i]),
                              row=i)
                    return
    a, b = [outs[cs] for cs in case['chunk_sizes'][:2]]
    for i, cid in enumerate(cell_ids):
        if not clear[i]:
            continue
        for lv in h:
            ra, rb = a[cid][lv], b[cid][lv]
            if ra['assignment'] != rb['assignment'] or \
                    ra['bootstrapping_probability'] != \
                    rb['bootstrapping_probability'] or not eu.near(
                        ra['avg_correlation'], rb['avg_correlation']):
                violation('chunking-differs', 'cell %r (row %d): level %r '
                          'differs between chunk sizes %r: %r vs %r'
                          % (cid, i, lv, case['chunk_sizes'], ra, rb), row=i)
                return
    ctx.traces += 1
    ctx.case(json.dumps(case, sort_keys=True))


# ---------------------------------------------------------------------------
# same-process history: consecutive problems handed over through the SAME
# paths (marker cache, statistics file), everything driven in this process
# ---------------------------------------------------------------------------

def gen_history(rng, n_steps):
    import copy
    steps = []
    for k in range(n_steps):
        if steps and rng.random() < 0.5:
            # same taxonomy and statistics, revised marker table and a query
            # written in another gene order
            case = copy.deepcopy(steps[-1])
            shared = [g for g in case['ref_genes'] if g in case['query_genes']]
            for key in case['markers']:
                m = rng.randint(min(4, len(shared)), len(shared))
                case['markers'][key] = rng.sample(shared, m)
            perm = list(range(len(case['query_genes'])))
            rng.shuffle(perm)
            case['query_genes'] = [case['query_genes'][j] for j in perm]
            case['X'] = [[rng.random() * 8 for _ in perm] for _ in case['X']]
            case['opts']['rng_seed'] = rng.randrange(2 ** 31)
            case['label'] = ['revised-markers']
        else:
            case = ep.gen_pipeline_case(rng, 3 * k + 1)    # log2CPM flavour
        case['opts']['flatten'] = False
        case['opts']['drop_level'] = None
        case['opts']['normalization'] = 'log2CPM'
        steps.append(case)
    return {'kind': 'history', 'steps': steps}


def check_history(ctx, hist):
    """each step: write statistics file and marker cache to the SAME paths as
    the step before, run the real get_leaf_means / run_type_assignment
    (assemble_query_data, _run_type_assignment, choose_node) in this process,
    recompute from the files as they are now"""
    import os
    from ctmverif import pipeline
    from cell_type_mapper.taxonomy.taxonomy_tree import TaxonomyTree
    from cell_type_mapper.type_assignment import election
    from cell_type_mapper.type_assignment.matching import get_leaf_means
    from cell_type_mapper.type_assignment.marker_cache_v2 import (
        create_marker_cache_from_specified_markers)
    from cell_type_mapper.cell_by_gene.cell_by_gene import CellByGeneMatrix
    import h5py
    import warnings

    def violation(cls, what, k, found=True, **extra):
        d = {'kind': 'history', 'steps': hist['steps'][:k + 1], 'step': k}
        d.update(extra)
        if not found:
            d['broken'] = what
        ctx.violation('%s/history/%s' % (SIG, cls), what, d, found_input=found)

    old_trace = os.environ.get('CELL_TYPE_MAPPER_VERIF_TRACE')
    with pipeline.workdir() as d:
        stats_path = d / 'stats.h5'
        cache_path = d / 'marker_cache.h5'
        trace_prefix = str(d / 'trace')
        os.environ['CELL_TYPE_MAPPER_VERIF_TRACE'] = trace_prefix
        os.environ['CELL_TYPE_MAPPER_VERIF'] = '1'
        try:
            for k, case in enumerate(hist['steps']):
                ctx.count('history:step')
                for lb in case.get('label', []):
                    ctx.count('history:' + lb)
                o = case['opts']
                for f in (stats_path, cache_path):
                    if f.exists():
                        f.unlink()
                pipeline.write_stats_file(
                    stats_path, case['tree'], case['ref_genes'],
                    {kk: np.array(v, dtype=float)
                     for kk, v in case['leaf_sum'].items()}, case['leaf_n'])
                tree = TaxonomyTree(data=json.loads(json.dumps(case['tree'])))
                h = case['tree']['hierarchy']
                with warnings.catch_warnings(), pipeline.quiet():
                    warnings.simplefilter('ignore')
                    create_marker_cache_from_specified_markers(
                        marker_lookup=json.loads(json.dumps(case['markers'])),
                        reference_gene_names=list(case['ref_genes']),
                        query_gene_names=list(case['query_genes']),
                        output_cache_path=cache_path, taxonomy_tree=tree,
                        min_markers=1)
                    leaf_means = get_leaf_means(
                        taxonomy_tree=tree, precompute_path=stats_path,
                        for_marker_selection=False)
                    X = np.array(case['X'], dtype=float)
                    query = CellByGeneMatrix(
                        data=X, gene_identifiers=list(case['query_genes']),
                        normalization='log2CPM')
                    lookup = {lv: o['bootstrap_factor'] for lv in h[:-1]}
                    lookup['None'] = o['bootstrap_factor']
                    if o.get('bootstrap_factor_lookup'):
                        lookup = dict((a, b) for a, b in
                                      o['bootstrap_factor_lookup'])
                    for f in d.glob('trace.*'):
                        f.unlink()
                    try:
                        result = election.run_type_assignment(
                            full_query_gene_data=query,
                            leaf_node_matrix=leaf_means,
                            marker_gene_cache_path=cache_path,
                            taxonomy_tree=tree,
                            bootstrap_factor_lookup=lookup,
                            bootstrap_iteration=o['bootstrap_iteration'],
                            rng=np.random.default_rng(o['rng_seed']),
                            n_assignments=o['n_runners_up'] + 1)
                    except Exception as e:   # noqa
                        violation('run-fails/%s' % type(e).__name__,
                                  'step %d: run_type_assignment failed: %r'
                                  % (k, e), k)
                        return
                # what the cache file says NOW
                with h5py.File(cache_path, 'r') as src:
                    rnames = json.loads(
                        src['reference_gene_names'][()].decode('utf-8'))
                    now = {}
                    for key in case['markers']:
                        if key in src:
                            now[key] = [rnames[j]
                                        for j in src[key]['reference'][()]]
                nodes = []
                for f in sorted(d.glob('trace.*')):
                    cur = None
                    for line in open(f):
                        ev = json.loads(line)
                        if ev['kind'] == 'node':
                            cur = dict(ev)
                            cur['subsets'] = []
                            cur['n_markers_seen'] = []
                            nodes.append(cur)
                        elif ev['kind'] == 'subset' and cur is not None:
                            cur['subsets'].append(list(ev['chosen_idx']))
                            cur['n_markers_seen'].append(ev['n_markers'])
                for nd in nodes:
                    key = 'None' if nd['parent'] is None else \
                        '%s/%s' % tuple(nd['parent'])
                    ctx.evaluations += 1
                    if list(nd['reference_genes']) != now.get(key) or \
                            set(nd['query_genes']) != set(
                                case['markers'].get(key, [])):
                        violation(
                            'node/genes-not-current-markers',
                            'step %d of a same-process history, node %s: '
                            'the vote used genes %r, the marker cache at '
                            'that path now lists %r (marker table %r)'
                            % (k, key, nd['reference_genes'], now.get(key),
                               sorted(case['markers'].get(key, []))), k)
                        return
                cell_ids = list(case['cell_ids'])
                results = []
                for cid, r in zip(cell_ids, result):
                    rec = {'cell_id': cid}
                    for lv in h:
                        e = r[lv]
                        rec[lv] = {
                            'assignment': str(e['assignment']),
                            'bootstrapping_probability':
                                float(e['bootstrapping_probability']),
                            'avg_correlation': None
                            if e['avg_correlation'] is None
                            else float(e['avg_correlation']),
                            'runner_up_assignment':
                                [str(v) for v in e['runner_up_assignment']],
                            'runner_up_correlation':
                                [float(v) for v in
                                 e['runner_up_correlation']],
                            'runner_up_probability':
                                [float(v) for v in
                                 e['runner_up_probability']],
                            'aggregate_probability':
                                float(e['aggregate_probability'])}
                    results.append(rec)
                genes, means, tree_now = eu.read_stats_means(stats_path)
                inputs = {'ref_genes': genes, 'means': means,
                          'tree': tree_now, 'cell_names': cell_ids,
                          'query_genes': list(case['query_genes']),
                          'xlog': np.array(case['X'], dtype=float)}
                res = {'ok': True, 'error': None,
                       'json': {'results': results},
                       'chunks': [{'r0': 0, 'r1': len(cell_ids),
                                   'cell_ids': cell_ids, 'nodes': nodes}]}
                sub = dict(case)
                sub['history_step'] = k
                n0 = len(ctx.violations)
                ep.analyse_run(ctx, SIG + '/history', sub, res, inputs, o,
                               do_votes=True, do_c03=False)
                if len(ctx.violations) > n0:
                    for v in ctx.violations[n0:]:
                        v['detail'] = eu_jsonable({
                            'kind': 'history', 'step': k,
                            'steps': hist['steps'][:k + 1],
                            'what': v['detail'].get('broken')})
                    return
        finally:
            if old_trace is None:
                os.environ.pop('CELL_TYPE_MAPPER_VERIF_TRACE', None)
            else:
                os.environ['CELL_TYPE_MAPPER_VERIF_TRACE'] = old_trace
    ctx.traces += 1


def eu_jsonable(x):
    from ctmverif import core
    return core.jsonable(x)


# ---------------------------------------------------------------------------
# run / replay
# ---------------------------------------------------------------------------

def corpus_dir():
    from ctmverif import core
    return core.VERIF / 'corpus' / 'C02'


def run(ctx):
    rng = ctx.rng
    cdir = corpus_dir()
    for f in sorted(cdir.glob('*.json')) if cdir.is_dir() else []:
        replay(ctx, json.loads(f.read_text()), from_corpus=True)
    quick = ctx.tier == 'quick'
    n_unit = 150 if quick else 2000
    n_mal = 25 if quick else 150
    n_pipe = 40 if quick else 700
    for i in range(n_unit):
        check_unit(ctx, gen_unit(rng, i))
    for i in range(n_mal):
        check_unit(ctx, gen_malformed(rng, i))
    for iters in (255, 256, 257, 300, 700):
        for _ in range(1 if quick else 4):
            check_many(ctx, gen_many(rng, iters))
    # the uint16 boundary (4 s per tally of 65536 iterations)
    check_many(ctx, gen_many(rng, 65536, with_choose=not quick))
    if not quick:
        check_many(ctx, gen_many(rng, 65535))
    for _ in range(3 if quick else 25):
        check_history(ctx, gen_history(rng, 4 if quick else 6))
    for n_query in (10001, 12000, 14999, 20001, 24999):
        check_rows(ctx, gen_rows(rng, n_query))
    if not quick:
        for n_query in (9999, 10000, 15000, 30001):
            check_rows(ctx, gen_rows(rng, n_query))
        check_big_pipeline(ctx, {
            'kind': 'big-pipeline', 'n_cells': 12000 + rng.randint(0, 400),
            'n_genes': rng.randint(6, 9), 'chunk_sizes': [12500, 4000],
            'seed': rng.randrange(2 ** 31)})
    for i in range(n_pipe):
        case = ep.gen_pipeline_case(rng, i)
        ep.check_pipeline(ctx, case, SIG, do_votes=True, do_c03=False)
    for i in range(2 if quick else 10):
        case = ep.gen_pipeline_case(rng, i, many_iters=True)
        ep.check_pipeline(ctx, case, SIG, do_votes=True, do_c03=False)


def replay(ctx, data, from_corpus=False):
    d = data.get('detail', data)
    kind = d.get('kind')
    if kind == 'unit':
        check_unit(ctx, d)
    elif kind == 'unit-many':
        check_many(ctx, d)
    elif kind == 'unit-rows':
        check_rows(ctx, d)
    elif kind == 'history':
        check_history(ctx, d)
    elif kind == 'big-pipeline':
        check_big_pipeline(ctx, d)
    elif kind == 'pipeline':
        ep.check_pipeline(ctx, d, SIG, do_votes=True, do_c03=False)
    elif not from_corpus:
        print('nothing to replay for kind', kind)
