"""
C08 — marker genes are reconciled with the query by name, with ancestor
fallback.

Tie: hand-written Lean model (CTM/Model/Markers.lean) vs the real
validate_marker_lookup / create_marker_cache_from_specified_markers (HDF5
cache read back) / serialize_markers on generated (tree, table, Q, R,
min_markers), and vs whole run_mapping runs ('marker_genes' of the JSON and the
hook trace of per-node gene lists).  Independently of the model, the outcome
of the real code is compared with the property's statement computed from the
raw dicts (markers_util.spec_genes / expectation).
"""
import copy
import gc
import glob
import json
import os
import pathlib

import numpy as np

from ctmverif import core, gen, treeio, pipeline
from ctmverif import markers_util as mu

RULE = ('cases = (tree by level/branching profile incl. single-child chains '
        'and single-node levels, marker table with missing parents / empty '
        'lists / duplicates / genes only in Q, only in R, in neither / orphan '
        'keys, |L(p)∩Q| aimed at m-1, m, m+1, Q and R shuffled, queries '
        'of 300-600 (thorough: 70 000) columns with markers beyond column '
        '255 (65 535) against references of <= 255 / exactly 255 / 256 '
        '(300) genes, '
        'min_markers in 0..6); sessions of 2-5 cases served by ONE '
        'TaxonomyTree object (incl. parent and nearest ancestor both below '
        'min_markers); pipeline cases add flatten / drop_level and a '
        'query matrix.  non-trivial = some consulted non-root parent has '
        'fewer than min_markers own markers in the query (fallback '
        'exercised); distinct by canonical JSON')
TRUSTED = ['h5py read-back of the marker cache',
           'TaxonomyTree.drop_level/flatten (properties C10/C17) for the '
           'effective tree of a pipeline case',
           'hook trace records the gene lists assemble_query_data produced']
ASSUMPTIONS = ['query and reference gene lists hold distinct names',
               'level names contain no "/" (key strings are injective)',
               'min_markers = 0: a single consulted parent left without '
               'markers is not demanded to fail (0 markers are not fewer than '
               '0); a query sharing no marker with ANY consulted parent is']

SIG_ROOT = 'C08/single-child/root-needs-entry'


def ckey(case, tag):
    return tag + json.dumps(case, sort_keys=True, default=repr)


# ---------------------------------------------------------------------------
# unit level
# ---------------------------------------------------------------------------

def predicate_cache(case, exp, cache, ser):
    """property clauses on an accepted case; returns (sig, what) or None"""
    Q, R = case['Q'], case['R']
    tree = case['tree']
    table_keys = set(mu.key_str(None if k is None else tuple(k))
                     for k, _ in case['entries'])
    for p in exp['consulted']:
        ks = mu.key_str(p)
        if ks not in cache['groups']:
            return ('C08/cache/missing-group', 'no group for %s' % ks)
        ri, qi = cache['groups'][ks]
        if len(ri) != len(qi):
            return ('C08/paired/length', 'index arrays differ in length')
        if any(ri[i] >= ri[i + 1] for i in range(len(ri) - 1)):
            return ('C08/paired/not-sorted-by-reference',
                    'reference indices of %s not strictly increasing' % ks)
        rn = [R[i] for i in ri]
        qn = [Q[i] for i in qi]
        if rn != qn:
            return ('C08/paired/name-mismatch',
                    'column j of query and reference differ at %s: %r vs %r'
                    % (ks, qn, rn))
        if set(rn) != exp['spec'][p]:
            return ('C08/spec/used-differs',
                    'genes used at %s = %r, specification = %r'
                    % (ks, sorted(rn), sorted(exp['spec'][p])))
        if ser is not None and ser[0] == 'ok' and ser[1].get(ks) != rn:
            return ('C08/reported/differs',
                    'reported %r != used %r at %s' % (ser[1].get(ks), rn, ks))
    all_q = set()
    for name, (ri, qi) in cache['groups'].items():
        all_q |= set(qi)
    if cache['all_query_markers'] != sorted(all_q):
        return ('C08/cache/all_query_markers',
                'all_query_markers is not the sorted union of the groups')
    if cache.get('reconcile', 'ok') != 'ok':
        if None not in exp['consulted'] and 'None' not in table_keys:
            return (SIG_ROOT, 'reconcile_taxonomy_and_markers refuses (%s) a '
                    'cache without a group for a single-child root'
                    % cache['reconcile'])
        return ('C08/cache/reconcile-fails',
                'reconcile_taxonomy_and_markers refuses the cache the same '
                'taxonomy produced: %s' % cache['reconcile'])
    if ser is not None:
        root_consulted = None in exp['consulted']
        if ser[0] != 'ok':
            if not root_consulted and 'None' not in table_keys:
                return (SIG_ROOT, 'serialize_markers fails (%s) for a root '
                        'with a single child left out of the table' % ser[0])
            return ('C08/reported/serialize-fails',
                    'serialize_markers raised %s' % ser[0])
        for p in mu.tree_parents(tree):
            if p is None or p in exp['consulted']:
                continue
            if ser[1].get(mu.key_str(p)) != []:
                return ('C08/single-child/reported-nonempty',
                        'single-child parent %s reports %r'
                        % (mu.key_str(p), ser[1].get(mu.key_str(p))))
    return None


def check_unit(ctx, case, label, workdir, metamorphic=True, use_model=True):
    exp = mu.expectation(case)
    v_verdict, v_out, _ = mu.impl_validate(case)
    c_verdict, cache, ser = mu.impl_create_cache(case, workdir)
    ctx.count('unit:' + label)
    ctx.count('verdict:' + c_verdict.split(':')[0])
    ctx.count('m:%d' % case['m'])
    nt = mu.case_nontrivial(case)
    ctx.case(ckey(case, 'u') if nt else None,
             sample={'kind': 'unit', 'label': label, 'case': case,
                     'verdict': c_verdict})
    detail = {'kind': 'unit', 'label': label, 'case': case,
              'impl_validate': v_verdict, 'impl_create': c_verdict}
    failed = False
    # ---- predicates on the implementation alone ----
    if exp['must_fail'] and c_verdict == 'ok':
        ctx.violation('C08/errors/accepted/' + exp['must_fail'][0],
                      'run would proceed although: %s' % exp['must_fail'],
                      detail)
        failed = True
    elif c_verdict != 'ok' and not exp['must_fail'] and not exp['may_fail']:
        ctx.violation('C08/errors/rejected-valid/' + c_verdict.split(':')[0],
                      'marker table satisfying the property is refused: %s'
                      % c_verdict, detail)
        failed = True
    elif c_verdict == 'ok':
        bad = predicate_cache(case, exp, cache, ser)
        if bad:
            ctx.violation(bad[0], bad[1], detail)
            failed = True
    if c_verdict not in ('ok', 'RuntimeError') or \
            v_verdict not in ('ok', 'RuntimeError'):
        ctx.violation('C08/errors/unclassified',
                      'unexpected exception type: %s / %s'
                      % (v_verdict, c_verdict),
                      detail, found_input=False)
        failed = True
    # validate and create agree on validation failures
    if v_verdict != 'ok' and c_verdict != v_verdict:
        ctx.violation('C08/errors/validate-vs-create',
                      'validate says %s, create says %s'
                      % (v_verdict, c_verdict), detail, found_input=False)
        failed = True
    # ---- metamorphic: permuting Q and R leaves the genes unchanged ----
    if metamorphic and c_verdict == 'ok':
        rng = ctx.rng
        c2 = copy.deepcopy(case)
        rng.shuffle(c2['Q'])
        rng.shuffle(c2['R'])
        v2, cache2, ser2 = mu.impl_create_cache(c2, workdir, name='cache2.h5')
        ctx.evaluations += 1
        ok2 = (v2 == 'ok')
        if ok2:
            for p in exp['consulted']:
                ks = mu.key_str(p)
                a = [case['R'][i] for i in cache['groups'][ks][0]]
                ri2, qi2 = cache2['groups'][ks]
                b = [c2['R'][i] for i in ri2]
                bq = [c2['Q'][i] for i in qi2]
                if set(a) != set(b) or b != bq or ri2 != sorted(ri2):
                    ok2 = False
        if not ok2:
            ctx.violation('C08/paired/order-dependence',
                          'permuting query/reference gene order changes the '
                          'genes used', dict(detail, permuted=c2))
            failed = True
    # ---- correspondence with the model ----
    if ctx.driver_ok and use_model:
        can = mu.Canon(case)
        inp = {'tree': can.tree_json, 'lookup': can.lookup(case['entries']),
               'Q': can.ids(case['Q']), 'R': can.ids(case['R']),
               'm': case['m']}
        mv = ctx.model('markers.validate', inp)
        if 'err' in mv:
            same = (mu.model_err_class(mv['err']) == v_verdict)
        else:
            same = (v_verdict == 'ok' and
                    can.unlookup(mv['ok']) == {k: list(v)
                                               for k, v in v_out.items()} and
                    [mu.key_str(can.unkey(k)) for k, _ in mv['ok']]
                    == list(v_out.keys()))
        if not same:
            ctx.disagreements_checked += 1
            if not failed:
                ctx.violation(
                    'C08/correspondence/validate',
                    'correspondence markers.validate no longer checks '
                    '(impl=%s)' % v_verdict,
                    dict(detail, model=mv,
                         impl_out=v_out,
                         broken='correspondence CTM.Markers.validateLookup ~ '
                                'validate_marker_lookup'),
                    found_input=False)
                failed = True
        mc = ctx.model('markers.createCache', inp)
        if 'err' in mc:
            same = (mu.model_err_class(mc['err']) == c_verdict)
            why = 'verdict'
        else:
            why = None
            same = (c_verdict == 'ok')
            if same:
                mg = {mu.key_str(can.unkey(k)): ([r for r, _ in rows],
                                                 [q for _, q in rows])
                      for k, rows in mc['ok']['groups']}
                # model indices are positions in the id lists = positions in
                # R and Q themselves
                ig = {k: (list(v[0]), list(v[1]))
                      for k, v in cache['groups'].items()}
                if mg != ig:
                    same, why = False, 'groups'
                elif mc['ok']['allQuery'] != cache['all_query_markers'] or \
                        mc['ok']['allRef'] != cache['all_reference_markers']:
                    same, why = False, 'all_markers'
                else:
                    ms = mc['serialize']
                    if 'err' in ms:
                        if ser[0] != mu.model_err_class(ms['err']):
                            same, why = False, 'serialize-verdict'
                    elif ser[0] != 'ok' or can.unlookup(ms['ok']) != ser[1] \
                            or [mu.key_str(can.unkey(k)) for k, _ in ms['ok']] \
                            != list(ser[1].keys()):
                        same, why = False, 'serialize'
                    mr = mc['reconcile']
                    mr = 'ok' if 'ok' in mr else mr['err']
                    if same and mr != cache.get('reconcile'):
                        same, why = False, 'reconcile'
                    for k, a in mc['assemble']:
                        # the identity check of assemble_query_data holds
                        if 'err' in a:
                            same, why = False, 'assemble-' + a['err']
        if not same:
            ctx.disagreements_checked += 1
            if not failed:
                ctx.violation(
                    'C08/correspondence/createCache/%s' % why,
                    'correspondence markers.createCache no longer checks '
                    '(%s; impl=%s)' % (why, c_verdict),
                    dict(detail, model=mc,
                         broken='correspondence CTM.Markers.createCache / '
                                'serialize ~ create_marker_cache_from_'
                                'specified_markers / serialize_markers'),
                    found_input=False)
        # without a taxonomy (every key counts)
        inp2 = dict(inp)
        inp2['tree'] = None
        v3, cache3, _ = mu.impl_create_cache(case, workdir, with_tree=False,
                                             name='cache3.h5')
        m3 = ctx.model('markers.createCache', inp2)
        ctx.evaluations += 1
        # without a taxonomy every list is kept as it is: a listed gene the
        # reference lacks must end the call, in the query or not
        listed = set(g for _, v in case['entries'] for g in v)
        if v3 == 'ok' and any(g not in set(case['R']) for g in listed):
            ctx.violation(
                'C08/errors/accepted/marker-unknown-to-reference/no-taxonomy',
                'create_marker_cache_from_specified_markers(taxonomy_tree='
                'None) accepts a table listing %r, unknown to the reference'
                % sorted(g for g in listed if g not in set(case['R']))[:3],
                dict(detail, with_tree=False))
            failed = True
        if 'err' in m3:
            same = (mu.model_err_class(m3['err']) == v3)
        else:
            same = v3 == 'ok' and {
                mu.key_str(can.unkey(k)): ([r for r, _ in rows],
                                           [q for _, q in rows])
                for k, rows in m3['ok']['groups']} == {
                k: (list(v[0]), list(v[1]))
                for k, v in cache3['groups'].items()}
        if not same:
            ctx.disagreements_checked += 1
            if not failed:
                ctx.violation(
                    'C08/correspondence/createCache-no-tree',
                    'correspondence markers.createCache (no taxonomy) no '
                    'longer checks (impl=%s)' % v3,
                    dict(detail, model=m3,
                         broken='correspondence CTM.Markers.createCache ~ '
                                'create_marker_cache_from_specified_markers'),
                    found_input=False)
    return c_verdict


# ---------------------------------------------------------------------------
# object reuse: several reconciliations with the SAME TaxonomyTree object
# ---------------------------------------------------------------------------

def check_session(ctx, d, workdir):
    """d: kind=session, tree, steps[{entries, Q, R, m}].  One TaxonomyTree
    object serves every step (as in a process that reconciles several marker
    tables / queries against one taxonomy).  After every call the tree's
    public answers and the marker_lookup argument must be unchanged, and every
    step must meet the specification exactly as a fresh tree would."""
    tt = treeio.impl_tree(d['tree'])
    snap0 = mu.tree_snapshot(tt)
    ctx.count('session:steps=%d' % len(d['steps']))
    for j, step in enumerate(d['steps']):
        case = dict(step)
        case['tree'] = d['tree']
        history = {'kind': 'session', 'tree': d['tree'],
                   'steps': d['steps'][:j + 1], 'failing_step': j}
        exp = mu.expectation(case)
        # accessors between the calls, as a caller would use them
        for p in tt.all_parents[:3]:
            if p is not None:
                tt.parents(p[0], p[1])
        v_verdict, v_out, untouched = mu.impl_validate(case, tt=tt)
        snap1 = mu.tree_snapshot(tt)
        c_verdict, cache, ser = mu.impl_create_cache(case, workdir, tt=tt,
                                                     name='session.h5')
        snap2 = mu.tree_snapshot(tt)
        ctx.case(ckey(case, 's%d' % j) if mu.case_nontrivial(case) else None,
                 sample=None)
        ctx.count('session:verdict=' + c_verdict.split(':')[0])
        if not untouched:
            ctx.violation('C08/isolation/lookup-mutated',
                          'validate_marker_lookup changed its marker_lookup '
                          'argument (call %d)' % (j + 1), history)
        for name, snap in (('validate_marker_lookup', snap1),
                           ('create_marker_cache_from_specified_markers',
                            snap2)):
            if snap != snap0:
                field = [k for k in snap0 if snap[k] != snap0[k]][0]
                ctx.violation(
                    'C08/isolation/tree-mutated',
                    '%s changed the TaxonomyTree it was given: %s was %r, '
                    'is %r after call %d'
                    % (name, field, snap0[field][:4], snap[field][:4], j + 1),
                    dict(history, field=field))
                break
        # the specification, exactly as for a fresh tree
        if exp['must_fail'] and c_verdict == 'ok':
            ctx.violation('C08/errors/accepted/' + exp['must_fail'][0],
                          'call %d on a reused tree proceeds although: %s'
                          % (j + 1, exp['must_fail']), history)
        elif c_verdict != 'ok' and not exp['must_fail'] \
                and not exp['may_fail']:
            ctx.violation('C08/errors/rejected-valid/'
                          + c_verdict.split(':')[0],
                          'call %d on a reused tree refuses a valid table: %s'
                          % (j + 1, c_verdict), history)
        elif c_verdict == 'ok':
            bad = predicate_cache(case, exp, cache, ser)
            if bad:
                ctx.violation(bad[0], 'step %d of a session on ONE '
                              'TaxonomyTree object (each step calls '
                              'validate_marker_lookup, then create_marker_'
                              'cache_from_specified_markers, with it): %s'
                              % (j + 1, bad[1]), history)
        if v_verdict != 'ok' and c_verdict != v_verdict:
            ctx.violation('C08/errors/validate-vs-create',
                          'call %d: validate says %s, create says %s'
                          % (j + 1, v_verdict, c_verdict), history,
                          found_input=False)
        # model (stateless by construction) on the same step
        if ctx.driver_ok and v_verdict == 'ok':
            can = mu.Canon(case)
            mv = ctx.model('markers.validate', {
                'tree': can.tree_json, 'lookup': can.lookup(case['entries']),
                'Q': can.ids(case['Q']), 'm': case['m']})
            if 'err' in mv or can.unlookup(mv['ok']) != {
                    k: list(v) for k, v in v_out.items()}:
                ctx.disagreements_checked += 1
                ctx.violation(
                    'C08/correspondence/validate-reused-tree',
                    'correspondence markers.validate no longer checks on '
                    'call %d with a reused tree' % (j + 1),
                    dict(history, model=mv, impl_out=v_out,
                         broken='correspondence CTM.Markers.validateLookup ~ '
                                'validate_marker_lookup (object reuse)'),
                    found_input=False)


# ---------------------------------------------------------------------------
# pairing by name: column gathers of CellByGeneMatrix (unit) and aimed
# query column orders on whole runs
# ---------------------------------------------------------------------------

def check_downsample(ctx, d):
    """d: kind=downsample, X (rows), genes, all (first selection), sel
    (second selection, subset of all), label.  The gather by gene name of
    CellByGeneMatrix.downsample_genes / downsample_genes_in_place against an
    independent by-name gather (dict lookup per value)."""
    from cell_type_mapper.cell_by_gene.cell_by_gene import CellByGeneMatrix
    X = np.array(d['X'], dtype=float)
    genes, allm, sel = list(d['genes']), list(d['all']), list(d['sel'])
    col = {g: j for j, g in enumerate(genes)}
    ctx.count('downsample:' + d.get('label', 'replay'))
    ctx.case(ckey({k: d[k] for k in ('X', 'genes', 'all', 'sel')}, 'ds')
             if len(sel) >= 3 else None, sample=None)

    def gather(names):
        return [[float(row[col[g]]) for g in names] for row in X]

    fails = []
    try:
        m = CellByGeneMatrix(data=X.copy(), gene_identifiers=list(genes),
                             normalization='log2CPM')
        a = m.downsample_genes(selected_genes=list(allm))
        if a.gene_identifiers != allm or \
                np.array(a.data).tolist() != gather(allm):
            fails.append(('downsample_genes', allm, np.array(a.data).tolist(),
                          gather(allm)))
        b = a.downsample_genes(selected_genes=list(sel))
        if b.gene_identifiers != sel or \
                np.array(b.data).tolist() != gather(sel):
            fails.append(('downsample_genes(second stage)', sel,
                          np.array(b.data).tolist(), gather(sel)))
        m2 = CellByGeneMatrix(data=X.copy(), gene_identifiers=list(genes),
                              normalization='log2CPM')
        m2.downsample_genes_in_place(list(sel))
        if m2.gene_identifiers != sel or \
                np.array(m2.data).tolist() != gather(sel):
            fails.append(('downsample_genes_in_place', sel,
                          np.array(m2.data).tolist(), gather(sel)))
        impl_node = np.array(b.data).tolist()
    except Exception as e:      # noqa
        ctx.violation('C08/paired/downsample-raises',
                      'down-selecting listed genes raises %r' % (e,), d)
        return
    if fails:
        f = fails[0]
        ctx.violation('C08/paired/values-by-name',
                      '%s(%r) returns %r; the columns of those genes are %r'
                      % (f[0], f[1], f[2][:2], f[3][:2]), d)
        return
    if ctx.driver_ok:
        ids = {g: j for j, g in enumerate(sorted(genes))}
        out = ctx.model('norm.node', {
            'X': [[[int(v), 1] for v in row] for row in X.tolist()],
            'width': len(genes), 'genes': [ids[g] for g in genes],
            'norm': 'log2CPM', 'allMarkers': [ids[g] for g in allm],
            'nodeMarkers': [ids[g] for g in sel]})
        model = out['node'].get('ok')
        if model is None or [[n_ / d_ for n_, d_ in row] for row in model] \
                != impl_node:
            ctx.disagreements_checked += 1
            ctx.violation('C08/correspondence/downsample',
                          'correspondence norm.node no longer checks',
                          dict(d, model=out['node'],
                               broken='correspondence CTM.Normalize.nodeData '
                                      '~ CellByGeneMatrix.downsample_genes'),
                          found_input=False)


def gen_downsample(rng, i):
    """column orders aimed at gathers that could be mistaken for a slice"""
    n = rng.randint(1, 3)
    g = rng.randint(5, 12)
    genes = ['G%d' % j for j in rng.sample(range(60), g)]
    X = [[float(1 + r * 100 + j) for j in range(g)] for r in range(n)]
    k = rng.randint(3, min(6, g))
    i0 = rng.randint(0, g - k)
    block = list(range(i0, i0 + k))
    fam = ['block-interior-permuted', 'block-reversed', 'block-stride',
           'block-interior-outside', 'block-rotated', 'random',
           'identity-block'][i % 7]
    if fam == 'block-interior-permuted':
        mid = block[1:-1]
        for _ in range(10):
            rng.shuffle(mid)
            if mid != block[1:-1]:
                break
        idx = [block[0]] + mid + [block[-1]]
    elif fam == 'block-reversed':
        idx = block[::-1]
    elif fam == 'block-stride':
        idx = list(range(i0 % 2, g, 2))[:k]
        if rng.random() < 0.5:
            idx = idx[::-1]
    elif fam == 'block-interior-outside':
        outside = [j for j in range(g) if j not in block]
        idx = list(block)
        if outside:
            idx[rng.randint(1, k - 2)] = rng.choice(outside)
    elif fam == 'block-rotated':
        r = rng.randint(1, k - 1)
        idx = block[r:] + block[:r]
    elif fam == 'random':
        idx = rng.sample(range(g), k)
    else:
        idx = block
    sel = [genes[j] for j in idx]
    # first stage: all markers = sel plus a few others, in query order or not
    others = [x for x in genes if x not in sel]
    allm = sel + rng.sample(others, rng.randint(0, len(others)))
    if rng.random() < 0.7:
        allm.sort(key=genes.index)          # as all_query_markers is
    else:
        rng.shuffle(allm)
    return {'kind': 'downsample', 'X': X, 'genes': genes, 'all': allm,
            'sel': sel, 'label': fam}


def aimed_column_order(rng, case, exp):
    """a query gene order in which, for one consulted parent, the marker
    columns form a contiguous block (among the marker columns of the query)
    whose endpoints are the parent's first and last marker in reference order
    and whose interior is NOT in reference order.  None if impossible."""
    rpos = {g: j for j, g in enumerate(case['R'])}
    allm = set()
    for s_ in exp['spec'].values():
        allm |= s_
    cands = [p for p, s_ in exp['spec'].items() if len(s_) >= 3]
    rng.shuffle(cands)
    for p in cands:
        ms = sorted(exp['spec'][p], key=lambda g: rpos[g])
        k = len(ms)
        if k >= 4:
            mid = ms[1:-1]
            for _ in range(10):
                rng.shuffle(mid)
                if mid != ms[1:-1]:
                    break
            if mid == ms[1:-1]:
                continue
            block = [ms[0]] + mid + [ms[-1]]
        else:
            extra = sorted(allm - set(ms))
            if not extra:
                continue
            block = [ms[0], rng.choice(extra), ms[2]]
        rest = [g for g in case['Q'] if g not in block]
        rng.shuffle(rest)
        a = rng.randint(0, len(rest))
        return rest[:a] + block + rest[a:], p
    return None, None


def check_pairing_pipeline(ctx, case, label):
    """two whole runs of the same cells: query columns in reference-like
    order vs the aimed order (columns moved together with their names);
    the results must be byte-equal (raw integer counts)."""
    tree = case['tree']
    eff_tree, eff_entries = effective(case, None, case['flatten'])
    ecase = dict(case)
    ecase['tree'], ecase['entries'] = eff_tree, eff_entries
    exp = mu.expectation(ecase)
    if exp['must_fail'] or exp['may_fail']:
        ctx.count('pairing:skipped-error-case')
        return
    order_b, parent = aimed_column_order(ctx.rng, case, exp)
    if order_b is None:
        ctx.count('pairing:skipped-no-block')
        return
    rpos = {g: j for j, g in enumerate(case['R'])}
    order_a = sorted(case['Q'], key=lambda g: (rpos.get(g, 10 ** 6), g))
    X = np.array(case['X'])
    qcol = {g: j for j, g in enumerate(case['Q'])}
    outs = []
    with pipeline.workdir('ctmverif_c08p_') as d:
        leaves = list(tree[tree['hierarchy'][-1]].keys())
        stats = pipeline.write_stats_file(
            d / 'stats.h5', tree, case['R'],
            {l: np.array(case['leaf_mean'][l]) * 2 for l in leaves},
            {l: 2 for l in leaves})
        mpath = d / 'markers.json'
        mpath.write_text(json.dumps(mu.lookup_dict(case['entries'])))
        for tag, order in (('a', order_a), ('b', order_b)):
            q = pipeline.write_h5ad(d / ('query_%s.h5ad' % tag),
                                    X[:, [qcol[g] for g in order]],
                                    case['cells'], order)
            out = d / ('out_' + tag)
            tmp = d / ('tmp_' + tag)
            out.mkdir()
            tmp.mkdir()
            cfg = pipeline.mapping_config(
                q, stats, mpath, out, tmp, n_processors=2, chunk_size=3,
                bootstrap_factor=case['bootstrap_factor'],
                bootstrap_iteration=5, rng_seed=case['rng_seed'],
                min_markers=case['m'], flatten=case['flatten'], csv=False)
            res = pipeline.run_mapping(cfg)
            txt = None if res['ok'] else str(res['error'])[:300]
            res['error'] = None
            with pipeline.quiet():
                gc.collect()
            outs.append((res['ok'], txt, (res['json'] or {}).get('results')))
    ctx.traces += 2
    ctx.count('pairing:' + label)
    detail = {'kind': 'pairing', 'label': label, 'case': case,
              'order_a': order_a, 'order_b': order_b,
              'parent': None if parent is None else list(parent)}
    ctx.case(ckey({'o': order_b, 'e': case['entries'], 'Q': case['Q']}, 'pp'),
             sample={'kind': 'pairing', 'parent': detail['parent'],
                     'order_b': order_b[:8]})
    (ok_a, err_a, ra), (ok_b, err_b, rb) = outs
    if not ok_a:
        ctx.violation('C08/errors/rejected-valid/'
                      + 'RuntimeError',
                      'run with a valid table fails: %s' % err_a, detail)
        return
    if not ok_b:
        ctx.violation('C08/pipeline/pairing/variant-fails',
                      'the same cells with the query columns reordered '
                      '(names moved along) fail: %s' % err_b, detail)
        return
    if json.dumps(ra, sort_keys=True) != json.dumps(rb, sort_keys=True):
        n_diff = sum(1 for x, y in zip(ra, rb) if x != y)
        ctx.violation(
            'C08/pipeline/pairing/column-order-changes-result',
            'query and reference values are not paired by name: %d of %d '
            'cells map differently when the marker columns of %s form a '
            'block with permuted interior %r' % (n_diff, len(ra),
                                                 mu.key_str(parent), order_b),
            detail)


# ---------------------------------------------------------------------------
# pipeline level
# ---------------------------------------------------------------------------

def effective(case, drop_level, flatten):
    """(tree, entries) the marker stage works on (tree transforms by the real
    TaxonomyTree; table transform = the property's 'flattening unions every
    list into the root's')"""
    tt = treeio.impl_tree(case['tree'])
    if drop_level is not None and drop_level in tt.hierarchy:
        tt = tt.drop_level(drop_level)
    entries = case['entries']
    if flatten:
        tt = tt.flatten()
        allm = set()
        for _, v in entries:
            allm |= set(v)
        entries = [[None, sorted(allm)]]
    tree = {k: (list(v) if k == 'hierarchy' else
                {n: list(c) for n, c in v.items()})
            for k, v in tt._data.items() if k not in treeio.IGNORABLE}
    for n in tree[tree['hierarchy'][-1]]:
        tree[tree['hierarchy'][-1]][n] = []
    return tree, entries


def gen_drop_case(rng):
    """aimed at drop_level: three levels; the middle one is dropped; most top
    nodes have exactly ONE child at the dropped level and >= 2 grandchildren,
    so they are consulted only in the reduced tree; their own lists hold fewer
    than min_markers genes of the query (or are missing / empty), so that the
    ancestor fallback of the REDUCED tree decides what they use"""
    levels = rng.sample(['class', 'subclass', 'supertype', 'L0', 'zeta'], 2) \
        + ['cluster']
    names = gen.fresh_names(rng, 40)
    it = iter(names)
    tree = {'hierarchy': levels, levels[0]: {}, levels[1]: {}, levels[2]: {}}
    for _ in range(rng.randint(1, 3)):
        top = next(it)
        mids = [next(it) for _ in range(1 if rng.random() < 0.75
                                        else rng.randint(2, 3))]
        tree[levels[0]][top] = mids
        for md in mids:
            kids = [next(it) for _ in range(rng.randint(2, 3))]
            tree[levels[1]][md] = kids
            for k in kids:
                tree[levels[2]][k] = []
    pool = rng.sample(mu.GENE_POOL, rng.randint(8, 14))
    n_sh = rng.randint(5, len(pool) - 1)
    shared, r_only = pool[:n_sh], pool[n_sh:]
    Q = shared + ['qx%d' % i for i in range(rng.randint(0, 2))]
    R = shared + r_only
    rng.shuffle(Q)
    rng.shuffle(R)
    m = rng.choice([2, 2, 3, 4])
    entries = [[None, rng.sample(shared, rng.randint(m, len(shared)))]]
    for top in tree[levels[0]]:
        x = rng.random()
        if x < 0.15:
            pass                                     # missing
        elif x < 0.25:
            entries.append([[levels[0], top], []])
        else:
            k = rng.choice([0, 1, m - 1, m - 1, m])
            genes = rng.sample(shared, min(k, len(shared)))
            if rng.random() < 0.4:
                genes += rng.sample(r_only, 1)
            entries.append([[levels[0], top], genes])
    for md in tree[levels[1]]:
        if rng.random() < 0.85:
            entries.append([[levels[1], md],
                            rng.sample(shared, rng.randint(1, len(shared)))])
    rng.shuffle(entries)
    return {'tree': tree, 'entries': entries, 'Q': Q, 'R': R, 'm': m}, \
        levels[1]


def gen_pipeline_case(rng, aimed_drop=False):
    forced_drop = None
    if aimed_drop:
        case, forced_drop = gen_drop_case(rng)
    else:
        case = mu.gen_case(rng, max_depth=3,
                           pipeline_safe=(rng.random() < 0.85))
    tree = case['tree']
    h = tree['hierarchy']
    leaves = list(tree[h[-1]].keys())
    nprng = np.random.default_rng(rng.randrange(2 ** 31))
    n_cells = rng.randint(2, 8)
    X = nprng.integers(0, 30, (n_cells, len(case['Q']))).astype(float)
    X[:, 0] += 1.0
    means = (nprng.random((len(leaves), len(case['R']))) * 6.0)
    x = rng.random()
    drop_level, flatten = None, False
    if x < 0.2:
        flatten = True
    elif x < 0.45 and len(h) > 1:
        drop_level = rng.choice(h[:-1] + ['not_a_level'])
    if forced_drop is not None:
        drop_level, flatten = forced_drop, False
    case = dict(case)
    case.update({
        'X': X.tolist(), 'cells': ['c%d' % i for i in range(n_cells)],
        'leaf_mean': {l: means[i].tolist() for i, l in enumerate(leaves)},
        'drop_level': drop_level, 'flatten': flatten,
        'rng_seed': rng.randrange(10 ** 6),
        'bootstrap_factor': rng.choice([0.5, 0.9, 1.0]),
    })
    return case


def check_pipeline(ctx, case, label):
    tree = case['tree']
    try:
        eff_tree, eff_entries = effective(case, case['drop_level'],
                                          case['flatten'])
        tree_err = None
    except RuntimeError as e:
        tree_err = mu.classify_error(e)
    detail = {'kind': 'pipeline', 'label': label, 'case': case}
    with pipeline.workdir('ctmverif_c08_') as d:
        leaves = list(tree[tree['hierarchy'][-1]].keys())
        stats = pipeline.write_stats_file(
            d / 'stats.h5', tree, case['R'],
            {l: np.array(case['leaf_mean'][l]) * 2 for l in leaves},
            {l: 2 for l in leaves})
        q = pipeline.write_h5ad(d / 'query.h5ad', np.array(case['X']),
                                case['cells'], case['Q'])
        mpath = d / 'markers.json'
        mpath.write_text(json.dumps(mu.lookup_dict(case['entries'])))
        out = d / 'out'
        out.mkdir()
        tmp = d / 'tmp'
        tmp.mkdir()
        # tmp_dir given: with tmp_dir=None the mapper leaves its
        # query_marker_*.h5 in the system temp directory
        cfg = pipeline.mapping_config(
            q, stats, mpath, out, tmp, n_processors=2, chunk_size=3,
            bootstrap_factor=case['bootstrap_factor'], bootstrap_iteration=5,
            rng_seed=case['rng_seed'], min_markers=case['m'],
            flatten=case['flatten'], drop_level=case['drop_level'], csv=False)
        trace = d / 'trace'
        os.environ['CELL_TYPE_MAPPER_VERIF_TRACE'] = str(trace)
        try:
            res = pipeline.run_mapping(cfg)
        finally:
            os.environ.pop('CELL_TYPE_MAPPER_VERIF_TRACE', None)
        # keep the verdict, drop the exception (its traceback keeps the
        # mapper's FileTracker alive, which prints when it is collected)
        res_verdict = 'ok' if res['ok'] else mu.classify_error(res['error'])
        res_error_text = str(res['error'])[:300]
        res['error'] = None
        with pipeline.quiet():
            gc.collect()
        events = []
        for f in glob.glob(str(trace) + '.*'):
            for line in pathlib.Path(f).read_text().splitlines():
                ev = json.loads(line)
                if ev.get('kind') == 'node':
                    events.append(ev)
    ctx.traces += 1
    verdict = res_verdict
    detail['impl'] = verdict
    ctx.count('pipeline:' + label)
    ctx.count('pipeline-verdict:' + verdict.split(':')[0])
    ctx.count('pipeline-mode:' + ('flatten' if case['flatten'] else
                                  'drop' if case['drop_level'] else 'plain'))
    failed = False
    has_results = bool(res['json']) and 'results' in res['json']
    if tree_err is not None:
        # dropping the level is itself refused (e.g. flat tree): nothing to
        # say for C08 beyond "no mapping"
        if res['ok']:
            ctx.violation('C08/pipeline/tree-transform',
                          'tree transform fails (%s) but the run succeeds'
                          % tree_err, detail, found_input=False)
        ctx.case(None)
        return
    ecase = dict(case)
    ecase['tree'], ecase['entries'] = eff_tree, eff_entries
    exp = mu.expectation(ecase)
    nt = mu.case_nontrivial(ecase)
    ctx.case(ckey({k: case[k] for k in ('tree', 'entries', 'Q', 'R', 'm',
                                        'drop_level', 'flatten')}, 'p')
             if nt else None,
             sample={'kind': 'pipeline', 'verdict': verdict,
                     'flatten': case['flatten'],
                     'drop_level': case['drop_level'],
                     'entries': case['entries'], 'm': case['m']})
    table_keys = set(mu.key_str(None if k is None else tuple(k))
                     for k, _ in eff_entries)
    root_left_out = (None not in exp['consulted']
                     and 'None' not in table_keys)
    if exp['must_fail']:
        if res['ok'] or has_results:
            ctx.violation('C08/errors/accepted/' + exp['must_fail'][0],
                          'run maps although: %s' % exp['must_fail'], detail)
            failed = True
    elif not res['ok']:
        if root_left_out:
            ctx.violation(SIG_ROOT, 'run fails (%s) because the root, which '
                          'has a single child, has no entry in the marker '
                          'table' % verdict, detail)
            failed = True
        elif not exp['may_fail']:
            ctx.violation('C08/errors/rejected-valid/'
                          + verdict.split(':')[0],
                          'run with a marker table satisfying the property '
                          'fails: %s' % res_error_text, detail)
            failed = True
    else:
        mg = res['json'].get('marker_genes', {})
        R = case['R']
        rpos = {g: i for i, g in enumerate(R)}
        for p in exp['consulted']:
            ks = mu.key_str(p)
            want = sorted(exp['spec'][p], key=lambda g: rpos[g])
            if mg.get(ks) != want:
                ctx.violation('C08/pipeline/reported-differs',
                              "'marker_genes'[%s] = %r, specification (in "
                              'reference order) = %r' % (ks, mg.get(ks), want),
                              detail)
                failed = True
                break
        for p in mu.tree_parents(eff_tree):
            if p is not None and p not in exp['consulted'] and \
                    mg.get(mu.key_str(p)) != []:
                ctx.violation('C08/single-child/reported-nonempty',
                              'single-child parent %s reports %r'
                              % (mu.key_str(p), mg.get(mu.key_str(p))), detail)
                failed = True
                break
        seen = set()
        for ev in events:
            p = None if ev['parent'] is None else tuple(ev['parent'])
            seen.add(p)
            if p not in exp['spec']:
                ctx.violation('C08/pipeline/unconsulted-node-visited',
                              'node %r visited' % (p,), detail)
                failed = True
                break
            want = sorted(exp['spec'][p], key=lambda g: rpos[g])
            if ev['query_genes'] != ev['reference_genes'] or \
                    ev['query_genes'] != want:
                ctx.violation('C08/pipeline/used-differs',
                              'node %r: query genes %r, reference genes %r, '
                              'specification %r' % (p, ev['query_genes'],
                                                    ev['reference_genes'], want),
                              detail)
                failed = True
                break
        ctx.count('pipeline-nodes-traced', len(seen))
        if None in exp['consulted'] and None not in seen:
            ctx.violation('C08/pipeline/no-root-trace',
                          'hook trace has no event for the root',
                          detail, found_input=False)
            failed = True
    # ---- model ----
    if ctx.driver_ok:
        extra = [case['drop_level']] if case['drop_level'] is not None \
            and case['drop_level'] not in tree else []
        can = mu.Canon(case, extra_levels=extra)
        inp = {'tree': can.tree_json, 'lookup': can.lookup(case['entries']),
               'Q': can.ids(case['Q']), 'R': can.ids(case['R']),
               'm': case['m'], 'flatten': case['flatten'],
               'dropLevel': None if case['drop_level'] is None
               else can.tc.level_id[case['drop_level']]}
        ms = ctx.model('markers.stage', inp)
        if 'err' in ms:
            same = (mu.model_err_class(ms['err']) == verdict)
        else:
            same = res['ok'] and \
                can.unlookup(ms['ok']['reported']) == res['json']['marker_genes']
            if same:
                used = can.unlookup(ms['ok']['used'])
                for ev in events:
                    ks = mu.key_str(None if ev['parent'] is None
                                    else tuple(ev['parent']))
                    if used.get(ks) != ev['query_genes']:
                        same = False
        if not same:
            ctx.disagreements_checked += 1
            if not failed:
                ctx.violation(
                    'C08/correspondence/stage',
                    'correspondence markers.stage no longer checks (impl=%s)'
                    % verdict,
                    dict(detail, model=ms,
                         impl_marker_genes=(res['json'] or {}).get(
                             'marker_genes'),
                         broken='correspondence CTM.Markers.stage ~ '
                                '_run_mapping marker stage'),
                    found_input=False)


# ---------------------------------------------------------------------------

def corpus_dir():
    return core.VERIF / 'corpus' / 'C08'


def run(ctx):
    rng = ctx.rng
    n_unit = 400 if ctx.tier == 'quick' else 5000
    n_pipe = 30 if ctx.tier == 'quick' else 300
    with pipeline.workdir('ctmverif_c08u_') as d:
        cdir = corpus_dir()
        for f in sorted(cdir.glob('*.json')) if cdir.is_dir() else []:
            replay(ctx, json.loads(f.read_text()), workdir=d)
        for i in range(n_unit):
            case = mu.gen_case(rng, max_depth=4 if i % 3 else 5)
            check_unit(ctx, case, 'random', d, metamorphic=(i % 2 == 0))
            if i % 4 == 0:
                for label, c2 in one_edit_variants(rng, case):
                    check_unit(ctx, c2, label, d, metamorphic=False)
    n_sess = 40 if ctx.tier == 'quick' else 400
    with pipeline.workdir('ctmverif_c08s_') as d:
        for i in range(n_sess):
            check_session(ctx, mu.gen_session(rng), d)
    if ctx.tier == 'thorough':
        # around the 16-bit boundary: 300 reference genes (indices fit
        # uint16), 70 000 query columns, markers beyond column 65 535;
        # predicate only (the model's lists are not meant for this size)
        with pipeline.workdir('ctmverif_c08h_') as d:
            for _ in range(2):
                case = mu.gen_case(rng, max_depth=3, pipeline_safe=True)
                filler = ['hq%d' % j for j in range(70000)]
                q0 = list(case['Q'])
                k = rng.randint(0, 3000)
                case['Q'] = filler[k:] + q0 + filler[:k]
                case['R'] = case['R'] + ['rf%d' % j
                                         for j in range(300 - len(case['R']))]
                check_unit(ctx, case, 'huge_query', d, metamorphic=False,
                           use_model=False)
    n_ds = 140 if ctx.tier == 'quick' else 1400
    for i in range(n_ds):
        check_downsample(ctx, gen_downsample(rng, i))
    n_pair = 8 if ctx.tier == 'quick' else 60
    done = 0
    for i in range(n_pair * 6):
        if done >= n_pair:
            break
        c = gen_pipeline_case(rng)
        c['drop_level'] = None
        c['flatten'] = (i % 2 == 1)
        before = ctx.traces
        check_pairing_pipeline(ctx, c, 'flatten' if c['flatten']
                               else 'hierarchical')
        if ctx.traces > before:
            done += 1
    for i in range(n_pipe):
        if i % 3 == 2:
            check_pipeline(ctx, gen_pipeline_case(rng, aimed_drop=True),
                           'aimed-drop')
        else:
            check_pipeline(ctx, gen_pipeline_case(rng), 'random')


def one_edit_variants(rng, case):
    """malformed / edge stream: one-edit changes of a case"""
    out = []
    ent = case['entries']

    def cp():
        return copy.deepcopy(case)
    # root removed / emptied
    c = cp()
    c['entries'] = [e for e in c['entries'] if e[0] is not None]
    out.append(('root_removed', c))
    c = cp()
    for e in c['entries']:
        if e[0] is None:
            e[1] = []
    out.append(('root_emptied', c))
    # a gene of the query that the reference lacks, added to one list
    if ent:
        c = cp()
        i = rng.randrange(len(ent))
        c['Q'] = c['Q'] + ['only_in_query']
        c['entries'][i][1] = list(c['entries'][i][1]) + ['only_in_query']
        out.append(('foreign_gene_in_query', c))
        c = cp()
        i = rng.randrange(len(ent))
        c['entries'][i][1] = list(c['entries'][i][1]) + ['in_neither']
        out.append(('gene_in_neither', c))
    # query shares nothing with the table
    c = cp()
    c['Q'] = ['zz%d' % i for i in range(3)]
    out.append(('disjoint_query', c))
    # a query with MORE columns than the reference has genes: 300-600 extra
    # genes in front, so that markers sit at query columns beyond 255 while
    # the reference has <= 255 (sometimes exactly 255 / 256) genes: the
    # query index of a cache row must still address the same gene name
    c = cp()
    filler = ['wq%d' % j for j in range(rng.randint(300, 600))]
    q0 = list(c['Q'])
    rng.shuffle(q0)
    c['Q'] = filler + q0
    if rng.random() < 0.5:
        # keep a few fillers behind as well
        k = rng.randint(1, 40)
        c['Q'] = filler[k:] + q0 + filler[:k]
    x = rng.random()
    if x < 0.5:
        want = 255 if x < 0.25 else 256
        c['R'] = c['R'] + ['rf%d' % j for j in range(want - len(c['R']))]
        rng.shuffle(c['R'])
    out.append(('wide_query', c))
    # a gene name repeated in the query / reference list (name -> index:
    # the last position wins)
    c = cp()
    g = rng.choice(c['Q'])
    c['Q'].insert(rng.randrange(len(c['Q']) + 1), g)
    out.append(('dup_in_Q', c))
    c = cp()
    g = rng.choice(c['R'])
    c['R'].insert(rng.randrange(len(c['R']) + 1), g)
    out.append(('dup_in_R', c))
    # min_markers at the boundary of one parent's own overlap
    qs = set(case['Q'])
    sizes = [len(set(v) & qs) for k, v in ent if k is not None]
    if sizes:
        s = rng.choice(sizes)
        for mm in (s, s + 1):
            c = cp()
            c['m'] = mm
            out.append(('m_at_boundary', c))
    # all ancestors dropped from the table
    c = cp()
    h = case['tree']['hierarchy']
    if len(h) > 2:
        c['entries'] = [e for e in c['entries']
                        if e[0] is None or e[0][0] == h[-2]]
        out.append(('ancestors_absent', c))
    return out


def replay(ctx, data, workdir=None):
    d = data.get('detail', data)
    kind = d.get('kind')
    if kind == 'unit':
        if workdir is None:
            with pipeline.workdir('ctmverif_c08r_') as w:
                check_unit(ctx, d['case'], d.get('label', 'replay'), w)
        else:
            check_unit(ctx, d['case'], d.get('label', 'corpus'), workdir)
    elif kind == 'pipeline':
        check_pipeline(ctx, d['case'], d.get('label', 'replay'))
    elif kind == 'downsample':
        check_downsample(ctx, d)
    elif kind == 'pairing':
        check_pairing_pipeline(ctx, d['case'], d.get('label', 'replay'))
    elif kind == 'session':
        if workdir is None:
            with pipeline.workdir('ctmverif_c08r_') as w:
                check_session(ctx, d, w)
        else:
            check_session(ctx, d, workdir)
    elif workdir is None:
        print('nothing to replay for kind', kind)
