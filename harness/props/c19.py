"""
C19 -- runs leave inputs untouched, scratch space empty, and do not interfere.

Tie: every stage (precompute, reference markers, validate, mapping) is run in a
subprocess under strace (ctmverif/fsmon.py); the successful file-system calls
under the input / output / scratch directories become the operations of the
Lean model (CTM/Model/Scratch.lean).  The driver checks the footprint
discipline (`footprintOk`, the hypothesis of C19.frame / C19.commute /
C19.inputs_ro), replays the trace and returns the final listing, which is
compared with the real one.  Independently of the model: input digests before
/ after, scratch listing before == after (also after a failed mapping run),
only the requested outputs appear, and the result equals that of a solo run in
pristine directories -- over histories (success after success, success after
each class of failure, stale files planted under every name pattern the
stages use) and pairs of concurrent runs sharing scratch and output
directories.  The clean-up structure of the stage functions is regenerated
from the source (ctmverif/translate_res.py -> CTM/Generated/Resources.lean)
and analysed by the model (`scratch.skeleton`).
"""
import csv
import gc
import hashlib
import json
import os
import pathlib
import re
import shutil

import numpy as np

from ctmverif import core, fsmon, pipeline, translate_res
from props import c20 as c20suite

RULE = ('histories of traced stage runs in shared input/output/scratch '
        'directories: stages precompute / reference markers / validate / '
        'mapping / election (own entry point, shared results directory, '
        'success after a failure with other chunk boundaries); before each run stale files and directories are planted '
        'under every temporary-name pattern of the code base in the scratch '
        'and output directories; mapping histories = success after success, '
        'success after each invalid-input failure (negative raw, markers '
        'absent from query, unknown reference marker, bad taxonomy, missing '
        'or corrupt files, unwritable output); pairs of concurrent mapping '
        'runs sharing both directories.  non-trivial = the traced run '
        'created at least one temporary under the scratch directory; '
        'distinct by (stage, history, failure class, encoding, trace shape)')
TRUSTED = ['strace reports every successful openat/mkdir/unlink/rename/rmdir '
           'of the process tree (the footprint is observed, not derived)',
           'tempfile gives unique names; FileTracker/AnnDataRowIterator '
           'destructors run when the objects are dropped']
ASSUMPTIONS = [
    'the log file is appended to by design (CommandLog.write_log opens it '
    'with mode "a"): it is an output location, excluded from the result '
    'comparison',
    'the system temp directory is replaced by a private TMPDIR per history '
    '(watched like a scratch directory)',
    '_clean_up itself does not raise (skeleton semantics)']

STALE_PATTERNS = [
    ('result_buffer_stale0', 'dir'), ('results_buffer_stale0', 'dir'),
    ('file_tracker_stale0', 'dir'), ('cell_type_mapper_20200101010101_stale0',
                                     'dir'),
    ('anndata_iterator_stale0', 'dir'), ('precomputation_buffer_stale0.h5',
                                         'file'),
    ('precomputation_data_buffer_stale0', 'dir'),
    ('find_markers_stale0', 'dir'), ('columns_0_8_stale0.h5', 'file'),
    ('transpositionstale0', 'dir'), ('query.h5ad_as_csr_stale0.h5', 'file'),
    ('0_2_assignment.json', 'file'), ('tmpstale00', 'dir'),
    ('query_marker_stale0.h5', 'file'), ('unthinned_stale0.h5', 'file'),
    ('transposed_stale0.h5', 'file'),
    ('round_x_to_integers_staging_stale0', 'dir'),
    ('data_as_int_stale0.h5', 'file'), ('transpose_0_8_stale0.h5', 'file'),
    ('stats_stale000.h5', 'file'), ('query_stale000.h5ad', 'file'),
    ('src_stale000.h5', 'file'), ('dst_stale000.h5', 'file'),
    ('transposing_sparse_matrix_stale0', 'dir'),
]


def translate(ctx):
    translate_res.translate(ctx)


# ---------------------------------------------------------------------------
# fixtures
# ---------------------------------------------------------------------------

class Area(object):
    """shared directories of one history: in/ out/ tmp/ are watched,
    job/ (job files, traces, baselines) is not"""

    def __init__(self, wd):
        self.wd = pathlib.Path(wd)
        self.inp = self.wd / 'in'
        self.out = self.wd / 'out'
        self.tmp = self.wd / 'tmp'
        self.job = self.wd / 'job'
        # stand-in for the system temp directory (TMPDIR of every stage
        # process): private to the history, watched like the others
        self.systmp = self.wd / 'systmp'
        for d in (self.inp, self.out, self.tmp, self.job, self.systmp):
            d.mkdir()
        self.n = 0

    def watched(self):
        return [str(self.inp), str(self.out), str(self.tmp),
                str(self.systmp)]

    def tag(self):
        self.n += 1
        return 'r%d' % self.n


def plant_stale(rng, directory, k=None):
    """stale leftovers under every name pattern the stages use"""
    directory = pathlib.Path(directory)
    pats = list(STALE_PATTERNS)
    if k is not None:
        pats = rng.sample(pats, k)
    made = []
    for name, kind in pats:
        p = directory / name
        if p.exists():
            continue
        if kind == 'dir':
            p.mkdir()
            inner = p / rng.choice(['0_2_assignment.json', 'junk.h5',
                                    'results_buffer_stale1'])
            if inner.name.startswith('results_buffer'):
                inner.mkdir()
                (inner / '0_9_assignment.json').write_text(
                    '[{"cell_id": "stale"}]')
            else:
                inner.write_text('[{"cell_id": "stale"}]')
        else:
            p.write_text('[{"cell_id": "stale"}]')
        made.append(str(p))
    return made


def make_reference(rng, path, encoding='csr'):
    """labelled reference with clear cluster / class markers"""
    nprng = np.random.default_rng(rng.randrange(2 ** 31))
    classes = {'A': ['A1', 'A2'], 'B': ['B1', 'B2', 'B3']}
    ng = 16
    genes = ['g%d' % i for i in range(ng)]
    rows, cls, clu, ids = [], [], [], []
    k = 0
    for c, cl in classes.items():
        for name in cl:
            for i in range(rng.randint(10, 13)):
                x = nprng.integers(0, 2, ng).astype(float)
                x[(2 * k) % ng] += 40 + nprng.integers(0, 10)
                x[(2 * k + 1) % ng] += 25 + nprng.integers(0, 10)
                x[10 + (0 if c == 'A' else 1)] += 30 + nprng.integers(0, 5)
                rows.append(x)
                cls.append(c)
                clu.append(name)
                ids.append('r%d' % len(ids))
            k += 1
    pipeline.write_h5ad(path, np.array(rows), ids, genes, encoding=encoding,
                        obs_cols={'class': cls, 'cluster': clu})


def mapping_job(rng, area, failure, tag, tmp_dir=True, obsm=False):
    """inputs of one mapping run under area.inp/<tag>/, outputs named after
    the tag in the shared output directory"""
    sub = area.inp / tag
    sub.mkdir()
    fault = None
    if failure.startswith('worker_'):
        _, mode, point = failure.split('_')[:3]
        fault = {'mode': mode, 'point': point}
        if failure.endswith('_slowsibling'):
            # the siblings are still at work when the failure is noticed
            # chunk 0's worker fails after 1 s -- by then its siblings have
            # done their work and read everything they need -- and they
            # save 2.5 s after finishing, i.e. well after the failed call
            # has cleaned up and returned
            fault['fail_delay'] = 1.0
            fault['save_delay'] = 2.5
    real_failure = failure if failure not in ('unwritable_output',
                                              'unwritable_hdf5') \
        and fault is None else 'success'
    if fault is not None:
        real_failure = 'worker_raise'     # build_case: >= 5 cells, no defect
    cfg, desc = c20suite.build_case(rng, sub, real_failure, awkward=False)
    shutil.rmtree(sub / 'out')
    shutil.rmtree(sub / 'tmp')
    out = area.out
    cfg['tmp_dir'] = str(area.tmp) if tmp_dir else None
    cfg['extended_result_dir'] = str(out)
    cfg['extended_result_path'] = str(out / (tag + '_out.json'))
    cfg['hdf5_result_path'] = str(out / (tag + '_out.h5'))
    cfg['log_path'] = str(out / (tag + '_log.txt'))
    if cfg['csv_result_path'] is not None:
        cfg['csv_result_path'] = str(out / (tag + '_out.csv'))
    cfg['cloud_safe'] = False
    if failure == 'unwritable_output':
        cfg['extended_result_path'] = str(out / 'no_such_dir' /
                                          (tag + '_out.json'))
    if failure == 'unwritable_hdf5':
        # not validated up front: the run itself succeeds and the epilogue
        # of run_mapping (after the clean-up) raises
        cfg['hdf5_result_path'] = str(out / 'no_such_dir' /
                                      (tag + '_out.h5'))
    inputs = [cfg['query_path'], cfg['precomputed_stats']['path'],
              cfg['query_markers']['serialized_lookup']]
    outputs = [cfg['extended_result_path'], cfg['hdf5_result_path'],
               cfg['log_path']]
    if cfg['csv_result_path']:
        outputs.append(cfg['csv_result_path'])
    scratch = [str(area.tmp)] if tmp_dir else [str(out)]
    scratch.append(str(area.systmp))
    if obsm:
        # "the query file is written to only when storing results in it is
        # requested": then, and only then, the query is also an output
        cfg['obsm_key'] = 'ctm_results'
        cfg['obsm_clobber'] = True
        outputs.append(cfg['query_path'])
    job = {'stage': 'mapping', 'config': cfg}
    if fault is not None:
        # several chunks in flight, the failing one in the middle
        cfg['type_assignment']['chunk_size'] = 2
        cfg['type_assignment']['n_processors'] = rng.choice([2, 3])
        import anndata
        n = anndata.read_h5ad(cfg['query_path'], backed='r').shape[0]
        fault['r0'] = 2 * rng.randrange(0, max(1, (n + 1) // 2))
        if 'save_delay' in fault:
            fault['r0'] = 0
            cfg['type_assignment']['n_processors'] = 3
            # flat taxonomy: every worker's last (only) parent node is the
            # one it is computing when the failure is noticed
            cfg['flatten'] = rng.random() < 0.5
        job['fault'] = fault
    return {'stage': 'mapping', 'job': job,
            'inputs': inputs, 'outputs': outputs, 'scratch': scratch,
            'failure': failure, 'encoding': desc['encoding'],
            'expect_ok': failure in ('success', 'csc_query',
                                     'duplicate_cells')}


def precompute_job(rng, area, tag, encoding='csr', copy_data_over=False,
                   tmp_dir=True):
    ref = area.inp / (tag + '_ref.h5ad')
    make_reference(rng, ref, encoding)
    out = area.out / (tag + '_stats.h5')
    return {'stage': 'precompute',
            'job': {'stage': 'precompute', 'data_path': str(ref),
                    'column_hierarchy': ['class', 'cluster'],
                    'output_path': str(out),
                    'tmp_dir': str(area.tmp) if tmp_dir else None,
                    'copy_data_over': copy_data_over,
                    'n_processors': rng.choice([1, 2]),
                    'rows_at_a_time': rng.choice([5, 11, 100])},
            'inputs': [str(ref)], 'outputs': [str(out)],
            'scratch': [str(area.tmp), str(area.systmp)],
            'failure': 'success',
            'encoding': '%s/copy=%s/tmp=%s' % (encoding, copy_data_over,
                                               tmp_dir),
            'expect_ok': True}


def markers_job(rng, area, tag, stats_path):
    out = area.out / (tag + '_refmarkers.h5')
    return {'stage': 'markers',
            'job': {'stage': 'markers', 'precomputed_path': str(stats_path),
                    'output_path': str(out), 'tmp_dir': str(area.tmp),
                    'n_processors': rng.choice([1, 2])},
            'inputs': [str(stats_path)], 'outputs': [str(out)],
            'scratch': [str(area.tmp), str(area.systmp)],
            'failure': 'success',
            'encoding': '-', 'expect_ok': True}


def validate_job(rng, area, tag, encoding='csr', layer='X', values='float',
                 valid_path=None):
    """values='float': needs rounding, so a validated file is written;
    values='int' (+ layer 'X', proper gene ids): already valid, nothing is
    to be written and None is returned.  valid_path: a FIXED output file
    instead of output_dir/<name>_VALIDATED_<timestamp>.h5ad"""
    q = area.inp / (tag + '_q.h5ad')
    nprng = np.random.default_rng(rng.randrange(2 ** 31))
    n, g = rng.randint(3, 8), rng.randint(4, 8)
    if values == 'float':
        X = nprng.random((n, g)) * 40
    else:
        X = nprng.integers(0, 60, (n, g)).astype(float)
        X[0, 0] = 33.0
    pipeline.write_h5ad(q, X, ['c%d' % i for i in range(n)],
                        ['ENSMUSG%011d' % i for i in range(g)],
                        encoding=encoding,
                        layer=None if layer == 'X' else layer)
    job = {'stage': 'validate', 'h5ad_path': str(q),
           'tmp_dir': str(area.tmp), 'layer': layer}
    spec = {'stage': 'validate', 'job': job,
            'inputs': [str(q)], 'outputs': [],
            'scratch': [str(area.tmp), str(area.systmp)],
            'failure': 'success',
            'encoding': '%s/%s/%s' % (encoding, layer, values),
            'expect_ok': True}
    if valid_path is None:
        job['output_dir'] = str(area.out)
        spec['output_glob'] = re.escape(str(area.out)) + '/' + \
            re.escape(tag) + r'_q_VALIDATED_\d+\.h5ad$'
    else:
        job['valid_h5ad_path'] = str(valid_path)
        spec['outputs'] = [str(valid_path)]
    return spec


def election_inputs(rng, area, tag, encoding='dense', n_cells=None):
    """query (+ a second query with the same cell ids and other values),
    stats and the marker cache of one election problem"""
    from cell_type_mapper.type_assignment.marker_cache_v2 import (
        create_marker_cache_from_specified_markers)
    from cell_type_mapper.taxonomy.taxonomy_tree import TaxonomyTree
    sub = area.inp / tag
    sub.mkdir()
    mp = pipeline.MappingProblem(rng, max_depth=3,
                                 n_cells=n_cells or rng.randint(9, 14),
                                 n_genes=12)
    stats, query, _ = mp.write(sub, encoding=encoding)
    other = sub / 'query_other.h5ad'
    pipeline.write_h5ad(other, np.roll(mp.X, 3, axis=0)[:, ::-1] + 1.0,
                        mp.cell_ids, mp.query_genes, encoding=encoding)
    cache = sub / 'marker_cache.h5'
    with pipeline.quiet():
        create_marker_cache_from_specified_markers(
            marker_lookup=mp.markers, reference_gene_names=mp.ref_genes,
            query_gene_names=mp.query_genes, output_cache_path=cache,
            log=None, taxonomy_tree=TaxonomyTree(data=mp.tree),
            min_markers=1)
    return {'query': str(query), 'other': str(other), 'stats': str(stats),
            'cache': str(cache), 'n_cells': len(mp.cell_ids),
            'encoding': encoding}


def election_job(rng, area, inp, tag, which='query', chunk_size=None,
                 n_processors=None, fault=None):
    """`run_type_assignment_on_h5ad(..., results_output_path=<the shared
    scratch directory>)`; the returned list is stored by the runner in the
    unwatched job directory"""
    result_path = area.job / (tag + '_election.json')
    job = {'stage': 'election', 'query_path': inp[which],
           'precomputed_path': inp['stats'],
           'marker_cache_path': inp['cache'],
           'n_processors': n_processors or rng.choice([2, 3]),
           'chunk_size': chunk_size or rng.choice([2, 3, 4, 5]),
           'bootstrap_factor': 0.6, 'bootstrap_iteration': 7,
           'rng_seed': 2718, 'tmp_dir': str(area.tmp),
           'results_output_path': str(area.tmp),
           'result_path': str(result_path)}
    if fault is not None:
        job['fault'] = fault
    return {'stage': 'election', 'job': job,
            'inputs': [inp[which], inp['stats'], inp['cache']],
            'outputs': [], 'scratch': [str(area.tmp), str(area.systmp)],
            'failure': 'success' if fault is None else
            'worker_%s_%s' % (fault['mode'], fault['point']),
            'encoding': inp['encoding'], 'expect_ok': fault is None}


# ---------------------------------------------------------------------------
# results, canonicalised
# ---------------------------------------------------------------------------

def h5_digest(path, skip=('metadata', 'uns', 'log', 'timestamp')):
    import h5py
    out = {}
    with h5py.File(path, 'r') as f:
        def visit(name, obj):
            if isinstance(obj, h5py.Dataset):
                if any(s in name for s in skip):
                    return
                v = obj[()]
                if isinstance(v, bytes) and name.endswith('taxonomy_tree'):
                    try:
                        t = json.loads(v.decode('utf-8'))
                        t.pop('metadata', None)
                        v = json.dumps(t, sort_keys=True).encode()
                    except Exception:
                        pass
                if isinstance(v, np.ndarray) and v.dtype == object:
                    b = repr(v.tolist()).encode()
                elif hasattr(v, 'tobytes'):
                    b = v.tobytes()
                else:
                    b = repr(v).encode()
                out[name] = hashlib.sha1(b).hexdigest()
        f.visititems(visit)
    return out


def result_of(spec):
    """canonical result of a finished run (None where nothing was written)"""
    st = spec['stage']
    res = {}
    if st == 'election':
        p = pathlib.Path(spec['job']['result_path'])
        if p.is_file():
            try:
                res['assignments'] = sorted(
                    json.loads(p.read_text()),
                    key=lambda c: json.dumps(c, sort_keys=True))
            except Exception as e:
                res['json_error'] = repr(e)
        return res
    if st == 'validate':
        # what the caller gets back: the path handed back (None = "your file
        # is fine, use it") and the content of the file at that path
        ret = (spec.get('status') or {}).get('returned')
        if ret is not None:
            name = ret[0]
            if name is not None:
                res['validated'] = h5_digest(name) \
                    if os.path.isfile(name) else 'missing'
                name = re.sub(r'\d{6,}', 'N', os.path.basename(name))
            res['returned'] = name
        for o in spec['outputs']:
            res['file_at_requested_path'] = h5_digest(o) \
                if os.path.isfile(o) else None
        return res
    if st == 'mapping':
        cfg = spec['job']['config']
        p = pathlib.Path(cfg['extended_result_path'])
        if p.is_file():
            try:
                blob = json.loads(p.read_text())
                res['results'] = blob.get('results')
                res['marker_genes'] = blob.get('marker_genes')
            except Exception as e:
                res['json_error'] = repr(e)
        c = cfg.get('csv_result_path')
        if c and pathlib.Path(c).is_file():
            res['csv'] = [l for l in pathlib.Path(c).read_text().splitlines()
                          if not l.startswith('#')]
    else:
        outs = list(spec['outputs'])
        if spec.get('output_glob'):
            d = os.path.dirname(spec['output_glob'].replace('\\', ''))
        for o in outs:
            if os.path.isfile(o):
                res[os.path.basename(o)] = h5_digest(o)
        for o in spec.get('found_outputs', []):
            res['validated'] = h5_digest(o)
    return res


# ---------------------------------------------------------------------------
# one traced run (or several concurrent ones) + all checks
# ---------------------------------------------------------------------------

def snapshot(area):
    lst = {}
    for w in area.watched():
        lst.update(fsmon.listing(w))
    dig = fsmon.digests([p for p, k in lst.items() if k == 'file'])
    return lst, dig


def created_paths(spec):
    """paths the traced process tree of the run created"""
    out = set()
    for ev in spec.get('events') or []:
        if ev['call'] == 'mkdir' or (
                ev['call'] in ('openat', 'open', 'creat')
                and 'O_CREAT' in ev.get('flags', '')):
            out.add(ev['path'])
    return out


def temp_class(name, stage):
    """stable class of a temporary's name: its prefix without the random part
    and the timestamp"""
    if '_as_csr_' in name:
        # <file name>[<random>.h5ad]_as_csr_<random>.h5: the CSR transcription
        return 'h5ad_as_csr' if stage == 'mapping' \
            else '%s-h5ad_as_csr' % stage
    m = re.match(r'^(.*?)[a-z0-9_]{8}(\.\w+)?$', name)
    base = m.group(1) if m else name
    base = re.sub(r'\d{6,}', '', base).strip('_') or 'tmp'
    return base if stage == 'mapping' else '%s-%s' % (stage, base)


def under(p, d):
    return p == d or p.startswith(d.rstrip('/') + '/')


def run_specs(ctx, area, specs, history, traced=True):
    """run the specs concurrently (usually one), check everything; returns the
    list of (status, result)"""
    before, dig0 = snapshot(area)
    handles = []
    for s in specs:
        s['tag'] = area.tag()
        s['job']['watch'] = list(s['scratch'])
        if traced:
            handles.append(fsmon.start_traced(s['job'], area.job, s['tag'],
                                              tmpdir=area.systmp))
    outs = []
    for s, h in zip(specs, handles):
        status, text = fsmon.finish_traced(h)
        s['status'] = status
        s['events'] = fsmon.parse_trace(text, h['cwd'])
        for f in (h['trace'],):
            f.unlink()
    if not traced:
        for s in specs:
            s['status'] = fsmon.run_plain(s['job'], area.job, s['tag'],
                                          tmpdir=area.systmp)
            s['events'] = None
    after, dig1 = snapshot(area)
    for s in specs:
        check_one(ctx, area, s, specs, history, before, dig0, after, dig1)
        outs.append((s['status'], result_of(s)))
    if traced and ctx.driver_ok:
        check_model(ctx, area, specs, history, before, after)
    return outs


def describe(spec, history):
    return {'stage': spec['stage'], 'failure': spec['failure'],
            'history': history, 'encoding': spec['encoding'],
            'tmp_dir_given': spec['scratch'] != []
            and 'tmp' in os.path.basename(spec['scratch'][0])}


def check_one(ctx, area, spec, all_specs, history, before, dig0, after,
              dig1):
    """predicates on the implementation alone"""
    st = spec['status']
    d = describe(spec, history)
    ctx.count('run:%s:%s:%s' % (spec['stage'], spec['failure'],
                                'ok' if st['ok'] else 'error'))
    ctx.traces += 1 if spec['events'] is not None else 0
    detail = {'kind': 'history', 'history': history, 'spec': d,
              'error': st.get('error')}
    sigbase = 'C19/%s' % spec['stage']
    if spec['expect_ok'] != st['ok']:
        # fixture trouble is not a property violation -- unless a run that
        # succeeds alone fails in a shared directory, which check_history
        # decides by comparing with the solo run
        ctx.count('unexpected_status:%s:%s' % (spec['stage'],
                                               spec['failure']))
    # outputs of this and the concurrent runs
    all_outputs = set()
    for s in all_specs:
        all_outputs.update(s['outputs'])
        if s.get('output_glob'):
            rx = re.compile(s['output_glob'])
            found = [p for p in after if rx.match(p) and p not in before]
            if s is spec:
                spec['found_outputs'] = found
            all_outputs.update(found)
    # P1 inputs untouched
    for p in spec['inputs']:
        if p in all_outputs:
            continue
        if dig0.get(p) != dig1.get(p):
            ctx.violation(sigbase + '/input-modified',
                          '%s run (%s) changed its input %s'
                          % (spec['stage'], history, os.path.basename(p)),
                          dict(detail, path=p, before=dig0.get(p),
                               after=dig1.get(p)))
    # P2 scratch restored (stage returned; mapping also when it failed)
    if st['ok'] or spec['stage'] == 'mapping':
        alone = len(all_specs) == 1 and 'at_return' in st
        # among concurrent runs a leftover is charged to the run whose
        # process tree created it (when the traces tell)
        others_made = set()
        if len(all_specs) > 1:
            mine = created_paths(spec)
            for o in all_specs:
                if o is not spec:
                    others_made |= created_paths(o) - mine
        for sd in spec['scratch']:
            left = sorted(p for p in after
                          if under(p, sd) and p not in before
                          and p not in all_outputs
                          and not any(under(p, m) for m in others_made))
            if alone:
                # present when the call returned / appeared only afterwards
                # (written by a worker that outlived the call)
                at_ret = set(st['at_return'])
                appeared = [p for p in left if p not in at_ret]
                left = [p for p in left if p in at_ret]
                if appeared:
                    pat = temp_class(os.path.basename(appeared[0]),
                                     spec['stage'])
                    ctx.violation(
                        'C19/scratch/appears-after-return/%s%s' % (
                            'system-tmp/' if sd == str(area.systmp) else '',
                            pat),
                        '%s run (%s, %s): the scratch directory was clean '
                        'when the call returned, then %s appeared (written '
                        'by a process that outlived the call)'
                        % (spec['stage'], history, spec['failure'],
                           [os.path.relpath(x, sd) for x in appeared[:4]]),
                        dict(detail, appeared=appeared, job=spec['job'],
                             settled=st.get('settled')))
            gone = sorted(p for p in before if under(p, sd)
                          and p not in after and p not in all_outputs)
            if left:
                pat = temp_class(os.path.basename(left[0]), spec['stage'])
                cls = 'after-error' if not st['ok'] else 'after-return'
                early = ''
                if spec['failure'] == 'unwritable_output':
                    early = '-early'
                if spec['failure'].startswith('worker_') and not st['ok'] \
                        and all(re.match(
                            r'^result_buffer_[a-z0-9_]{8}(/results_buffer_'
                            r'[a-z0-9_]{8}(/\d+_\d+_assignment\.json)?)?$',
                            os.path.relpath(x, sd)) for x in left):
                    # an orphaned worker outlived the failed run and kept
                    # writing into result_buffer_*/results_buffer_*: runtime
                    # behaviour, its own class (exactly this shape)
                    cls = 'after-worker-failure'
                if sd == str(area.systmp):
                    # left in the system temp directory (TMPDIR)
                    pat = 'system-tmp/' + pat
                ctx.violation(
                    'C19/scratch/%s-left-%s%s' % (pat, cls, early),
                    '%s run (%s, %s) left %s in the scratch directory'
                    % (spec['stage'], history, spec['failure'],
                       [os.path.relpath(x, sd) for x in left[:4]]),
                    dict(detail, left=left, job=spec['job']))
            touched = sorted(p for p in before if under(p, sd)
                             and p in after and p not in all_outputs
                             and dig0.get(p) != dig1.get(p))
            if touched:
                ctx.violation(sigbase + '/scratch/modified-foreign',
                              '%s run (%s) modified files of the scratch '
                              'directory it did not create: %s'
                              % (spec['stage'], history, touched[:4]),
                              dict(detail, touched=touched, job=spec['job']))
            if gone:
                ctx.violation(sigbase + '/scratch/removed-foreign',
                              '%s run (%s) removed entries of the scratch '
                              'directory it did not create: %s'
                              % (spec['stage'], history, gone[:4]),
                              dict(detail, gone=gone, job=spec['job']))
    else:
        # a stage that FAILED may leave its own temporaries behind (only the
        # mapping run promises otherwise) -- but whatever was in the scratch
        # directory before the call and is not an output must still be there,
        # untouched: in particular the directory itself
        for sd in spec['scratch']:
            gone = sorted(p for p in before if under(p, sd)
                          and p not in after and p not in all_outputs)
            touched = sorted(p for p in before if under(p, sd)
                             and p in after and p not in all_outputs
                             and dig0.get(p) != dig1.get(p))
            if gone:
                ctx.violation(sigbase + '/scratch/removed-foreign',
                              'failed %s run (%s, %s) removed entries of the '
                              'scratch directory it did not create: %s'
                              % (spec['stage'], history, spec['failure'],
                                 gone[:4]),
                              dict(detail, gone=gone, job=spec['job']))
            if touched:
                ctx.violation(sigbase + '/scratch/modified-foreign',
                              'failed %s run (%s, %s) modified files of the '
                              'scratch directory it did not create: %s'
                              % (spec['stage'], history, spec['failure'],
                                 touched[:4]),
                              dict(detail, touched=touched, job=spec['job']))
    # P3 only the requested outputs appear / change elsewhere
    changed = sorted(p for p in set(before) | set(after)
                     if (before.get(p) != after.get(p)
                         or dig0.get(p) != dig1.get(p))
                     and not any(under(p, sd) for s in all_specs
                                 for sd in s['scratch'])
                     and p not in all_outputs)
    if changed:
        ctx.violation(sigbase + '/stray-output',
                      '%s run (%s) created or changed %s outside the '
                      'requested outputs' % (spec['stage'], history,
                                             changed[:4]),
                      dict(detail, changed=changed, job=spec['job']))


def ops_for(area, spec, extra_scratch=()):
    return fsmon.to_ops(spec['events'], area.watched(),
                        list(spec['scratch']) + list(extra_scratch))


def check_model(ctx, area, specs, history, before, after):
    """footprint discipline + replay of the trace(s) in the model"""
    all_ops = []
    for spec in specs:
        ops = ops_for(area, spec)
        spec['ops'] = ops
        d = describe(spec, history)
        outputs = list(spec['outputs']) + list(spec.get('found_outputs', []))
        decl = {'scratch': [fsmon.comps(p) for p in spec['scratch']],
                'outputs': [fsmon.comps(p) for p in outputs],
                'inputs': [fsmon.comps(p) for p in spec['inputs']]}
        n_tmp = sum(1 for o in ops if o['op'] in ('mkdtemp', 'mkstemp'))
        shape = tuple(o['op'] for o in ops)
        ctx.case((spec['stage'], history, spec['failure'], spec['encoding'],
                  hashlib.sha1(repr(shape).encode()).hexdigest()[:10])
                 if n_tmp else None,
                 sample={'spec': d, 'n_ops': len(ops), 'n_temporaries': n_tmp,
                         'ops_head': [(o['op'], os.path.relpath(
                             fsmon.uncomps(o['p']), str(area.wd)))
                             for o in ops[:6]]})
        ctx.count('ops:%s' % spec['stage'], len(ops))
        # which temporary-name patterns the code really uses, and whether a
        # stale entry of that pattern was planted (coverage, goes to evidence)
        seen = ctx.extra_cov.setdefault('temp_patterns_seen', {})
        planted = [n for n, _ in STALE_PATTERNS]
        for o in ops:
            if o['op'] in ('mkdtemp', 'mkstemp'):
                cls = temp_class(o['p'][-1], 'mapping')
                cls = re.sub(r'^(\d+_)+', '', re.sub(r'_\d+(?=_|$)', '', cls))
                hit = any(cls and (pn.startswith(cls) or cls in pn)
                          for pn in planted)
                seen[cls] = 'planted' if hit else 'not planted'
        probe = sorted(set(before) | set(after)
                       | set(fsmon.uncomps(o['p']) for o in ops)
                       | set(fsmon.uncomps(o['q']) for o in ops if 'q' in o))
        req = {'initial': [[fsmon.comps(p), k] for p, k in before.items()],
               'ops': [{k: v for k, v in o.items() if k != 'pid'}
                       for o in ops],
               'decl': decl, 'probe': [fsmon.comps(p) for p in probe]}
        res = ctx.model('scratch.replay', req)
        spec['replay'] = res
        if not res['footprintOk']:
            i = res['firstOutside']
            bad = ops[i]
            rel = os.path.relpath(fsmon.uncomps(bad['p']), str(area.wd))
            where = rel.split('/')[0]
            ctx.violation(
                'C19/footprint/%s/%s-%s' % (spec['stage'], bad['op'], where),
                '%s run (%s): operation %s %s is outside the footprint '
                '(not under a temporary of the run, not a declared input / '
                'output): hypothesis footprintOk of C19.frame / C19.commute '
                'fails' % (spec['stage'], history, bad['op'], rel),
                {'kind': 'history', 'history': history, 'spec': d,
                 'op': bad, 'index': i, 'job': spec['job'],
                 'broken': 'footprintOk (hypothesis of C19.frame, '
                           'C19.commute, C19.inputs_ro)'},
                found_input=False)
        all_ops += ops
    # replay of everything that happened (runs one after the other: by
    # C19.commute the order of the interleaving does not matter)
    probe = sorted(set(before) | set(after)
                   | set(fsmon.uncomps(o['p']) for o in all_ops)
                   | set(fsmon.uncomps(o['q']) for o in all_ops if 'q' in o))
    req = {'initial': [[fsmon.comps(p), k] for p, k in before.items()],
           'ops': [{k: v for k, v in o.items() if k != 'pid'}
                   for o in all_ops],
           'decl': {'scratch': [], 'outputs': [], 'inputs': []},
           'probe': [fsmon.comps(p) for p in probe]}
    res = ctx.model('scratch.replay', req)
    d = {'kind': 'history', 'history': history,
         'specs': [describe(s, history) for s in specs]}
    if res['firstNotOk'] is not None and len(specs) == 1:
        i = res['firstNotOk']
        ctx.disagreements_checked += 1
        ctx.violation('C19/correspondence/replay/op-not-enabled/%s'
                      % all_ops[i]['op'],
                      'operation %d of the trace (%s %s) cannot succeed in '
                      'the model state' % (i, all_ops[i]['op'],
                                           fsmon.uncomps(all_ops[i]['p'])),
                      dict(d, op=all_ops[i], broken='correspondence '
                           'CTM.Scratch.step ~ strace trace'),
                      found_input=False)
        return
    model_final = {fsmon.uncomps(p): k for p, k in res['final']
                   if k is not None}
    if model_final != dict(after):
        ctx.disagreements_checked += 1
        diff = sorted(p for p in set(model_final) | set(after)
                      if model_final.get(p) != after.get(p))
        ctx.violation('C19/correspondence/replay/final-listing',
                      'replaying the trace in the model gives a different '
                      'listing: %s' % [(p, model_final.get(p), after.get(p))
                                       for p in diff[:4]],
                      dict(d, diff=diff[:20], broken='correspondence '
                           'CTM.Scratch.exec ~ strace trace'),
                      found_input=False)


def solo_result(ctx, rng_state, build, label):
    """the same job in pristine directories, untraced"""
    import random
    r = random.Random()
    r.setstate(rng_state)
    with pipeline.workdir('ctmverif_c19s_') as wd:
        area = Area(wd)
        spec = build(r, area)
        spec['tag'] = area.tag()
        spec['status'] = fsmon.run_plain(spec['job'], area.job, spec['tag'],
                                         tmpdir=area.systmp)
        after, _ = snapshot(area)
        if spec.get('output_glob'):
            rx = re.compile(spec['output_glob'])
            spec['found_outputs'] = [p for p in after if rx.match(p)]
        return spec['status'], result_of(spec)


def solo_results(ctx, items):
    """several solo baselines, two at a time; items = [(state, build, label)]"""
    from concurrent.futures import ThreadPoolExecutor
    with ThreadPoolExecutor(max_workers=2) as ex:
        futs = [ex.submit(solo_result, ctx, st, b, l) for st, b, l in items]
        return [f.result() for f in futs]


def compare_with_solo(ctx, spec, history, got, solo):
    (st, res), (st0, res0) = got, solo
    d = {'kind': 'history', 'history': history,
         'spec': describe(spec, history), 'job': spec['job'],
         'status': st, 'solo_status': st0}
    ctx.evaluations += 1
    if st['ok'] != st0['ok']:
        ctx.violation('C19/%s/outcome-depends-on-history' % spec['stage'],
                      '%s run %s in shared directories (%s) but %s alone'
                      % (spec['stage'], 'succeeds' if st['ok'] else
                         'fails: %s' % st.get('error'), history,
                         'succeeds' if st0['ok'] else 'fails'), d)
        return
    if res != res0:
        keys = [k for k in set(res) | set(res0) if res.get(k) != res0.get(k)]
        ctx.violation('C19/%s/result-depends-on-history' % spec['stage'],
                      '%s result (%s) differs from the solo run in %s'
                      % (spec['stage'], history, keys), d)


# ---------------------------------------------------------------------------
# histories
# ---------------------------------------------------------------------------

MAPPING_FAILURES = ['negative_raw', 'no_marker_overlap',
                    'unknown_reference_marker', 'bad_taxonomy',
                    'missing_query', 'missing_stats', 'missing_markers',
                    'corrupt_query', 'corrupt_stats', 'corrupt_markers',
                    'duplicate_genes', 'worker_raise_before',
                    'worker_exit_before', 'worker_kill_before',
                    'worker_raise_after', 'worker_raise_before_slowsibling',
                    'worker_kill_before_slowsibling', 'unwritable_hdf5',
                    'unwritable_output']


def history_mapping(ctx, rng, failure, encoding_hint=None, tmp_dir=True,
                    traced_all=True, then_success=True, obsm=False):
    """stale files -> [failing run] -> successful run, same directories; the
    successful run is compared with a solo run"""
    hist = 'stale+%s+success' % failure if failure else 'stale+success'
    if not tmp_dir:
        hist += '/no-tmp-dir'
    if obsm:
        hist += '/obsm'
    with pipeline.workdir('ctmverif_c19_') as wd:
        area = Area(wd)
        plant_stale(rng, area.tmp)
        plant_stale(rng, area.out, k=6)
        plant_stale(rng, area.systmp, k=4)
        if failure:
            bad = mapping_job(rng, area, failure, 'bad', tmp_dir)
            run_specs(ctx, area, [bad], hist + ':failing', traced=traced_all)
        if not then_success:
            return
        state = rng.getstate()
        fail2 = 'csc_query' if encoding_hint == 'csc' else 'success'

        def build(r, a):
            return mapping_job(r, a, fail2, 'good', tmp_dir, obsm)
        good = build(rng, area)
        # results of an "earlier run" at the very output locations: they must
        # be overwritten, not merged (the log file is appended to by design)
        for o in good['outputs']:
            if not o.endswith('_log.txt') and o != \
                    good['job']['config']['query_path']:
                pathlib.Path(o).write_text('{"results": "stale"}')
        got = run_specs(ctx, area, [good], hist + ':success')[0]
        solo = solo_result(ctx, state, build, 'mapping')
        compare_with_solo(ctx, good, hist, got, solo)


def history_stages(ctx, rng, encoding='csr', twice=False,
                   fixed_valid=True, copy_data_over=False, tmp_dir=True):
    """precompute -> reference markers (on the fresh stats) and validate, all
    in the same scratch/output directories with stale files planted"""
    hist = 'stale+chain'
    with pipeline.workdir('ctmverif_c19_') as wd:
        area = Area(wd)
        plant_stale(rng, area.tmp)
        plant_stale(rng, area.out, k=5)
        state = rng.getstate()

        def build_p(r, a):
            return precompute_job(r, a, 'p', encoding, copy_data_over,
                                  tmp_dir)
        p = build_p(rng, area)
        v_layer = rng.choice(['X', 'X', 'raw_counts'])
        state_v = rng.getstate()

        def build_v(r, a):
            return validate_job(r, a, 'v', encoding, layer=v_layer)
        v = build_v(rng, area)
        # a second validation, to a FIXED valid_h5ad_path at which an
        # earlier validation (of another sample) left its file: an input
        # that is already valid must give None and no file, as in a pristine
        # directory; one that needs reformatting must overwrite it
        w_values = 'int' if fixed_valid else rng.choice(['int', 'float'])
        rng_enc = rng.choice(['csr', 'csc', 'dense'])
        state_w = rng.getstate()

        def build_w(r, a):
            return validate_job(r, a, 'w', rng_enc, values=w_values,
                                valid_path=a.out / 'validated_fixed.h5ad')
        w = build_w(rng, area)
        stale_src = validate_job(rng, area, 'old', 'csr', values='float')
        shutil.copy(stale_src['inputs'][0],
                    area.out / 'validated_fixed.h5ad')
        # precompute and the validations do not depend on each other: run
        # them concurrently, sharing the scratch and output directories
        got = run_specs(ctx, area, [p, v, w],
                        hist + ':precompute||validate||validate-fixed')
        solos = solo_results(ctx, [(state, build_p, 'precompute'),
                                   (state_v, build_v, 'validate'),
                                   (state_w, build_w, 'validate')])
        compare_with_solo(ctx, p, hist, got[0], solos[0])
        compare_with_solo(ctx, v, hist, got[1], solos[1])
        compare_with_solo(ctx, w, hist + ':validate-fixed', got[2],
                          solos[2])
        if got[0][0]['ok']:
            stats = p['outputs'][0]
            m = markers_job(rng, area, 'm', stats)
            got_m = run_specs(ctx, area, [m], hist + ':markers')[0]
            if twice:
                m2 = markers_job(rng, area, 'm2', stats)
                m2['job']['n_processors'] = m['job']['n_processors']
                got_m2 = run_specs(ctx, area, [m2], hist + ':markers-again')
                ctx.evaluations += 1
                r1 = list(got_m[1].values())
                r2 = list(got_m2[0][1].values())
                if r1 != r2:
                    ctx.violation('C19/markers/result-depends-on-history',
                                  'second reference-marker run in the same '
                                  'directories gives a different file',
                                  {'kind': 'history', 'history': hist})


def history_election(ctx, rng, encoding='dense', pair=False):
    """the election stage through its own entry point with a results
    directory shared by the whole history: stale chunk files planted, a run
    that fails after some workers wrote their chunks (same cell ids, other
    values, other chunk boundaries), then the run under test -- its result
    must equal the run in a pristine directory and the directory must be as
    before once it has returned.  (A failed direct call may leave its
    results_buffer_* behind: clean-up on error is promised for a mapping run
    only.)"""
    hist = 'stale+election-failure+election' + ('-pair' if pair else '')
    with pipeline.workdir('ctmverif_c19_') as wd:
        area = Area(wd)
        plant_stale(rng, area.tmp, k=8)
        # stale chunk records under the names a shared buffer would use
        # (only in some histories: otherwise a shared buffer would trip over
        # these before it could silently mix in the chunk files of the
        # failed run below)
        junk = ('results_buffer', 'results_buffer_stale1') \
            if rng.random() < 0.4 else ('results_buffer_stale1',)
        for d in junk:
            (area.tmp / d).mkdir(exist_ok=True)
            (area.tmp / d / '0_900_assignment.json').write_text(
                '[{"cell_id": "stale"}]')
        state = rng.getstate()

        def build_inp(r, a):
            return election_inputs(r, a, 'e', encoding)
        inp = build_inp(rng, area)
        n = inp['n_cells']
        # failing run: same cell ids, other values, other chunking; a late
        # chunk's worker is killed after the others wrote their files
        cs_bad = rng.choice([2, 3])
        r0_bad = cs_bad * ((n - 1) // cs_bad)
        bad = election_job(rng, area, inp, 'bad', which='other',
                           chunk_size=cs_bad, n_processors=2,
                           fault={'mode': rng.choice(['kill', 'raise']),
                                  'point': 'before', 'r0': r0_bad})
        run_specs(ctx, area, [bad], hist + ':failing', traced=False)
        cs_good = rng.choice([c for c in (4, 5, 7) if c != cs_bad])
        nproc = rng.choice([2, 3])
        state2 = rng.getstate()

        def build(r, a, tag='good'):
            i = build_inp(r, a) if a is not area else inp
            return election_job(r, a, i, tag, chunk_size=cs_good,
                                n_processors=nproc)

        def build_solo(r, a):
            r.setstate(state)
            i = build_inp(r, a)
            return election_job(r, a, i, 'good', chunk_size=cs_good,
                                n_processors=nproc)
        specs = [build(rng, area)]
        if pair:
            specs.append(election_job(rng, area, inp, 'good2',
                                      which='other', chunk_size=cs_bad,
                                      n_processors=nproc))
        got = run_specs(ctx, area, specs, hist + ':success')
        solo = solo_result(ctx, state2, build_solo, 'election')
        compare_with_solo(ctx, specs[0], hist, got[0], solo)


SCRATCH_FAIL_MODES = ['file', 'missing', 'enospc', 'enospc2']
SCRATCH_FAIL_STAGES = ['validate', 'precompute', 'markers', 'election',
                       'mapping']


def history_scratch_failure(ctx, rng, stage, mode):
    """the scratch space cannot be set up: tmp_dir names a regular file / a
    path that does not exist, or tempfile.mkdtemp raises ENOSPC (first or
    second call).  Whatever the stage does then, nothing that existed before
    the call and is not an output may be removed or modified -- the caller's
    scratch directory and the foreign files in it survive."""
    hist = 'stale+scratch-failure-%s' % mode
    with pipeline.workdir('ctmverif_c19_') as wd:
        area = Area(wd)
        plant_stale(rng, area.tmp, k=6)
        bad_tmp = None
        if mode == 'file':
            bad_tmp = area.tmp / 'not_a_directory.txt'
            bad_tmp.write_text('a regular file passed as tmp_dir')
        elif mode == 'missing':
            bad_tmp = area.tmp / 'no_such_dir'
        if stage == 'validate':
            spec = validate_job(rng, area, 'v', rng.choice(['csr', 'dense']))
        elif stage == 'precompute':
            spec = precompute_job(rng, area, 'p', rng.choice(['csr', 'csc']),
                                  copy_data_over=rng.random() < 0.5)
        elif stage == 'markers':
            p = precompute_job(rng, area, 'p', 'csr')
            p['tag'] = area.tag()
            st = fsmon.run_plain(p['job'], area.job, p['tag'],
                                 tmpdir=area.systmp)
            if not st['ok']:
                return
            spec = markers_job(rng, area, 'm', p['outputs'][0])
        elif stage == 'election':
            inp = election_inputs(rng, area, 'e', rng.choice(['dense',
                                                              'csc']))
            spec = election_job(rng, area, inp, 'e')
        else:
            spec = mapping_job(rng, area, 'csc_query'
                               if rng.random() < 0.5 else 'success', 'm')
        job = spec['job']
        if bad_tmp is not None:
            if stage == 'mapping':
                job['config']['tmp_dir'] = str(bad_tmp)
            else:
                job['tmp_dir'] = str(bad_tmp)
        else:
            job['fail_mkdtemp'] = {'nth': 2 if mode == 'enospc2' else 1}
        spec['failure'] = 'scratch_%s' % mode
        spec['expect_ok'] = False
        run_specs(ctx, area, [spec], hist, traced=False)


def history_pair(ctx, rng, n=2):
    """concurrent mapping runs sharing scratch and output directories"""
    hist = 'stale+concurrent-pair'
    with pipeline.workdir('ctmverif_c19_') as wd:
        area = Area(wd)
        plant_stale(rng, area.tmp, k=6)
        specs, states, builds = [], [], []
        for i in range(n):
            fl = 'csc_query' if (i == 0 and rng.random() < 0.6) else 'success'
            states.append(rng.getstate())

            def build(r, a, i=i, fl=fl):
                return mapping_job(r, a, fl, 'c%d' % i, True)
            builds.append(build)
            specs.append(build(rng, area))
        got = run_specs(ctx, area, specs, hist)
        solos = solo_results(ctx, [(st, b, 'mapping')
                                   for st, b in zip(states, builds)])
        for s, g, so in zip(specs, got, solos):
            compare_with_solo(ctx, s, hist, g, so)


def check_skeletons(ctx):
    """the regenerated clean-up structure, analysed by the model: what may be
    left live at each kind of exit"""
    if not ctx.driver_ok:
        return None
    sk = ctx.model('scratch.skeleton', {})
    ctx.extra_cov['skeleton_may_leak'] = sk
    ctx.evaluations += len(sk)
    want_empty = [('runMapping', 'norm'), ('runMapping', 'ret'),
                  ('runMapping', 'exc'),
                  ('precompute', 'norm'), ('precompute', 'ret'),
                  ('validateH5ad', 'norm'), ('validateH5ad', 'ret'),
                  ('validateH5ad', 'exc'),
                  ('findMarkers', 'norm'), ('findMarkers', 'ret'),
                  ('typeAssignment', 'norm'), ('typeAssignment', 'ret')]
    for f in ('findMarkersFromPMask', 'createPValueMask', 'amalgamateH5ad',
              'pivotCsrH5ad', 'transposeByWayOfDisk', 'transposeOnDiskV2'):
        want_empty += [(f, 'norm'), (f, 'ret'), (f, 'exc')]
    for f in ('addSparseByGene', 'roundXToIntegers'):
        want_empty += [(f, 'norm'), (f, 'ret')]
    bad = [(f, e, sk[f][e]) for f, e in want_empty if sk[f][e]]
    return bad


def run(ctx):
    rng = ctx.rng
    cdir = core.VERIF / 'corpus' / 'C19'
    for f in sorted(cdir.glob('*.json')) if cdir.is_dir() else []:
        replay(ctx, json.loads(f.read_text()), from_corpus=True)
    bad = check_skeletons(ctx)
    if ctx.tier == 'quick':
        fails = rng.sample(MAPPING_FAILURES[:-1], 1)
        history_mapping(ctx, rng, fails[0], encoding_hint='csc')
        history_mapping(ctx, rng, 'unwritable_output', traced_all=False,
                        then_success=False)
        # the error comes from the epilogue of run_mapping (its finally
        # block), not from the mapping itself
        history_mapping(ctx, rng, rng.choice(['unwritable_hdf5',
                                              'corrupt_query']),
                        traced_all=False, then_success=False)
        # a worker fails while its siblings are still at work: whatever they
        # write after the failed call has returned is looked for as well
        history_mapping(ctx, rng, rng.choice(
            ['worker_raise_before_slowsibling',
             'worker_kill_before_slowsibling']), traced_all=False,
            then_success=False)
        history_stages(ctx, rng, rng.choice(['csr', 'csc', 'dense']),
                       copy_data_over=True)
        history_pair(ctx, rng)
        # CSC: the row iterator transcribes the query to CSR in scratch space
        history_election(ctx, rng, 'csc')
        # scratch space that cannot be set up
        history_scratch_failure(ctx, rng, 'validate', 'file')
        history_scratch_failure(ctx, rng, 'validate', 'enospc')
        history_scratch_failure(ctx, rng, rng.choice(SCRATCH_FAIL_STAGES[1:]),
                                rng.choice(SCRATCH_FAIL_MODES))
    else:
        for i, f in enumerate(MAPPING_FAILURES):
            history_mapping(ctx, rng, f,
                            encoding_hint='csc' if i % 3 == 0 else None)
        history_mapping(ctx, rng, None, encoding_hint='csc')
        history_mapping(ctx, rng, 'negative_raw', tmp_dir=False)
        history_mapping(ctx, rng, None, tmp_dir=False)
        history_mapping(ctx, rng, None, obsm=True)
        history_mapping(ctx, rng, 'negative_raw', obsm=True,
                        encoding_hint='csc')
        for i, enc in enumerate(('csr', 'csc', 'dense', 'csc', 'csr',
                                 'dense')):
            history_stages(ctx, rng, enc, twice=(i == 0),
                           fixed_valid=(enc != 'dense'),
                           copy_data_over=(i % 2 == 1), tmp_dir=(i < 4))
        for i in range(10):
            history_pair(ctx, rng, n=2 if i < 8 else 3)
        for i, enc in enumerate(['dense', 'csr', 'csc', 'dense', 'csr',
                                 'dense']):
            history_election(ctx, rng, enc, pair=i >= 3)
        for stg in SCRATCH_FAIL_STAGES:
            for mode in SCRATCH_FAIL_MODES:
                history_scratch_failure(ctx, rng, stg, mode)
    if bad:
        # the clean-up obligation fails on the regenerated skeleton: the
        # histories above are the failing-input search
        found = any(v['found_input'] and '/scratch/' in v['signature']
                    for v in ctx.violations)
        if not found:
            ctx.violation(
                'C19/skeleton/may-leak/' + '+'.join(
                    '%s.%s' % (f, e) for f, e, _ in bad),
                'the clean-up structure regenerated from the source no '
                'longer restores the scratch directory on every path: %r'
                % (bad,), {'kind': 'skeleton', 'may_leak': bad,
                           'broken': 'C19.scratch_restored obligation on '
                           'CTM.Generated skeletons'}, found_input=False)


def replay(ctx, data, from_corpus=False):
    import random
    d = data.get('detail', data)
    kind = d.get('kind')
    rng = random.Random(d.get('seed', 0))
    if kind == 'history':
        spec = d.get('spec') or (d.get('specs') or [{}])[0]
        stage = spec.get('stage', 'mapping')
        hist = d.get('history', '')
        if 'scratch-failure' in hist:
            history_scratch_failure(ctx, rng, stage,
                                    hist.split('scratch-failure-')[1])
        elif 'election' in hist:
            history_election(ctx, rng, spec.get('encoding', 'dense')
                             if spec.get('encoding') in ('dense', 'csr',
                                                         'csc')
                             else 'dense', pair='-pair' in hist)
        elif 'concurrent' in hist:
            history_pair(ctx, rng)
        elif stage == 'mapping':
            failure = spec.get('failure')
            if failure in (None, 'success', 'csc_query'):
                m = re.search(r'stale\+([a-z_]+)\+success', hist)
                failure = m.group(1) if m else None
            history_mapping(ctx, rng, failure,
                            encoding_hint='csc'
                            if spec.get('encoding') == 'csc' else None,
                            tmp_dir=spec.get('tmp_dir_given', True),
                            traced_all=failure != 'unwritable_output',
                            then_success=not (from_corpus and failure ==
                                              'unwritable_output'),
                            obsm='/obsm' in hist)
        else:
            history_stages(ctx, rng, spec.get('encoding', 'csr')
                           if spec.get('encoding') in ('csr', 'csc', 'dense')
                           else 'csr')
    elif kind == 'skeleton':
        bad = check_skeletons(ctx)
        if bad:
            ctx.violation('C19/skeleton/may-leak/' + '+'.join(
                '%s.%s' % (f, e) for f, e, _ in bad), 'replayed', d,
                found_input=False)
    elif not from_corpus:
        print('nothing to replay for kind', kind)
