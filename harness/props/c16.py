"""
C16 - validation rewrites identifiers and integers without altering the data.

Tie: hand-written Lean model (CTM/Model/Validate.lean) vs the real
validate_h5ad (Python function) and its helpers (choose_int_dtype,
get_minmax_x_from_h5ad, is_x_integers, round_x_to_integers,
map_gene_identifiers, is_ensembl) on generated h5ad files; every output is
also checked by an independent computation (layer i): input digest, cells,
annotations, gene order, X vs layer entry-wise, dtype, uns records.
"""
import copy
import hashlib
import json
import pathlib
import re
import warnings

import h5py
import numpy as np

from ctmverif import core, pipeline, stats_util
from ctmverif.stats_util import jrat, unrat

RULE = ('generated h5ad files: 1-8 cells x 1-6 genes; values = integers '
        'stored as floats / non-integers / near-integers (1e-11) / negatives '
        '/ values at every boundary of the integer ladder +-0.5 (float32 and '
        'float64 spacing respected) / all-zero; dtypes float32, float64, '
        'int32, uint16; dense, CSR, CSC; contiguous and re-chunked layouts '
        '(2-D tiles, 1-D runs, incl. chunk borders inside the data); X or a '
        'named layer; gene names mixing Ensembl ids (with/without version '
        'suffix), real symbols of the bundled mouse/human lookup, unknown '
        'names (with dots, spaces, unicode, slashes), near-misses of the '
        'Ensembl pattern; malformed stream: duplicate cell ids, duplicate / '
        'empty gene names, two genes mapping to one identifier, all genes '
        'unknown; rounding on/off. non-trivial = a new file is written and '
        '(a value is moved by rounding or >=1 gene is renamed); distinct by '
        'the full case')
TRUSTED = [
    'anndata/h5py read back what the harness wrote; numpy float <-> exact '
    'rational conversion (float.as_integer_ratio)',
    'the bundled lookup tables are data (read directly by the harness)',
    'SHA-256 of the input file before/after stands for "never modifies it" '
    '(file-system fact, observed, not proved)',
]
ASSUMPTIONS = [
    'values already integral within 1e-10 are left as they are, in their '
    'float type ("no numeric benefit", round_x_to_integers docstring): the '
    'predicate demands an integer dtype only when a cast is needed',
    'a file whose genes are all unknown is refused ("Could not map any of '
    'your genes"): modelled (error allUnmappable), not claimed either way',
    'the timestamp inside a placeholder name is canonicalised to T',
    'matrices have >= 1 row and >= 1 column',
]

LADDER = [('uint8', 0, 255), ('int8', -128, 127), ('uint16', 0, 65535),
          ('int16', -32768, 32767), ('uint32', 0, 4294967295),
          ('int32', -2147483648, 2147483647),
          ('uint64', 0, 18446744073709551615),
          ('int64', -9223372036854775808, 9223372036854775807)]


# ---------------------------------------------------------------------------
# independent helpers
# ---------------------------------------------------------------------------

def indep_is_ensembl(s):
    """ENS, >=1 capital A-Z, >=1 digit 0-9, optionally '.' and >=1 digit,
    nothing else (hand-rolled, no regular expression)"""
    if not s.startswith('ENS'):
        return False
    i = 3
    n = len(s)
    j = i
    while j < n and 'A' <= s[j] <= 'Z':
        j += 1
    if j == i:
        return False
    k = j
    while k < n and '0' <= s[k] <= '9':
        k += 1
    if k == j:
        return False
    if k == n:
        return True
    if s[k] != '.':
        return False
    m = k + 1
    while m < n and '0' <= s[m] <= '9':
        m += 1
    return m == n and m > k + 1


def indep_round(x):
    """round half to even of an exact value"""
    f = stats_util.frac(x)
    fl = f.numerator // f.denominator
    d = f - fl
    if d * 2 < 1:
        return fl
    if d * 2 > 1:
        return fl + 1
    return fl if fl % 2 == 0 else fl + 1


PLACEHOLDER = re.compile(r'^unmapped_(\d+)_\d{4}-\d\d-\d\d-\d\d-\d\d-\d\d$')


def canon_name(s):
    m = PLACEHOLDER.match(s)
    if m:
        return 'unmapped_%s_T' % m.group(1)
    return s


def unescape_record(rec, want):
    """the recorded renaming with placeholders canonicalised; keys are read
    back through the repository's documented uns escaping ('/' <-> '$',
    utils.clean_for_uns_serialization) when the plain reading differs"""
    plain = {k: canon_name(v) for k, v in dict(rec).items()}
    if plain == want:
        return plain
    return {k.replace('$', '/'): v for k, v in plain.items()}


def lookup_of(species):
    if species == 'human':
        from cell_type_mapper.data.human_gene_id_lookup import (
            human_gene_id_lookup as lk)
    else:
        from cell_type_mapper.data.mouse_gene_id_lookup import (
            mouse_gene_id_lookup as lk)
    return lk


def expected_genes(genes, species, start):
    """independent statement of the gene clause: returns (names, n_unknown)
    with placeholders canonicalised"""
    lk = lookup_of(species)
    out = []
    ct = start
    for g in genes:
        if indep_is_ensembl(g):
            out.append(g.split('.')[0])
        elif g in lk:
            out.append(lk[g].split('.')[0])
        else:
            out.append('unmapped_%d_T' % ct)
            ct += 1
    return out, ct - start


def sha(path):
    return hashlib.sha256(pathlib.Path(path).read_bytes()).hexdigest()


NP_DTYPE = {'float32': np.float32, 'float64': np.float64,
            'int32': np.int32, 'uint16': np.uint16}


# ---------------------------------------------------------------------------
# generation
# ---------------------------------------------------------------------------

_POOLS = {}


def pools(species):
    if species in _POOLS:
        return _POOLS[species]
    lk = lookup_of(species)
    keys = list(lk.keys())
    known = [k for k in keys[:400:13] if not indep_is_ensembl(k)][:12]
    dotted = [k for k in keys if '.' in k and not indep_is_ensembl(k)][:3]
    by_val = {}
    twins = []
    for k in keys[:20000]:
        v = lk[k]
        if v in by_val and not twins:
            twins = [by_val[v], k]
        by_val.setdefault(v, k)
    looks_ens = [k for k in keys if indep_is_ensembl(k)][:2]
    slashed = [k for k in keys if '/' in k][:1]
    ens_vals = list(lk.values())[5:400:37]
    _POOLS[species] = dict(known=known + dotted, twins=twins,
                           looks_ens=looks_ens, slashed=slashed,
                           ens=ens_vals)
    return _POOLS[species]


UNKNOWN = ['weird', 'odd.1', 'x y', 'gène', 'ENSMUSG', 'ENS0001',
           'ensmusg0001', 'ENSMUSG00000000001.', 'ENSMUSG0001.2.3',
           'ENSG1.a', 'XENSG1', 'ENSg1', 'ENS_G1', 'unmapped_0', 'a.b.c',
           'ENSMUSG0001 ', '.5', 'nan', 'ENSMUSG٣']
ENS_SYNTH = ['ENSMUSG00000000001', 'ENSMUSG00000000001.3', 'ENSG000001.12',
             'ENSMUSG00000099999.1', 'ENSX1', 'ENSTTT007.0', 'ENSMUSG07']


def gen_genes(rng, n, species, mode):
    p = pools(species)
    out = []
    tries = 0
    while len(out) < n and tries < 200:
        tries += 1
        r = rng.random()
        if mode == 'clean':
            g = rng.choice(p['ens'] + ['ENSMUSG00000000001', 'ENSX1'])
        elif mode == 'all_unknown':
            g = rng.choice(UNKNOWN)
        elif r < 0.35:
            g = rng.choice(ENS_SYNTH + p['ens'])
        elif r < 0.65:
            g = rng.choice(p['known'] + p['looks_ens'])
        else:
            g = rng.choice(UNKNOWN)
        if g in out:
            continue
        # avoid accidental two-to-one collisions in the valid stream
        exp, _ = expected_genes(out + [g], species, 0)
        if len(set(exp)) != len(exp):
            continue
        out.append(g)
    while len(out) < n:
        out.append('ENSMUSG%011d' % (len(out) + 500))
    return out


def boundary_values(dtype):
    vals = []
    for _, lo, hi in LADDER:
        for b in (lo, hi):
            for dlt in (-1.0, -0.5, -0.25, 0.0, 0.25, 0.5, 1.0):
                vals.append(float(b) + dlt)
    vals += [254.5, 255.49, 0.5, 1.5, 2.5, -0.5, -1.5, 0.49999999999999994]
    out = []
    npd = NP_DTYPE[dtype]
    for v in vals:
        w = float(npd(v))
        if abs(w) < 3e19:
            out.append(w)
    return sorted(set(out))


def gen_matrix(rng, nprng, n, g, dtype, kind):
    npd = NP_DTYPE[dtype]
    if dtype in ('int32', 'uint16'):
        hi = 70000 if dtype == 'int32' else 60000
        lo = -50 if dtype == 'int32' and rng.random() < 0.5 else 0
        return nprng.integers(lo, hi, (n, g)).astype(npd)
    if kind == 'ints':
        X = nprng.integers(0, rng.choice([5, 200, 300, 70000]), (n, g)).astype(npd)
    elif kind == 'nonint':
        X = (nprng.random((n, g)) * rng.choice([3, 300, 70000])).astype(npd)
    elif kind == 'near_int':
        X = nprng.integers(0, 50, (n, g)).astype(np.float64)
        X = (X + (nprng.random((n, g)) - 0.5) * 2e-11).astype(npd)
    elif kind == 'negatives':
        X = ((nprng.random((n, g)) - 0.5) * rng.choice([3, 300, 70000])).astype(npd)
    elif kind == 'zeros':
        X = np.zeros((n, g), dtype=npd)
    elif kind == 'halves':
        X = (nprng.integers(-6, 300, (n, g)) + 0.5).astype(npd)
    else:   # boundary
        bv = boundary_values(dtype)
        X = nprng.integers(0, 9, (n, g)).astype(npd)
        k = rng.randint(1, max(1, min(3, n * g)))
        pick = [rng.choice(bv) for _ in range(k)]
        if rng.random() < 0.5:
            pick = [v for v in pick if v >= 0] or [255.5]
        for v in pick:
            X[rng.randrange(n), rng.randrange(g)] = v
        if rng.random() < 0.7:
            X[rng.randrange(n), rng.randrange(g)] += npd(0.25) \
                if abs(float(X.max())) < 1e6 else npd(0)
    if kind not in ('zeros',) and rng.random() < 0.4:
        X[nprng.random((n, g)) < 0.5] = 0
    return X


def gen_case(rng, malformed=None, mapper_none=False):
    nprng = np.random.default_rng(rng.randrange(2 ** 31))
    n = rng.randint(1, 8)
    g = rng.randint(1, 6)
    dtype = rng.choice(['float32', 'float32', 'float64', 'float64',
                        'int32', 'uint16'])
    kind = rng.choice(['ints', 'nonint', 'near_int', 'negatives', 'zeros',
                       'halves', 'boundary', 'boundary', 'boundary'])
    X = gen_matrix(rng, nprng, n, g, dtype, kind)
    species = 'human' if rng.random() < 0.25 else 'mouse'
    mode = rng.choice(['mix', 'mix', 'mix', 'clean'])
    if malformed == 'all_unknown':
        mode = 'all_unknown'
    genes = gen_genes(rng, g, species, mode)
    cells = ['cell_%d' % i for i in rng.sample(range(100), n)]
    p = pools(species)
    if malformed == 'dup_cell' and n >= 2:
        cells[-1] = cells[0]
    elif malformed == 'dup_gene' and g >= 2:
        genes[-1] = genes[0]
    elif malformed == 'empty_gene':
        genes[rng.randrange(g)] = ''
    elif malformed == 'two_to_one' and g >= 2:
        r = rng.random()
        if r < 0.35 and p['twins']:
            genes[0], genes[1] = p['twins']
        elif r < 0.7:
            genes[0], genes[1] = 'ENSMUSG00000000001.1', 'ENSMUSG00000000001.2'
        else:
            k = p['known'][0]
            genes[0], genes[1] = k, lookup_of(species)[k]
    elif malformed == 'slash':
        genes[rng.randrange(g)] = rng.choice(
            (p['slashed'] or []) + ['we/ird'])
    # gene_id_mapper=None (the default of the CLI): the species is inferred
    # from the names; families: every name a real Ensembl id of the species,
    # most of them with a version suffix (GENCODE style), or a mix with
    # symbols / unknown names that still lets the species be inferred
    mapper = 'explicit'
    if mapper_none:
        mapper = 'none'
        real = [v for v in dict.fromkeys(lookup_of(species).values())][
            11:4000:97]
        rng.shuffle(real)
        fam = rng.choice(['all_ens_versioned', 'all_ens_versioned',
                          'all_ens_some_versioned', 'ens_plus_others'])
        picked = real[:g]
        genes2 = []
        for k, e in enumerate(picked):
            if fam == 'all_ens_versioned' or (k == 0) or rng.random() < 0.5:
                genes2.append('%s.%d' % (e, rng.randint(1, 13)))
            else:
                genes2.append(e)
        if fam == 'ens_plus_others' and g >= 2:
            for k in range(1, g):
                if rng.random() < 0.5:
                    genes2[k] = rng.choice(p['known'] + UNKNOWN[:4])
            if len(set(expected_genes(genes2, species, 0)[0])) != g or \
                    len(set(genes2)) != g:
                genes2 = ['%s.%d' % (e, 2) for e in picked]
        if fam == 'all_ens_some_versioned' and rng.random() < 0.3:
            # no version anywhere, nothing to clip: no change needed
            genes2 = list(picked)
        genes = genes2
        if malformed == 'two_to_one' and g >= 2:
            genes[1] = genes[0].split('.')[0] + '.%d' % rng.randint(14, 20)
        elif malformed == 'dup_gene' and g >= 2:
            genes[-1] = genes[0]
        elif malformed == 'empty_gene':
            genes[rng.randrange(g)] = ''
    encoding = rng.choice(['dense', 'csr', 'csc'])
    if encoding == 'dense':
        chunks = rng.choice([None, None, [1, 1], [1, g], [n, 1],
                             [max(1, n // 2), max(1, g // 2)],
                             [2, 3], [3, 2]])
        if chunks is not None:
            chunks = [min(chunks[0], n), min(chunks[1], g)]
    else:
        chunks = rng.choice([None, 'default', 1, 2, 3, 5, 1024])
    return {
        'kind': 'validate', 'malformed': malformed,
        'cells': cells, 'genes': genes, 'X': X.astype(float).tolist(),
        'dtype': dtype, 'encoding': encoding, 'chunks': chunks,
        'layer': rng.choice(['X', 'X', 'raw_counts']),
        'round_to_int': rng.random() < 0.75,
        'expected_max': rng.choice([None, 20, 20]),
        'species': species, 'mapper': mapper,
        'start': 0 if mapper == 'none' else rng.choice([0, 0, 3]),
        'obs_col': [rng.choice(['a', 'b', 'c']) for _ in cells],
    }


# ---------------------------------------------------------------------------
# file writing / reading
# ---------------------------------------------------------------------------

def write_case(case, path):
    X = np.array(case['X'], dtype=float).reshape(
        len(case['cells']), len(case['genes'])).astype(NP_DTYPE[case['dtype']])
    layer = None if case['layer'] == 'X' else case['layer']
    pipeline.write_h5ad(path, X, case['cells'], case['genes'],
                        encoding=case['encoding'], layer=layer,
                        obs_cols={'annot': list(case['obs_col'])})
    key = 'X' if layer is None else 'layers/%s' % layer
    ch = case['chunks']
    with h5py.File(path, 'a') as f:
        if case['encoding'] == 'dense':
            if ch is not None:
                attrs = dict(f[key].attrs)
                data = f[key][()]
                del f[key]
                ds = f.create_dataset(key, data=data, chunks=tuple(ch))
                for k, v in attrs.items():
                    ds.attrs.create(name=k, data=v)
        else:
            if ch != 'default':
                for el in ('data', 'indices'):
                    arr = f[key][el][()]
                    del f[key][el]
                    if ch is None or arr.shape[0] == 0:
                        if arr.shape[0] == 0:
                            f[key].create_dataset(el, data=arr, chunks=(4,),
                                                  maxshape=(None,))
                        else:
                            f[key].create_dataset(el, data=arr)
                    else:
                        f[key].create_dataset(el, data=arr, chunks=(ch,),
                                              maxshape=(None,))
    return X


def read_storage(path, key):
    """raw stored arrays (what the code reads) + chunk layout"""
    with h5py.File(path, 'r') as f:
        obj = f[key]
        if isinstance(obj, h5py.Dataset):
            return {'kind': 'dense', 'm': obj[()], 'chunks': obj.chunks,
                    'dtype': obj.dtype}
        return {'kind': 'sparse', 'data': obj['data'][()],
                'indices': obj['indices'][()], 'indptr': obj['indptr'][()],
                'chunks': obj['data'].chunks, 'dtype': obj['data'].dtype,
                'enc': dict(obj.attrs).get('encoding-type')}


def storage_json(st):
    if st['kind'] == 'dense':
        m = st['m']
        return {'kind': 'dense',
                'm': [[jrat(x) for x in row] for row in m.tolist()]
                if m.dtype.kind != 'f' else
                [[jrat(float(x)) for x in row] for row in m],
                'nCols': int(m.shape[1]),
                'chunks': None if st['chunks'] is None
                else [int(c) for c in st['chunks']]}
    d = st['data']
    return {'kind': 'sparse',
            'data': [jrat(float(x)) if d.dtype.kind == 'f' else int(x)
                     for x in d],
            'chunks': None if st['chunks'] is None else int(st['chunks'][0])}


def stored_values(st):
    if st['kind'] == 'dense':
        return [x for row in st['m'] for x in row]
    return list(st['data'])


def dense_of(st, shape):
    if st['kind'] == 'dense':
        return np.array(st['m'])
    import scipy.sparse as sp
    cls = sp.csr_matrix if 'csr' in st['enc'] else sp.csc_matrix
    return np.asarray(cls((st['data'], st['indices'], st['indptr']),
                          shape=shape).todense())


def classify(exc):
    msg = str(exc)
    for pat, name in (('Cell IDs need to be unique', 'dupCellIds'),
                      ('gene names must be unique', 'badGeneNames'),
                      ("gene name '' is invalid", 'badGeneNames'),
                      ('Could not map any of your genes', 'allUnmappable'),
                      ('mapped to identical gene identifiers', 'dupMapped'),
                      ('Forward slashes are not allowed', 'slashKey'),
                      ('Unable to create link (name already exists)',
                       'contiguousSparseCopy'),
                      ('Chunk shape must not be greater than data shape',
                       'chunkLargerThanData')):
        if pat in msg:
            return name
    return 'other:%s:%s' % (type(exc).__name__,
                            msg.replace('\n', ' ')[:80])


# ---------------------------------------------------------------------------
# one validate_h5ad case
# ---------------------------------------------------------------------------

DEFECT_ERRS = ('slashKey', 'contiguousSparseCopy', 'chunkLargerThanData')


def float_bits(dtype):
    return {'float32': 24, 'float64': 53}.get(dtype)


def eps_seen(dtype):
    if dtype == 'float32':
        return float(np.float32(1.0e-10))
    return 1.0e-10


def nontrivial_case(case, impl):
    return bool(impl.get('path')) and (impl.get('moved') or impl.get('renamed'))


def check_validate(ctx, case):
    from cell_type_mapper.validation.validate_h5ad import validate_h5ad
    from cell_type_mapper.gene_id.gene_id_mapper import GeneIdMapper
    from cell_type_mapper.utils.anndata_utils import (
        read_df_from_h5ad, read_uns_from_h5ad)
    detail = dict(case)
    ctx.count('malformed:%s' % case['malformed'])
    ctx.count('encoding:' + case['encoding'])
    ctx.count('dtype:' + case['dtype'])
    ctx.count('layer:' + ('X' if case['layer'] == 'X' else 'named'))
    ctx.count('round:%s' % case['round_to_int'])
    ctx.count('gene_id_mapper:%s' % case.get('mapper', 'explicit'))
    n, g = len(case['cells']), len(case['genes'])
    impl = {}
    with pipeline.workdir('c16_') as d:
        src = pathlib.Path(d) / 'input.h5ad'
        try:
            write_case(case, src)
        except Exception as e:   # anndata refuses the fixture itself
            ctx.count('fixture-refused')
            ctx.log('fixture refused: %r' % (e,))
            return
        key = 'X' if case['layer'] == 'X' else 'layers/%s' % case['layer']
        st = read_storage(src, key)
        before = sha(src)
        out_path = pathlib.Path(d) / 'out' / 'valid.h5ad'
        out_path.parent.mkdir()
        # a stale target must disappear when nothing is written
        stale = case.get('stale_target', True)
        if stale:
            out_path.write_bytes(b'stale')
        if case.get('mapper', 'explicit') == 'none':
            mapper = None       # species inferred from the gene names
        else:
            mapper = (GeneIdMapper.from_human()
                      if case['species'] == 'human'
                      else GeneIdMapper.from_mouse())
            for _ in range(case['start']):
                mapper.random_name_generator.name()
        tmp = pathlib.Path(d) / 'tmp'
        tmp.mkdir()
        with pipeline.quiet():
            try:
                res, has_warn = validate_h5ad(
                    h5ad_path=src, gene_id_mapper=mapper, log=None,
                    expected_max=case['expected_max'], tmp_dir=tmp,
                    layer=case['layer'], round_to_int=case['round_to_int'],
                    valid_h5ad_path=out_path)
                impl['err'] = None
                impl['path'] = None if res is None else str(res)
                impl['warn'] = bool(has_warn)
            except Exception as e:   # noqa
                impl['err'] = classify(e)
        after = sha(src)
        impl['tmp_left'] = sorted(p.name for p in tmp.iterdir())
        impl['target_exists'] = out_path.exists()
        if impl.get('err') is None and impl['path'] is not None:
            ost = read_storage(out_path, 'X')
            impl['ost'] = ost
            impl['obs'] = read_df_from_h5ad(out_path, 'obs')
            impl['var'] = read_df_from_h5ad(out_path, 'var')
            impl['uns'] = read_uns_from_h5ad(out_path)
            with h5py.File(out_path, 'r') as f:
                impl['has_layers'] = 'layers' in f and len(f['layers']) > 0
    # ------------------------------------------------------------------
    # (i) predicates on the implementation alone
    # ------------------------------------------------------------------
    vals = stored_values(st)
    exact_vals = [stats_util.frac(float(v)) if st['dtype'].kind == 'f'
                  else stats_util.frac(int(v)) for v in vals]
    is_int_dtype = st['dtype'].kind in 'iu'
    eps = stats_util.frac(eps_seen(case['dtype']))
    all_integral = is_int_dtype or all(
        abs(indep_round(v) - v) <= eps for v in exact_vals)
    need_cast = case['round_to_int'] and not all_integral
    exp_genes, n_unknown = expected_genes(case['genes'], case['species'],
                                          case['start'])
    genes_change = exp_genes != list(case['genes'])
    expect_reject = None
    if len(set(case['cells'])) != len(case['cells']):
        expect_reject = 'dupCellIds'
    elif len(set(case['genes'])) != g or '' in case['genes']:
        expect_reject = 'badGeneNames'
    elif genes_change and len(set(exp_genes)) != g:
        expect_reject = 'dupMapped'
    all_unknown = n_unknown == g
    probs = []

    def viol(sig, what, found=True):
        probs.append(sig)
        ctx.violation('C16/validate/' + sig, what, dict(detail, impl={
            k: v for k, v in impl.items()
            if k in ('err', 'path', 'warn', 'tmp_left')}), found_input=found)

    if before != after:
        viol('input-modified', 'validate_h5ad modified its input file')
    if impl['tmp_left']:
        ctx.count('scratch-left-in-tmp_dir')   # C19's subject, recorded only
    if expect_reject is not None:
        ctx.count('expect-reject:' + expect_reject)
        if impl['err'] is None:
            viol('accepts-' + expect_reject,
                 'input that must be rejected (%s) is accepted'
                 % expect_reject)
    elif impl['err'] is not None:
        if all_unknown and (impl['err'] == 'allUnmappable' or
                            impl['err'].startswith('other:RuntimeError')):
            # recognised by type and situation (every gene unknown), not by
            # the wording of the message
            ctx.count('refused:all-unknown')
            impl['err'] = 'allUnmappable'
        elif impl['err'] == 'contiguousSparseCopy':
            viol('contiguous-sparse-crash',
                 'validation fails (%s) on a sparse layer whose arrays are '
                 'stored contiguously (no HDF5 chunking): copy_layer_to_x '
                 'creates each dataset and then assigns to the same name'
                 % impl['err'])
        elif impl['err'] == 'chunkLargerThanData':
            viol('chunk-larger-than-data-crash',
                 'validation fails (%s) on a sparse layer stored in a '
                 'resizable dataset whose chunk is longer than the data: '
                 'copy_layer_to_x re-creates it with the same chunk but no '
                 'maxshape' % impl['err'])
        elif impl['err'] == 'slashKey':
            viol('slash-gene-crash',
                 'validation of a file with unique, non-empty gene names '
                 'fails (%s): a renamed gene whose original name contains '
                 '"/" cannot be recorded in uns' % impl['err'])
        else:
            viol('crash/' + impl['err'].split(':')[1]
                 if impl['err'].startswith('other:') else 'crash/' + impl['err'],
                 'validation of a valid file fails: %s' % impl['err'])
    else:
        expect_new = (case['layer'] != 'X') or genes_change or need_cast
        impl['moved'] = need_cast
        impl['renamed'] = genes_change
        if (impl['path'] is not None) != expect_new:
            viol('new-file-' + ('missing' if expect_new else 'unneeded'),
                 'new file written = %s but changes needed = %s'
                 % (impl['path'] is not None, expect_new))
        elif impl['path'] is None:
            if impl['target_exists']:
                viol('stale-target-left', 'no new file is reported but the '
                     'target path still holds a file')
        else:
            obs, var, uns, ost = (impl['obs'], impl['var'], impl['uns'],
                                  impl['ost'])
            if list(obs.index.values) != list(case['cells']):
                viol('cells', 'cells / order changed: %r'
                     % list(obs.index.values))
            elif list(obs['annot'].values) != list(case['obs_col']):
                viol('annotations', 'obs annotations changed')
            got_genes = [canon_name(x) for x in var.index.values]
            unknown_pos = [i for i, (o, e) in enumerate(
                zip(case['genes'], exp_genes))
                if e.startswith('unmapped_') and not indep_is_ensembl(o)
                and o not in lookup_of(case['species'])]
            fixed_ok = len(got_genes) == g and all(
                got_genes[i] == exp_genes[i] for i in range(g)
                if i not in unknown_pos)
            if not fixed_ok:
                viol('genes', 'gene identifiers %r, expected %r'
                     % (got_genes, exp_genes))
            elif len(set(var.index.values)) != g:
                viol('genes-not-unique', 'identifiers repeat in the new '
                     'file: %r' % list(var.index.values))
            elif any(indep_is_ensembl(got_genes[i]) or
                     got_genes[i] in case['genes'] for i in unknown_pos):
                viol('genes', 'an unknown gene did not get a placeholder: %r'
                     % got_genes)
            # (the spelling of a placeholder - counter, timestamp - is
            # compared with the model below, not demanded here)
            exp_genes = [got_genes[i] if i in unknown_pos else exp_genes[i]
                         for i in range(g)] if fixed_ok else exp_genes
            if genes_change:
                # the original names stay available as an annotation
                cols = [c for c in var.columns
                        if list(var[c].values) == list(case['genes'])]
                if not cols:
                    viol('var-annotations', 'original gene names lost')
                rec = uns.get('AIBS_CDM_gene_mapping')
                want = {o: nw for o, nw in zip(case['genes'], exp_genes)
                        if o != nw}
                if rec is None or unescape_record(rec, want) != want:
                    viol('renaming-record',
                         'uns gene mapping %r, expected %r' % (rec, want))
            elif 'AIBS_CDM_gene_mapping' in uns:
                viol('renaming-record', 'renaming recorded though no gene '
                     'changed')
            nm = uns.get('AIBS_CDM_n_mapped_genes')
            if nm is None or int(nm) != g - (n_unknown if genes_change else 0):
                viol('mapped-count', 'n_mapped_genes %r, expected %r'
                     % (nm, g - n_unknown))
            # X vs requested layer, entry-wise
            src_dense = dense_of(st, (n, g))
            out_dense = dense_of(ost, (n, g))
            if out_dense.shape != (n, g):
                viol('shape', 'X has shape %r' % (out_dense.shape,))
            elif need_cast:
                if ost['dtype'].kind not in 'iu':
                    viol('dtype-not-integer', 'rounded X stored as %s'
                         % ost['dtype'])
                else:
                    bad = None
                    for i in range(n):
                        for j in range(g):
                            a = stats_util.frac(float(src_dense[i, j]))
                            b = int(out_dense[i, j])
                            if abs(b - a) * 2 > 1:
                                bad = (i, j, float(src_dense[i, j]), b)
                    if bad is not None:
                        rl = [indep_round(float(x)) for x in src_dense.flat]
                        fits_any = any(l <= min(rl) and max(rl) <= h
                                       for _, l, h in LADDER)
                        viol(('dtype-overflow' if fits_any else
                              'dtype-overflow/no-ladder-type-fits')
                             if abs(bad[3] - bad[2]) > 1
                             else 'moved-more-than-half',
                             'entry %r of the requested layer is %r in the '
                             'new X (%s): moved by more than one half'
                             % (bad[:2], bad[3], ost['dtype']))
                    # (which of the two neighbours a tie goes to is not part
                    # of the property: the model comparison below sees it)
            else:
                if ost['dtype'] != st['dtype'] or not np.array_equal(
                        src_dense, out_dense):
                    viol('x-changed', 'X differs from the requested layer '
                         'though no rounding was needed')
    # ------------------------------------------------------------------
    # (ii) correspondence with the model
    # ------------------------------------------------------------------
    model = None
    if ctx.driver_ok:
        lk = lookup_of(case['species'])
        sub = [[k, lk[k]] for k in dict.fromkeys(case['genes']) if k in lk]
        model = ctx.model('validate.plan', {
            'cellIds': case['cells'], 'genes': case['genes'],
            'layerIsX': case['layer'] == 'X',
            'roundToInt': case['round_to_int'],
            'intDtype': is_int_dtype,
            'floatBits': float_bits(case['dtype']),
            'storage': storage_json(st),
            'eps': jrat(eps_seen(case['dtype'])),
            'expectedMax': case['expected_max'],
            'lookup': sub, 'start': case['start']})
        mp = compare_plan(model, impl, st)
        if impl.get('err') in DEFECT_ERRS:
            # crashes of the copy / uns layers below the modelled logic:
            # reported (or not) by layer (i); the model has no such error
            ctx.count('correspondence-skipped:' + impl['err'])
            mp = []
        if mp:
            ctx.disagreements_checked += 1
            if not probs:
                ctx.violation(
                    'C16/correspondence/validate/' + str(mp[0]),
                    'correspondence validate.plan no longer checks: %r '
                    '(impl err=%r path=%r)' % (mp, impl.get('err'),
                                               impl.get('path')),
                    dict(detail, model=model, problems=mp,
                         broken='correspondence CTM.Validate.validate ~ '
                                'validate_h5ad'),
                    found_input=False)
    ctx.case(json.dumps(case, sort_keys=True)
             if nontrivial_case(case, impl) else None,
             sample={'kind': 'validate',
                     'case': {k: case[k] for k in (
                         'genes', 'dtype', 'encoding', 'chunks', 'layer',
                         'round_to_int', 'malformed')},
                     'impl': {k: impl.get(k) for k in ('err', 'path', 'warn')},
                     'model': None if model is None else
                     (model.get('err') or {
                         k: model['ok'][k] for k in ('writeNew', 'dtype',
                                                     'nMapped')})})
    return probs


def compare_plan(model, impl, st):
    if 'err' in model:
        if impl.get('err') == model['err']:
            return []
        if (impl.get('err') or '').startswith('other:RuntimeError'):
            # a refusal whose message the harness does not recognise: both
            # sides refuse, the class is not compared (wording is not part
            # of the property)
            return []
        return ['verdict:model=%s' % model['err']]
    if impl.get('err') is not None:
        return ['verdict:impl=%s' % impl['err'].split(':')[0]]
    plan = model['ok']
    out = []
    if plan['writeNew'] != (impl['path'] is not None):
        return ['writeNew']
    if plan['hasWarnings'] != impl['warn']:
        out.append('hasWarnings')
    if impl['path'] is None:
        return out
    if [canon_name(x) for x in impl['var'].index.values] != plan['genes']:
        out.append('genes')
    rec = impl['uns'].get('AIBS_CDM_gene_mapping')
    if plan['mapping'] is None:
        if rec is not None:
            out.append('mapping')
    else:
        if rec is None or [[k, canon_name(v)] for k, v in dict(rec).items()] \
                != [list(p) for p in plan['mapping']]:
            # dict order is var order in the code as well
            wantm = {p[0]: p[1] for p in plan['mapping']}
            if rec is None or unescape_record(rec, wantm) != wantm:
                out.append('mapping')
    nm = impl['uns'].get('AIBS_CDM_n_mapped_genes')
    if nm is None or int(nm) != plan['nMapped']:
        out.append('nMapped')
    ost = impl['ost']
    odtype = str(ost['dtype']) if ost['dtype'].kind in 'iu' else None
    if plan['dtype'] is not None:
        if odtype != plan['dtype']:
            out.append('dtype:model=%s' % plan['dtype'])
    else:
        if ost['dtype'] != st['dtype']:
            out.append('dtype')
    ovals = stored_values(ost)
    if len(ovals) != len(plan['values']):
        out.append('n_values')
    else:
        for a, b in zip(ovals, plan['values']):
            if b is None:
                out.append('overflow-in-model')
                break
            fa = stats_util.frac(float(a)) if ost['dtype'].kind == 'f' \
                else stats_util.frac(int(a))
            if fa != unrat(b):
                out.append('values')
                break
    return out


# ---------------------------------------------------------------------------
# helpers called directly
# ---------------------------------------------------------------------------

def check_choose_dtype(ctx, rng):
    from cell_type_mapper.utils.utils import choose_int_dtype
    kinds = [('float32', np.float32), ('float64', np.float64),
             ('int', np.int64)]
    tname, npt = rng.choice(kinds)
    pts = boundary_values('float32' if tname == 'float32' else 'float64')
    if tname == 'int':
        pts = sorted(set(int(p) for p in pts if abs(p) < 9e18))
    a, b = rng.choice(pts), rng.choice(pts)
    mn, mx = (a, b) if a <= b else (b, a)
    if rng.random() < 0.3:
        mn = 0 if tname == 'int' else 0.0
    smn, smx = npt(mn), npt(mx)
    with warnings.catch_warnings():
        warnings.simplefilter('ignore')
        got = np.dtype(choose_int_dtype((smn, smx))).name
    detail = {'kind': 'choose_dtype', 'type': tname,
              'mn': float(smn) if tname != 'int' else int(smn),
              'mx': float(smx) if tname != 'int' else int(smx)}
    lo, hi = indep_round(detail['mn']), indep_round(detail['mx'])
    ctx.count('choose_dtype:' + tname)
    ctx.case(('cd', tname, detail['mn'], detail['mx']),
             sample=dict(detail, got=got))
    info = np.iinfo(np.dtype(got))
    bad = False
    fits_any = any(l <= lo and hi <= h for _, l, h in LADDER)
    if fits_any and not (int(info.min) <= lo and hi <= int(info.max)):
        bad = True
        ctx.violation(
            'C16/choose_int_dtype/does-not-fit',
            'choose_int_dtype((%r, %r)) [%s scalars] = %s, which cannot '
            'hold %d..%d' % (detail['mn'], detail['mx'], tname, got, lo, hi),
            detail)
    # (that the chosen type is the *first* of the ladder that fits is a fact
    # about the model, compared below; the property only asks for "wide
    # enough")
    if ctx.driver_ok:
        out = ctx.model('validate.chooseDtype', {
            'floatBits': {'float32': 24, 'float64': 53}.get(tname),
            'mn': jrat(detail['mn']), 'mx': jrat(detail['mx'])})
        if out['dtype'] != got:
            ctx.disagreements_checked += 1
            if not bad:
                ctx.violation(
                    'C16/correspondence/chooseDtype',
                    'correspondence validate.chooseDtype: impl %s model %s'
                    % (got, out['dtype']),
                    dict(detail, impl=got, model=out,
                         broken='correspondence CTM.Validate.chooseIntDtype '
                                '~ choose_int_dtype'),
                    found_input=False)


def replay_choose_dtype(ctx, d):
    from cell_type_mapper.utils.utils import choose_int_dtype
    npt = {'float32': np.float32, 'float64': np.float64,
           'int': np.int64}[d['type']]
    with warnings.catch_warnings():
        warnings.simplefilter('ignore')
        got = np.dtype(choose_int_dtype((npt(d['mn']), npt(d['mx'])))).name
    lo, hi = indep_round(d['mn']), indep_round(d['mx'])
    info = np.iinfo(np.dtype(got))
    ctx.evaluations += 1
    if any(l <= lo and hi <= h for _, l, h in LADDER) and not (
            int(info.min) <= lo and hi <= int(info.max)):
        ctx.violation('C16/choose_int_dtype/does-not-fit',
                      'choose_int_dtype((%r, %r)) = %s cannot hold %d..%d'
                      % (d['mn'], d['mx'], got, lo, hi), d)


def map_output_ok(genes, exp, impl_m, n_unknown):
    """order/length kept, Ensembl and known names exactly as expected,
    unknown names replaced by names unique in the output, count right"""
    got = impl_m['mapped']
    if len(got) != len(genes) or impl_m['nUnmapped'] != n_unknown:
        return False
    lk = lookup_of('mouse')
    unk = [i for i, g in enumerate(genes)
           if not indep_is_ensembl(g) and g not in lk]
    if any(got[i] != exp[i] for i in range(len(genes)) if i not in unk):
        return False
    if len(set(got[i] for i in unk)) != len(unk):
        return False
    fixed = set(got[i] for i in range(len(genes)) if i not in unk)
    return not any(got[i] in fixed or indep_is_ensembl(got[i]) for i in unk)


def check_helpers(ctx, rng):
    """get_minmax_x_from_h5ad, is_x_integers, round_x_to_integers on one
    generated file; is_ensembl / map_gene_identifiers on one name list"""
    from cell_type_mapper.validation.utils import (
        get_minmax_x_from_h5ad, is_x_integers, round_x_to_integers)
    from cell_type_mapper.gene_id.utils import is_ensembl
    from cell_type_mapper.gene_id.gene_id_mapper import GeneIdMapper
    case = gen_case(rng)
    case['kind'] = 'helpers'
    n, g = len(case['cells']), len(case['genes'])
    with pipeline.workdir('c16h_') as d:
        src = pathlib.Path(d) / 'input.h5ad'
        try:
            write_case(case, src)
        except Exception:
            return
        key = 'X' if case['layer'] == 'X' else 'layers/%s' % case['layer']
        st = read_storage(src, key)
        before = sha(src)
        herr = None
        mm, isint = (None, None), None
        with pipeline.quiet():
            try:
                mm = get_minmax_x_from_h5ad(src, layer=case['layer'])
                isint = is_x_integers(src, layer=case['layer'])
            except Exception as e:   # noqa
                herr = classify(e)
        if herr is not None or mm[0] is None or mm[1] is None:
            ctx.case(('h', json.dumps(case, sort_keys=True)))
            ctx.violation('C16/minmax/' + ('crash' if herr else 'none'),
                          'get_minmax_x_from_h5ad / is_x_integers on a valid '
                          'file: %s' % (herr or repr(mm)), case)
            return
        # rounding works on a file whose X is the data: copy layer to X
        rounded = None
        if case['layer'] == 'X' and st['dtype'].kind == 'f':
            work = pathlib.Path(d) / 'work.h5ad'
            work.write_bytes(src.read_bytes())
            tmp = pathlib.Path(d) / 'tmp'
            tmp.mkdir()
            vals = [float(v) for v in stored_values(st)]
            if vals:
                lo = indep_round(min(vals))
                hi = indep_round(max(vals))
                fit = [nm for nm, l, h in LADDER if l <= lo and hi <= h]
                if fit:
                    rerr = None
                    with pipeline.quiet():
                        try:
                            round_x_to_integers(work, tmp_dir=tmp,
                                                output_dtype=np.dtype(fit[0]))
                        except Exception as e:   # noqa
                            rerr = classify(e)
                    if rerr is not None:
                        sig = {'chunkLargerThanData':
                               'chunk-larger-than-data-crash'}.get(
                            rerr, 'crash/' + rerr.split(':')[1]
                            if rerr.startswith('other:') else 'crash/' + rerr)
                        ctx.violation('C16/round/' + sig,
                                      'round_x_to_integers fails on a valid '
                                      'file: %s' % rerr, case)
                    else:
                        rounded = read_storage(work, 'X')
                    left = sorted(p.name for p in tmp.iterdir())
                    if left and rerr is None:
                        ctx.count('round:scratch-left-in-tmp_dir')
        after = sha(src)
    ctx.case(('h', json.dumps(case, sort_keys=True)))
    ctx.count('helpers:' + case['encoding'])
    vals = stored_values(st)
    fvals = [stats_util.frac(float(v)) if st['dtype'].kind == 'f'
             else stats_util.frac(int(v)) for v in vals]
    bad = False
    if before != after:
        bad = True
        ctx.violation('C16/helpers/input-modified',
                      'a read-only helper modified the file', case)
    # min/max: of the stored entries (an empty sparse matrix is all zero)
    if fvals:
        want = (min(fvals), max(fvals))
    else:
        want = (0, 0)
    got = (stats_util.frac(mm[0]), stats_util.frac(mm[1]))
    if got != want:
        bad = True
        ctx.violation('C16/minmax/wrong',
                      'get_minmax_x_from_h5ad = %r, stored values span %r'
                      % (mm, (float(want[0]), float(want[1]))), case)
    eps = stats_util.frac(eps_seen(case['dtype']))
    want_int = st['dtype'].kind in 'iu' or all(
        abs(indep_round(v) - v) <= eps for v in fvals)
    if bool(isint) != want_int:
        bad = True
        ctx.violation('C16/is_integers/wrong',
                      'is_x_integers = %r, expected %r' % (isint, want_int),
                      case)
    if rounded is not None:
        moved = any(abs(indep_round(v) - v) > stats_util.frac(1.0e-10)
                    for v in fvals)
        rv = stored_values(rounded)
        if moved:
            ok = (rounded['dtype'].kind in 'iu' and
                  [int(x) for x in rv] == [indep_round(v) for v in fvals])
        else:
            ok = [stats_util.frac(float(x)) for x in rv] == fvals
        if not ok:
            bad = True
            ctx.violation('C16/round/wrong',
                          'round_x_to_integers wrote %r for %r'
                          % (rv[:6], [float(v) for v in fvals[:6]]), case)
    if ctx.driver_ok:
        sj = storage_json(st)
        m1 = ctx.model('validate.minmax', {'storage': sj})
        m2 = ctx.model('validate.isIntegers', {
            'storage': sj, 'eps': jrat(eps_seen(case['dtype']))})
        mp = []
        if 'err' in m1 or m1['ok'] is None or \
                (unrat(m1['ok'][0]), unrat(m1['ok'][1])) != got:
            mp.append('minmax')
        if st['dtype'].kind == 'f' and bool(m2) != bool(isint):
            mp.append('isIntegers')
        if rounded is not None and rounded['dtype'].kind in 'iu':
            m3 = ctx.model('validate.round', {
                'vals': [jrat(float(v)) for v in vals]})
            if [int(x) for x in stored_values(rounded)] != m3:
                mp.append('round')
        if mp:
            ctx.disagreements_checked += 1
            if not bad:
                ctx.violation(
                    'C16/correspondence/helpers/' + mp[0],
                    'correspondence validate.%s no longer checks' % mp[0],
                    dict(case, model_minmax=m1, impl_minmax=[float(mm[0]),
                                                             float(mm[1])],
                         broken='correspondence CTM.Validate.%s' % mp[0]),
                    found_input=False)
    # names
    names = rng.sample(UNKNOWN + ENS_SYNTH + pools('mouse')['known'] +
                       pools('human')['looks_ens'], 8)
    with pipeline.quiet():
        impl_e = [bool(is_ensembl(x)) for x in names]
    want_e = [indep_is_ensembl(x) for x in names]
    ctx.evaluations += 1
    if impl_e != want_e:
        ctx.violation('C16/is_ensembl/wrong',
                      'is_ensembl(%r) = %r' % (names, impl_e),
                      {'kind': 'names', 'names': names})
    elif ctx.driver_ok:
        me = ctx.model('validate.isEnsembl', {'names': names})
        if me != impl_e:
            ctx.disagreements_checked += 1
            ctx.violation('C16/correspondence/isEnsembl',
                          'correspondence validate.isEnsembl no longer checks',
                          {'kind': 'names', 'names': names, 'model': me,
                           'impl': impl_e,
                           'broken': 'correspondence CTM.Validate.isEnsembl'},
                          found_input=False)
    # map_gene_identifiers, two calls on one mapper (counter carries over)
    mapper = GeneIdMapper.from_mouse()
    start = 0
    for _ in range(2):
        genes = gen_genes(rng, rng.randint(1, 6), 'mouse',
                          rng.choice(['mix', 'mix', 'clean', 'all_unknown']))
        with pipeline.quiet():
            try:
                r = mapper.map_gene_identifiers(list(genes))
                impl_m = {'mapped': [canon_name(x) for x in r['mapped_genes']],
                          'nUnmapped': int(r['n_unmapped'])}
            except RuntimeError as e:
                impl_m = {'err': classify(e)}
        exp, n_unknown = expected_genes(genes, 'mouse', start)
        ctx.evaluations += 1
        ctx.count('map_genes:' + ('err' if 'err' in impl_m else 'ok'))
        dd = {'kind': 'map_genes', 'genes': genes, 'start': start,
              'impl': impl_m}
        badm = False
        if 'err' in impl_m:
            if n_unknown == len(genes) and impl_m['err'].startswith(
                    'other:RuntimeError'):
                impl_m['err'] = 'allUnmappable'    # by type and situation
            if not (impl_m['err'] == 'allUnmappable' and n_unknown == len(genes)):
                badm = True
                ctx.violation('C16/map_genes/crash', 'map_gene_identifiers '
                              'fails: %s' % impl_m['err'], dd)
        elif not map_output_ok(genes, exp, impl_m, n_unknown):
            badm = True
            ctx.violation('C16/map_genes/wrong',
                          'map_gene_identifiers(%r) = %r, expected %r'
                          % (genes, impl_m, exp), dd)
        if ctx.driver_ok:
            lk = lookup_of('mouse')
            mo = ctx.model('validate.mapGenes', {
                'lookup': [[k, lk[k]] for k in genes if k in lk],
                'genes': genes, 'start': start})
            same = (mo.get('err') == impl_m.get('err')) if (
                'err' in mo or 'err' in impl_m) else (
                mo['ok']['mapped'] == impl_m['mapped'] and
                mo['ok']['nUnmapped'] == impl_m['nUnmapped'])
            if not same:
                ctx.disagreements_checked += 1
                if not badm:
                    ctx.violation(
                        'C16/correspondence/mapGenes',
                        'correspondence validate.mapGenes no longer checks',
                        dict(dd, model=mo,
                             broken='correspondence CTM.Validate.mapGenes ~ '
                                    'map_gene_identifiers'),
                        found_input=False)
            if 'ok' in mo:
                start = mo['ok']['ct']
        else:
            start = mapper.random_name_generator.ct
        if 'err' in impl_m:
            start = mapper.random_name_generator.ct


# ---------------------------------------------------------------------------
# entry points
# ---------------------------------------------------------------------------

def translate(ctx):
    try:
        stats_util.translate_int_ladder(ctx)
    except stats_util.TranslateError as e:
        ctx.broken.append('translator utils.py choose_int_dtype: %s' % e)
    # the regular expression of is_ensembl is compared as text
    src = (core.REPO / 'src' / 'cell_type_mapper' / 'gene_id' /
           'utils.py').read_text()
    m = re.search(r"re\.compile\(r'([^']*)'\)", src)
    want = r'ENS[A-Z]+[0-9]+(\.[0-9]+)?'
    ctx.extra_cov['is_ensembl_pattern'] = m.group(1) if m else None
    if m is None or m.group(1) != want:
        ctx.broken.append('is_ensembl pattern is %r, the model recognises %r'
                          % (m.group(1) if m else None, want))


MALFORMED = ['dup_cell', 'dup_gene', 'empty_gene', 'two_to_one',
             'all_unknown', 'slash']


def run(ctx):
    rng = ctx.rng
    warnings.simplefilter('ignore')
    cdir = core.VERIF / 'corpus' / 'C16'
    for f in sorted(cdir.glob('*.json')) if cdir.is_dir() else []:
        replay(ctx, json.loads(f.read_text()), from_corpus=True)
    quick = ctx.tier == 'quick'
    n_valid = 120 if quick else 1400
    n_bad = 36 if quick else 300
    n_dtype = 400 if quick else 4000
    n_help = 40 if quick else 450
    for i in range(n_valid):
        check_validate(ctx, gen_case(rng, mapper_none=(i % 4 == 3)))
    for i in range(n_bad):
        check_validate(ctx, gen_case(rng, malformed=MALFORMED[i % len(MALFORMED)]))
    # the default mapper with two versions of one gene / duplicates / blanks
    for i in range(6 if quick else 40):
        check_validate(ctx, gen_case(
            rng, malformed=['two_to_one', 'two_to_one', 'dup_gene',
                            'empty_gene'][i % 4], mapper_none=True))
    for i in range(n_dtype):
        check_choose_dtype(ctx, rng)
    for i in range(n_help):
        check_helpers(ctx, rng)


def replay(ctx, data, from_corpus=False):
    d = data.get('detail', data)
    kind = d.get('kind')
    if kind == 'validate':
        case = {k: v for k, v in d.items()
                if k not in ('impl', 'model', 'problems', 'broken')}
        check_validate(ctx, case)
    elif kind == 'choose_dtype':
        replay_choose_dtype(ctx, d)
    elif kind in ('helpers', 'names', 'map_genes'):
        # re-run the helper battery on a fresh stream
        import random
        check_helpers(ctx, random.Random(0))
    elif not from_corpus:
        print('nothing to replay for kind', kind)
