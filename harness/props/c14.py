"""
C14 — a failed worker fails the run; no partial result passes as success.

Ties to /repo, all re-run on every check:
  * translation: harness/ctmverif/translate.py re-extracts the orchestration
    skeleton of the seven parallel stages and the shape of run_mapping into
    lean/CTM/Generated/Skeleton.lean; the per-stage obligations of
    CTM/Props/C14.lean are closed by `decide` on that value;
  * winnow_process_list / winnow_process_dict against the Lean model on every
    list of <= 5 fake processes with exit codes in {None, 0, 1, -9};
  * fault injection into the real stages (worker index x crash point x
    failure mode): the call must raise and the requested output location must
    hold nothing a later stage accepts; the model predicts exit code, whether
    a file exists at the output location, and the mapping's outputs;
  * blob_to_hdf5 on blobs with / without results against the model.
"""
import itertools
import json
import random
import re

import h5py

from ctmverif import core, faults, pipeline, stagefix
from ctmverif import translate as translator

RULE = ('winnow: every list of <=5 processes with exit codes in '
        '{None,0,1,-9} (list and dict form; dict keys in shuffled order). '
        'faults: generated reference problems (5-8 leaves, 2-3 levels, '
        '10-16 genes) x 8 stage fixtures x worker index x {before,mid,after} '
        'x {raise,os._exit(3),SIGKILL,SIGTERM} with n_processors in 2..4; quick = '
        'last worker x 9 + first worker x 3, thorough = every worker x 12 on 4 problems. '
        'non-trivial = winnow list with a finished process / a fault that '
        'actually fired in a stage with >=2 workers; distinct by '
        '(stage, n_workers, worker, point, mode, problem)')
TRUSTED = ['multiprocessing exit codes / fork semantics (raise -> 1, '
           'os._exit(3) -> 3, SIGKILL -> -9)',
           'harness/ctmverif/translate.py (ast -> skeleton IR); golden copy '
           'lean/CTM/Generated/Skeleton.lean is committed',
           'harness/ctmverif/faults.py (Process shim inside the stage '
           'modules; nothing in /repo is edited)']
ASSUMPTIONS = ['dict stages register distinct workers under distinct keys '
               '(KeysOK; range(0,n,step) / started_parents)',
               'the output location did not hold a complete file of an '
               'earlier run (fresh paths)',
               'orphaned siblings still running after the raise are outside '
               'the model']

CODES = [None, 0, 1, -9]
STAGE_OF_FIXTURE = {'mapping': 'mapping', 'mapping.csvOnly': 'mapping',
                    'mapping.logOnly': 'mapping',
                    'mapping.jsonOnly': 'mapping',
                    'mapping.h5Only': 'mapping', 'stats.copy': 'stats',
                    'stats': 'stats',
                    'refMarkers': 'refMarkers',
                    'refMarkers.transpose': 'refMarkers',
                    'pMask': 'pMask', 'pMarkers': 'pMarkers',
                    'pMarkers.transpose': 'pMarkers',
                    'selection': 'selection',
                    'selection.behemoth': 'selection',
                    'selection.multiRef': 'selection',
                    'transpose': 'transpose'}


def norm_line(line):
    """a log line without time stamps / durations / other numbers"""
    return re.sub(r'[\d.:\-e+]+', '#', line).strip()


def learn_success_lines(st):
    """the "success message" of a mapping run is learnt from a run that
    succeeded (the lines of its log that speak of success), not taken from the
    wording in the source: C14 only says that a failed run writes none"""
    obs = st.observe()
    lines = (obs['log_text'] or '').splitlines() + list(
        obs['log_in_json'] or [])
    st.success_lines = set(norm_line(l) for l in lines
                           if 'success' in l.lower())
    return st.success_lines


def has_success_line(st, lines):
    learnt = getattr(st, 'success_lines', None)
    if learnt is None:
        # nothing learnt (should not happen): any line that claims success
        return any(re.search(r'(?<!un)success', l, re.I)
                   and not re.search(r'\bnot?\b', l, re.I) for l in lines)
    return any(norm_line(l) in learnt for l in lines)


class FakeProcess(object):
    def __init__(self, name, exitcode):
        self.name = name
        self.exitcode = exitcode


# ---------------------------------------------------------------------------
# (i) winnow
# ---------------------------------------------------------------------------

def parse_exit_code(msg):
    """the exit code an error message mentions, if it can be found (the
    number that follows the word "code"); None otherwise.  Only ever used to
    cross-check, never required: the property says the call raises, not with
    which words."""
    m = re.search(r'code[^\w-]{0,3}(-?\d+)', msg or '', re.I)
    return int(m.group(1)) if m else None


def impl_winnow_list(codes):
    from cell_type_mapper.utils.multiprocessing_utils import (
        winnow_process_list)
    ps = [FakeProcess(i, c) for i, c in enumerate(codes)]
    try:
        out = winnow_process_list(ps)
        return {'ok': [p.name for p in out]}
    except Exception as e:
        return {'raised': type(e).__name__, 'code': parse_exit_code(str(e))}


def impl_winnow_dict(items):
    from cell_type_mapper.utils.multiprocessing_utils import (
        winnow_process_dict)
    d = {k: FakeProcess(k, c) for k, c in items}
    try:
        out = winnow_process_dict(d)
        return {'ok': list(out.keys())}
    except Exception as e:
        m = re.search(r'key[^\w-]{0,2}(-?\d+)', str(e), re.I)
        return {'raised': type(e).__name__, 'code': parse_exit_code(str(e)),
                'key': int(m.group(1)) if m else None}


def winnow_agrees(impl, model, with_key=False):
    """model vs implementation: same survivors, or both raise; exit code (and
    key) compared only where the message lets them be read"""
    if 'ok' in impl or 'ok' in model:
        return impl.get('ok') == model.get('ok') and 'ok' in impl \
            and 'ok' in model
    mcode = model['err'][1] if with_key else model['err']
    if impl.get('code') is not None and impl['code'] != mcode:
        return False
    if with_key and impl.get('key') is not None \
            and impl['key'] != model['err'][0]:
        return False
    return True


def check_winnow_list(ctx, codes):
    impl = impl_winnow_list(codes)
    finished_bad = [c for c in codes if c not in (None, 0)]
    ctx.case(('wl', tuple(codes)) if any(c is not None for c in codes)
             else None,
             sample={'kind': 'winnow_list', 'codes': codes, 'impl': impl})
    ctx.count('winnow_list:' + ('raise' if finished_bad else 'ok'))
    # predicate on the implementation alone: a finished process with a
    # non-zero exit code => the call raises (whatever the wording); otherwise
    # exactly the running processes survive
    bad = None
    if finished_bad:
        if 'raised' not in impl:
            bad = 'a finished process has a non-zero exit code but ' \
                  'winnow_process_list returned %r' % (impl,)
    else:
        want = [i for i, c in enumerate(codes) if c is None]
        if impl != {'ok': want}:
            bad = 'no failed process: expected survivors %r, got %r' % (
                want, impl)
    if bad:
        ctx.violation('C14/winnow_list/' + ('misses-failure' if finished_bad
                                            else 'wrong-survivors'),
                      bad, {'kind': 'winnow_list', 'codes': codes,
                            'impl': impl})
        return
    if ctx.driver_ok:
        model = ctx.model('procs.winnowList', {'codes': codes})
        if not winnow_agrees(impl, model):
            ctx.disagreements_checked += 1
            ctx.violation(
                'C14/correspondence/winnow_list',
                'correspondence procs.winnowList no longer checks '
                '(impl=%r model=%r)' % (impl, model),
                {'kind': 'winnow_list', 'codes': codes, 'impl': impl,
                 'model': model,
                 'broken': 'correspondence CTM.Procs.winnowList ~ '
                           'winnow_process_list'}, found_input=False)


def check_winnow_dict(ctx, items):
    impl = impl_winnow_dict(items)
    codes = [c for _, c in items]
    finished_bad = [(k, c) for k, c in items if c not in (None, 0)]
    ctx.case(('wd', tuple(items)) if any(c is not None for c in codes)
             else None, sample=None)
    ctx.count('winnow_dict:' + ('raise' if finished_bad else 'ok'))
    bad = None
    if finished_bad:
        if 'raised' not in impl:
            bad = 'a finished process has a non-zero exit code but ' \
                  'winnow_process_dict returned %r' % (impl,)
    else:
        want = [k for k, c in items if c is None]
        if impl != {'ok': want}:
            bad = 'no failed process: expected survivors %r, got %r' % (
                want, impl)
    if bad:
        ctx.violation('C14/winnow_dict/' + ('misses-failure' if finished_bad
                                            else 'wrong-survivors'),
                      bad, {'kind': 'winnow_dict', 'items': items,
                            'impl': impl})
        return
    if ctx.driver_ok:
        model = ctx.model('procs.winnowDict', {'items': items})
        if not winnow_agrees(impl, model, with_key=True):
            ctx.disagreements_checked += 1
            ctx.violation(
                'C14/correspondence/winnow_dict',
                'correspondence procs.winnowDict no longer checks '
                '(impl=%r model=%r)' % (impl, model),
                {'kind': 'winnow_dict', 'items': items, 'impl': impl,
                 'model': model,
                 'broken': 'correspondence CTM.Procs.winnowDict ~ '
                           'winnow_process_dict'}, found_input=False)


def run_winnow(ctx):
    rng = ctx.rng
    for n in range(0, 6):
        for codes in itertools.product(CODES, repeat=n):
            codes = list(codes)
            check_winnow_list(ctx, codes)
            keys = rng.sample(range(0, 64, 8), n)
            check_winnow_dict(ctx, [[k, c] for k, c in zip(keys, codes)])
    ctx.extra_cov['winnow_exhaustive_up_to'] = 5


# ---------------------------------------------------------------------------
# (ii) fault injection on the real stages
# ---------------------------------------------------------------------------

def make_problem(prob_seed, n_leaves=None):
    return stagefix.RefProblem(random.Random(prob_seed), n_leaves=n_leaves)


def run_stage(st, n_proc, plan_ctx, timeout=60):
    """returns (error or None, timed_out, rec)"""
    import gc
    err = None
    timed_out = False
    with plan_ctx as rec:
        with pipeline.quiet():
            try:
                with faults.watchdog(timeout):
                    st.run(n_proc)
            except faults.StageTimeout:
                timed_out = True
            except KeyboardInterrupt:
                raise
            except BaseException as e:   # noqa
                # the whole chain: an error raised while cleaning up hides
                # the RuntimeError of the poll loop in __context__
                parts = []
                seen = 0
                while e is not None and seen < 5:
                    parts.append('%s: %s' % (type(e).__name__,
                                             str(e)[:300]))
                    e = e.__context__
                    seen += 1
                err = re.sub(r"/[^\s':]*ctmverif_[^/\s':]*", '<scratch>',
                             ' <- '.join(parts))
                del e
            gc.collect()
    return err, timed_out, rec


def clear(st):
    if hasattr(st, 'clear_outputs'):
        st.clear_outputs()
    else:
        for p in st.outputs():
            if p.exists():
                p.unlink()
    if hasattr(st, 'result'):
        st.result = None


def mapping_failure_problems(obs, st=None):
    """the C14 demands on what a failed mapping run leaves behind: no result
    records, no CSV, no success line anywhere, the log written; the JSON /
    HDF5 outputs, where requested, written without results"""
    want_json = getattr(st, 'want_json', True)
    want_h5 = getattr(st, 'want_h5', True)
    probs = []
    if obs['json_exists']:
        if obs['json_keys'] == 'unparseable':
            probs.append('JSON output unparseable')
        else:
            if 'results' in obs['json_keys']:
                probs.append('JSON output has results')
            if 'log' not in obs['json_keys']:
                probs.append('JSON output has no log')
            if has_success_line(st, obs['log_in_json'] or []):
                probs.append('success line in the JSON log')
    elif want_json:
        probs.append('no JSON output written')
    if obs['csv_exists']:
        probs.append('CSV written')
    if not obs['log_exists']:
        probs.append('log file not written')
    elif has_success_line(st, obs['log_text'].splitlines()):
        probs.append('success line in the log file')
    if obs['h5_exists']:
        if obs['h5_datasets'] != ['metadata']:
            probs.append('HDF5 output has datasets %r' % obs['h5_datasets'])
        if obs['h5_metadata_keys'] and 'results' in obs['h5_metadata_keys']:
            probs.append('HDF5 metadata has results')
    elif want_h5:
        probs.append('no HDF5 output written')
    return probs


RACE_SIG = 'C14/fault/mapping/cleanup-race/outputs-not-written'
RACE_WHAT = ('mapping: %s, run_mapping raised from its finally block while '
             'cleaning up (%s) because a sibling worker was still writing '
             'into the result buffer: %s')


def is_cleanup_race(err):
    """the error that left run_mapping is a file-system error of the
    clean-up, the poll loop's RuntimeError is only its context"""
    head = (err or '').split(' <- ')[0]
    return head.split(':')[0] in ('OSError', 'FileNotFoundError',
                                  'PermissionError') \
        and ' <- ' in (err or '')


def check_cleanup_race(ctx, prob_seed, n_leaves, n_proc, st=None):
    """forced interleaving (faults.orphan_writes_during_cleanup): worker 0
    dies before its work, worker 1 publishes its chunk file exactly while
    run_mapping's finally block removes the result buffer.  C14 still demands
    the log, and a JSON/HDF5 without results."""
    detail = {'kind': 'cleanup_race', 'prob_seed': prob_seed,
              'n_leaves': n_leaves, 'n_processors': n_proc}
    if st is None:
        with pipeline.workdir('ctmverif_c14_') as d:
            prob = make_problem(prob_seed, n_leaves)
            with pipeline.quiet():
                st = stagefix.Mapping(prob, d)
            run_stage(st, n_proc, faults.count_workers(st))
            learn_success_lines(st)
            return check_cleanup_race(ctx, prob_seed, n_leaves, n_proc, st)
    clear(st)
    hook = ('cell_type_mapper.type_assignment.election', 'save_results')
    err, timed_out, rec = run_stage(
        st, n_proc, faults.orphan_writes_during_cleanup(st, 0, 1, hook,
                                                        root=st.tmp))
    forced = bool(rec.forced_state.get('forced')) and rec.orphan_wrote
    detail.update(error=err, forced=forced, fired=rec.fired)
    ctx.count('cleanup_race:' + ('forced' if forced else 'not-forced'))
    ctx.case(('cleanup_race', prob_seed, n_proc) if forced else None,
             sample=dict(detail))
    if not rec.fired:
        clear(st)
        return
    ctx.traces += 1
    if timed_out or err is None:
        ctx.violation('C14/fault/mapping/cleanup-race/no-error',
                      'worker 0 crashed but run_mapping %s'
                      % ('never returned' if timed_out else
                         'returned normally'), detail)
        clear(st)
        return
    obs = st.observe()
    detail['observed'] = {k: v for k, v in obs.items() if k != 'log_text'}
    probs = mapping_failure_problems(obs)
    if probs:
        ctx.violation(RACE_SIG, RACE_WHAT % (
            'worker 0 crashed before its work (os._exit(3)) and worker 1 '
            'wrote its chunk file during the clean-up', (err or '')[:160],
            '; '.join(probs)), detail)
    clear(st)


def check_fault(ctx, fixture, prob_seed, n_leaves, n_proc, worker, point,
                mode, st=None, n_workers=None, stage_info=None):
    """one fault-injection case; st = prepared stage object (or None: build
    it in a fresh workdir, used by replay)"""
    detail = {'kind': 'fault', 'fixture': fixture, 'prob_seed': prob_seed,
              'n_leaves': n_leaves, 'n_processors': n_proc, 'worker': worker,
              'point': point, 'mode': mode}
    if st is None:
        with pipeline.workdir('ctmverif_c14_') as d:
            prob = make_problem(prob_seed, n_leaves)
            with pipeline.quiet():
                st = stagefix.STAGES[fixture](prob, d)
            if fixture.startswith('mapping'):
                run_stage(st, n_proc, faults.count_workers(st))
                learn_success_lines(st)
            return check_fault(ctx, fixture, prob_seed, n_leaves, n_proc,
                               worker, point, mode, st=st,
                               n_workers=n_workers, stage_info=stage_info)
    clear(st)
    err, timed_out, rec = run_stage(
        st, n_proc, faults.inject(st, worker, point, mode))
    fired = rec.fired
    detail['n_workers_started'] = rec.started
    detail['fired'] = fired
    detail['error'] = err
    ctx.count('fault:%s:%s' % (fixture, 'fired' if fired else 'not-fired'))
    ctx.count('point:' + point)
    ctx.count('mode:' + mode)
    key = None
    if fired and (n_workers or rec.started) >= 2:
        key = ('fault', fixture, n_workers, n_proc, worker, point, mode,
               prob_seed)
    ctx.case(key, sample=dict(detail))
    if not fired:
        # the worker never reached the crash point (e.g. a mid hook that this
        # chunk does not pass): nothing is demanded of the run
        clear(st)
        return
    ctx.traces += 1
    sig = 'C14/fault/%s/%s/%s' % (fixture, point, mode)
    if timed_out:
        ctx.violation(sig + '/hangs',
                      '%s: worker %d crashed (%s, %s) and the stage call '
                      'never returned' % (fixture, worker, point, mode),
                      detail)
        clear(st)
        return
    if err is None:
        ctx.violation(sig + '/no-error',
                      '%s: worker %d crashed (%s, %s) but the call returned '
                      'normally' % (fixture, worker, point, mode), detail)
        clear(st)
        return
    # outputs
    if fixture.startswith('mapping'):
        obs = st.observe()
        detail['observed'] = {k: v for k, v in obs.items()
                              if k != 'log_text'}
        probs = mapping_failure_problems(obs, st)
        if probs:
            if is_cleanup_race(err):
                ctx.count('mapping:cleanup-race(natural)')
                ctx.violation(RACE_SIG, RACE_WHAT % (
                    'worker %d crashed (%s, %s)' % (worker, point, mode),
                    err[:160], '; '.join(probs)), detail)
            else:
                ctx.violation(sig + '/output/' + probs[0].replace(' ', '-'),
                              'mapping: worker %d crashed (%s, %s): %s'
                              % (worker, point, mode, '; '.join(probs)),
                              detail)
            clear(st)
            return
    else:
        if st.accepts():
            ctx.violation(sig + '/output-accepted',
                          '%s: worker %d crashed (%s, %s), the call raised '
                          '(%s) but the output location holds something the '
                          'next stage accepts' % (fixture, worker, point,
                                                  mode, err), detail)
            clear(st)
            return
    # model prediction
    if ctx.driver_ok and stage_info is not None:
        # the exit code in the message: cross-checked if it can be read
        impl_code = parse_exit_code(err)
        want_code = faults.EXPECTED_EXIT[mode]
        nw = max(rec.started, worker + 1)
        exit_codes = [0] * nw
        exit_codes[worker] = want_code
        out = ctx.model('procs.execStage', {
            'stage': STAGE_OF_FIXTURE[fixture], 'nItems': nw,
            'nProc': n_proc, 'keys': list(range(nw)),
            'sched': [list(range(nw))] * (2 * nw + 2), 'exit': exit_codes})
        disagree = None
        if out['outcome'] != 'failed' or out.get('code') != want_code:
            disagree = 'model outcome %r' % (out,)
        elif not fixture.endswith('.transpose') and impl_code is not None \
                and impl_code != want_code:
            disagree = 'implementation reported exit code %r, expected %r' \
                % (impl_code, want_code)
        elif fixture.startswith('mapping'):
            w = ctx.model('procs.runMapping', {
                'assignRaises': True, 'csvRequested': st.want_csv,
                'jsonRequested': st.want_json,
                'hdf5Requested': st.want_h5})
            obs = st.observe()
            impl_w = {
                'raised': True, 'csv': obs['csv_exists'],
                'json': [k for k in ('results', 'marker_genes',
                                     'taxonomy_tree', 'n_unmapped_genes',
                                     'config', 'log', 'metadata')
                         if k in (obs['json_keys'] or [])]
                if obs['json_exists'] else None,
                'hdf5': {'metadata': [k for k in ('config', 'log',
                                                  'metadata')
                                      if k in (obs['h5_metadata_keys']
                                               or [])],
                         'datasets': obs['h5_datasets']}
                if obs['h5_exists'] else None,
                'log': None}
            w2 = dict(w)
            w2['log'] = None
            if w2 != impl_w:
                disagree = 'runMapping model %r vs observed %r' % (w2, impl_w)
        elif st.outputs():
            exists = st.outputs()[0].exists()
            predicted = bool(out['file'])
            if exists != predicted:
                disagree = 'output file exists=%r, model predicts tags %r' \
                    % (exists, out['file'])
        if disagree:
            ctx.disagreements_checked += 1
            d2 = dict(detail)
            d2['broken'] = 'correspondence CTM.Procs.exec (generated ' \
                           'skeleton %s) ~ %s' % (STAGE_OF_FIXTURE[fixture],
                                                  fixture)
            d2['disagreement'] = disagree
            ctx.violation('C14/correspondence/fault/%s' % fixture,
                          'model and implementation disagree on a fault '
                          'case whose C14 predicate holds: ' + disagree,
                          d2, found_input=False)
    clear(st)


def run_faults(ctx):
    rng = ctx.rng
    stage_info = None
    if ctx.driver_ok:
        stage_info = {s['name']: s for s in ctx.model('procs.stages', {})}
    if ctx.tier == 'quick':
        plans = [(rng.randrange(2 ** 31), rng.choice([7, 8]), 3)]
    else:
        plans = [(rng.randrange(2 ** 31), 5, 2),
                 (rng.randrange(2 ** 31), 7, 3),
                 (rng.randrange(2 ** 31), 8, 4),
                 # 4 leaves = 6 pairs: the dict stages have a single worker
                 (rng.randrange(2 ** 31), 4, 3)]
    for prob_seed, n_leaves, n_proc in plans:
        prob = make_problem(prob_seed, n_leaves)
        with pipeline.workdir('ctmverif_c14_') as d:
            for fixture, cls in stagefix.STAGES.items():
                if ctx.tier == 'quick' and fixture in ('mapping.jsonOnly',
                                                       'mapping.h5Only'):
                    continue
                t_fix = ctx.elapsed()
                with pipeline.quiet():
                    st = cls(prob, d)
                # baseline: the fixture must work when nothing is injected
                err, timed_out, rec = run_stage(
                    st, n_proc, faults.count_workers(st))
                if err is not None or timed_out or not st.accepts():
                    raise core.InfraError(
                        'fixture %s does not run cleanly without faults '
                        '(seed %d): %s' % (fixture, prob_seed, err))
                n_workers = rec.started
                if fixture.startswith('mapping'):
                    if not learn_success_lines(st):
                        ctx.count('mapping:no-success-line-in-a-good-run')
                ctx.count('workers:%s:%d' % (fixture, n_workers))
                ctx.case(None)
                if ctx.tier == 'quick' and fixture not in (
                        'selection.behemoth', 'selection.multiRef'):
                    workers = sorted({0, n_workers - 1})
                else:
                    workers = list(range(n_workers))
                for w in workers:
                    for pi, point in enumerate(faults.POINTS):
                        for mi, mode in enumerate(faults.MODES):
                            # quick: all 9 combinations on the last worker,
                            # one mode per point on the first
                            if fixture in ('mapping.csvOnly',
                                           'mapping.logOnly',
                                           'mapping.jsonOnly',
                                           'mapping.h5Only', 'stats.copy'):
                                # output-configuration variants: quick =
                                # last worker, before / after, 3 modes
                                if ctx.tier == 'quick' and (
                                        w != workers[-1] or point == 'mid'):
                                    continue
                            elif fixture in ('selection.behemoth',
                                             'selection.multiRef'):
                                # every worker (each behemoth in turn):
                                # the scheduler treats them differently
                                if ctx.tier == 'quick' and point == 'mid':
                                    continue
                            elif ctx.tier == 'quick' and w != workers[-1] \
                                    and mi != pi:
                                continue
                            check_fault(ctx, fixture, prob_seed, n_leaves,
                                        n_proc, w, point, mode, st=st,
                                        n_workers=n_workers,
                                        stage_info=stage_info)
                # and the fixture still works afterwards
                err, timed_out, rec = run_stage(
                    st, n_proc, faults.count_workers(st))
                if err is not None or timed_out or not st.accepts():
                    raise core.InfraError(
                        'fixture %s broken after the fault runs: %s'
                        % (fixture, err))
                if fixture == 'mapping':
                    run_hdf5(ctx, st)
                    check_cleanup_race(ctx, prob_seed, n_leaves, 2, st=st)
                clear(st)
                ctx.log('faults %s: %d workers, %.1fs' % (
                    fixture, n_workers, ctx.elapsed() - t_fix))


# ---------------------------------------------------------------------------
# (iii) blob_to_hdf5
# ---------------------------------------------------------------------------

def check_hdf5(ctx, blob, keys, path):
    from cell_type_mapper.utils.output_utils import blob_to_hdf5
    sub = {k: blob[k] for k in keys}
    if path.exists():
        path.unlink()
    try:
        with pipeline.quiet():
            blob_to_hdf5(output_blob=sub, dst_path=path)
        with h5py.File(path, 'r') as src:
            datasets = sorted(src.keys())
            meta = sorted(json.loads(src['metadata'][()].decode('utf-8')))
        impl = {'datasets': datasets, 'metadata': meta}
    except Exception as e:
        impl = {'crash': repr(e)[:200]}
    ctx.case(('h5', tuple(sorted(keys))), sample=None)
    ctx.count('hdf5:' + ('with-results' if 'results' in keys
                         else 'without-results'))
    detail = {'kind': 'hdf5', 'keys': sorted(keys), 'impl': impl}
    if 'results' not in keys or 'taxonomy_tree' not in keys:
        want = {'datasets': ['metadata'],
                'metadata': sorted(k for k in keys if k != 'results')}
        if impl != want:
            ctx.violation('C14/hdf5/not-metadata-only',
                          'blob_to_hdf5 of a blob without results wrote %r'
                          % (impl,), detail)
            return
    if ctx.driver_ok and 'crash' not in impl:
        m = ctx.model('procs.blobToHdf5', {'keys': sorted(keys)})
        same = (sorted(m['metadata']) == impl['metadata'] and
                (m['datasets'] == ['metadata']) ==
                (impl['datasets'] == ['metadata']))
        if not same:
            ctx.disagreements_checked += 1
            detail['model'] = m
            detail['broken'] = 'correspondence CTM.Procs.blobToHdf5 ~ ' \
                               'blob_to_hdf5'
            ctx.violation('C14/correspondence/hdf5',
                          'correspondence procs.blobToHdf5 no longer checks',
                          detail, found_input=False)


def run_hdf5(ctx, mapping_stage):
    """after a successful mapping run: its JSON blob with every subset of the
    inner keys removed"""
    blob = json.loads((mapping_stage.out_dir / 'out.json').read_text())
    inner = ['results', 'marker_genes', 'taxonomy_tree', 'n_unmapped_genes']
    outer = [k for k in blob if k not in inner]
    path = mapping_stage.d / 'probe.h5'
    for r in range(len(inner) + 1):
        for sub in itertools.combinations(inner, r):
            check_hdf5(ctx, blob, list(sub) + outer, path)
    if path.exists():
        path.unlink()


# ---------------------------------------------------------------------------

def translate_step(ctx):
    changed, stages, shape = translator.regenerate(core.REPO, core.LEAN)
    ctx.log('translate: Skeleton.lean %s' % ('rewritten' if changed
                                             else 'unchanged'))
    ctx.extra_cov['skeleton_changed_vs_golden'] = changed
    ctx.extra_cov['stages_unrecognised'] = [
        s['name'] + ': ' + s['why'] for s in stages if s['why']]
    ctx.extra_cov['mapping_shape'] = shape


def translate(ctx):   # noqa: F811  (entry point used by ./check)
    translate_step(ctx)


def run(ctx):
    cdir = core.VERIF / 'corpus' / 'C14'
    for f in sorted(cdir.glob('*.json')) if cdir.is_dir() else []:
        replay(ctx, json.loads(f.read_text()), from_corpus=True)
    if ctx.driver_ok:
        for s in ctx.model('procs.stages', {}):
            ctx.count('skeleton:%s:%s' % (s['name'], 'wellFormed'
                                          if s['wellFormed'] else 'BROKEN'))
        if not ctx.model('procs.mappingShape', {})['matches']:
            ctx.count('skeleton:run_mapping:BROKEN')
    run_winnow(ctx)
    run_faults(ctx)


def replay(ctx, data, from_corpus=False):
    d = data.get('detail', data)
    kind = d.get('kind')
    if kind == 'winnow_list':
        check_winnow_list(ctx, d['codes'])
    elif kind == 'winnow_dict':
        check_winnow_dict(ctx, d['items'])
    elif kind == 'fault':
        check_fault(ctx, d['fixture'], d['prob_seed'], d.get('n_leaves'),
                    d['n_processors'], d['worker'], d['point'], d['mode'])
    elif kind == 'cleanup_race':
        check_cleanup_race(ctx, d['prob_seed'], d.get('n_leaves'),
                           d['n_processors'])
    elif kind == 'hdf5':
        with pipeline.workdir('ctmverif_c14_') as wd:
            prob = make_problem(d.get('prob_seed', 1), d.get('n_leaves'))
            with pipeline.quiet():
                st = stagefix.Mapping(prob, wd)
                st.run(2)
            blob = json.loads((st.out_dir / 'out.json').read_text())
            check_hdf5(ctx, blob, [k for k in d['keys'] if k in blob],
                       st.d / 'probe.h5')
    elif not from_corpus:
        print('nothing to replay for kind', kind)
