"""
C03 -- confidence fields obey the documented arithmetic contract.

 unit:     adversarial vote tables (ties, one iteration, zero runners-up
           requested, more requested than siblings, all votes on one child)
           pushed through the real choose_node (its tally_votes replaced by
           the table) and the runner-up write-back rule; contract evaluated
           independently; model chooseCell/keepRunners compared.
 records:  hand-built per-level records (single-child levels anywhere,
           also at the top, pure chains) through the REAL post-loops of
           run_type_assignment (level loop stubbed by the records) vs the
           contract and the model's finishCell.
 pipeline: every record of real run_mapping outputs (plain, flattened,
           level-dropped, 1 iteration, 0 runners-up, more runners-up than
           siblings): the contract on the JSON alone, plus model
           finishCell / inferLevels.
"""
import json

import numpy as np

from ctmverif import election_util as eu
from ctmverif import election_pipeline as ep

RULE = ('unit: every vote table with <= 3 leaves / <= 2 iterations (thorough: '
        '<= 4 leaves / <= 3 iterations, every leaf->child partition); random '
        'vote tables with 1-6 children over 1-9 leaves, 1-12 '
        'iterations; the real tally + choose_node and pipeline runs with 255..700 '
        'iterations (vote counter beyond uint8) on confidently mapped cells; 1-12 '
        'iterations, compositions with zeros and ties, n_assignments '
        '1..children+2, correlations in [-1,1]; pipeline: generated mapping '
        'problems biased to flatten / drop_level / 1 iteration / 0 runners-up '
        '/ more runners-up than siblings / single-child chains / single top '
        'node. non-trivial = >= 2 children (unit) or a node with a real '
        'choice (pipeline); distinct by canonical JSON')
TRUSTED = ['float64 division votes/iterations is correctly rounded; the '
           'running product is compared to 1e-9',
           'correlations are compared to [-1,1] with 1e-9 slack (numpy '
           'returns 1.0000000000000002 for identical rows)']
ASSUMPTIONS = ['bootstrap_iteration >= 1', 'n_assignments >= 1 '
               '(n_runners_up >= 0)',
               'every child of a consulted parent owns at least one leaf']

SIG = 'C03'
TYPE_POOL = ['b', 'a', 'B', 'a10', 'a2', 'c d', 'Z', '10', '9', 'aa', 'é']


def composition(rng, total, parts):
    """random vote counts summing to total, with zeros and ties likely"""
    v = [0] * parts
    mode = rng.random()
    if mode < 0.2:
        v[rng.randrange(parts)] = total
        return v
    if mode < 0.45 and parts >= 2:
        # tie at the top
        a, b = rng.sample(range(parts), 2)
        v[a] = total // 2
        v[b] = total // 2
        if total % 2:
            v[rng.randrange(parts)] += 1
        return v
    for _ in range(total):
        v[rng.randrange(parts) if rng.random() < 0.7
          else rng.randrange(min(2, parts))] += 1
    return v


def gen_unit(rng, i):
    k = rng.randint(1, 6)
    n_leaves = rng.randint(k, k + 3)
    names = rng.sample(TYPE_POOL, k)
    types = list(names) + [rng.choice(names) for _ in range(n_leaves - k)]
    rng.shuffle(types)
    iters = rng.choice([1, 1, 2, 3, 4, 6, 10, 12, 255, 256, 300])
    n_cells = rng.randint(1, 4)
    votes = [composition(rng, iters, n_leaves) for _ in range(n_cells)]
    corr = [[(0.0 if v == 0 else sum(
        rng.choice([1.0, -1.0, rng.uniform(-1, 1), rng.uniform(0.3, 1)])
        for _ in range(v))) for v in row] for row in votes]
    return {'kind': 'unit', 'types': types, 'votes': votes, 'corr': corr,
            'iters': iters, 'n_assign': rng.randint(1, k + 2)}


def contract_problems(types, dv, iters, n_assign, winner, prob, avg,
                      ra, rc, rp):
    """the C03 clauses on one choose_node result + write-back"""
    out = []
    sibs = sorted(set(types))
    v = eu.whole_votes(prob, iters)
    if v is None:
        out.append(('prob-not-whole', 'probability %r of %d' % (prob, iters)))
        v = 0
    if not (0 < prob <= 1):
        out.append(('prob-range', 'probability %r' % prob))
    if not (len(ra) == len(rc) == len(rp)):
        out.append(('runner-length', 'lists differ in length'))
        return out
    if len(ra) > n_assign - 1:
        out.append(('runner-too-many', '%d listed, %d requested'
                    % (len(ra), n_assign - 1)))
    if len(set(ra)) != len(ra) or winner in ra:
        out.append(('runner-names', 'repeat or contain the winner'))
    if any(a not in sibs for a in ra):
        out.append(('runner-not-sibling', 'not a sibling'))
    rv = []
    for p in rp:
        k = eu.whole_votes(p, iters)
        if k is None or p <= 0:
            out.append(('runner-prob', 'probability %r' % p))
            k = 0
        rv.append(k)
    if rv != sorted(rv, reverse=True):
        out.append(('runner-order', 'probabilities increase'))
    if rv and rv[0] > v:
        out.append(('runner-exceeds-winner', ''))
    if v + sum(rv) > iters:
        out.append(('sum-gt-one', '%d votes of %d' % (v + sum(rv), iters)))
    if n_assign >= len(sibs) and v + sum(rv) != iters:
        out.append(('sum-ne-one', 'all siblings listed, %d votes of %d'
                    % (v + sum(rv), iters)))
    for c in [avg] + list(rc):
        if not (-1 - eu.REL <= c <= 1 + eu.REL):
            out.append(('corr-range', 'correlation %r' % c))
    return out


def check_unit(ctx, case):
    from cell_type_mapper.type_assignment import election
    from cell_type_mapper.utils.utils import choose_int_dtype
    types = list(case['types'])
    iters, n_assign = case['iters'], case['n_assign']
    votes = np.array(case['votes'], dtype=choose_int_dtype((0, iters)))
    corr = np.array(case['corr'], dtype=float)
    n_cells, n_leaves = votes.shape
    ctx.case(json.dumps(case, sort_keys=True) if len(set(types)) >= 2
             else None, sample=case)
    ctx.count('unit:children-%d' % len(set(types)))
    ctx.count('unit:iters-%s' % ('1' if iters == 1 else 'n'))
    ctx.count('unit:n_assign-%s' % (
        '1' if n_assign == 1 else
        'gt-children' if n_assign > len(set(types)) else 'mid'))

    def violation(cls, what, found=True, **extra):
        d = dict(case)
        d.update(extra)
        if not found:
            d['broken'] = what
        ctx.violation('%s/unit/%s' % (SIG, cls), what, d, found_input=found)

    real_tally = election.tally_votes
    election.tally_votes = lambda **kw: (votes.copy(), corr.copy())
    try:
        res, probs, avg, runners = election.choose_node(
            query_gene_data=np.zeros((n_cells, 2)),
            reference_gene_data=np.zeros((n_leaves, 2)),
            reference_types=list(types), bootstrap_factor=1.0,
            bootstrap_iteration=iters, rng=None, n_assignments=n_assign)
    except Exception as e:   # noqa
        violation('choose/raises', 'choose_node raised %r' % (e,))
        return
    finally:
        election.tally_votes = real_tally
    names = sorted(set(types))
    tid = {t: i for i, t in enumerate(names)}
    for c in range(n_cells):
        ctx.evaluations += 1
        dv, dc = eu.tally_by_child(types, votes[c], corr[c])
        tuples = runners[c]
        # the write-back rule of run_type_assignment
        kept = [t for t in tuples if t[1]]
        ra = [str(t[0]) for t in kept]
        rc = [float(t[2]) for t in kept]
        rp = [float(t[3]) for t in kept]
        winner = str(res[c])
        p = contract_problems(types, dv, iters, n_assign, winner,
                              float(probs[c]), float(avg[c]), ra, rc, rp)
        p += eu.check_choice(dv, dc, iters, n_assign - 1, winner,
                             float(probs[c]), float(avg[c]), ra, rc, rp)
        if p:
            violation('choose/' + p[0][0], 'cell %d: %s' % (c, p[:4]),
                      cell=c, winner=winner, prob=float(probs[c]),
                      runners=[[str(t[0]), bool(t[1]), float(t[2]),
                                float(t[3])] for t in tuples])
            return
        if ctx.driver_ok:
            mt = [tid[t] for t in types]
            cols = ctx.model('election.columns', {
                'types': mt, 'votes': [int(v) for v in votes[c]],
                'corr': eu.rats(corr[c])})
            listed = [tid[winner]] + [tid[str(t[0])] for t in tuples]
            order = eu.order_from_output(cols['types'], cols['votes'],
                                         listed)
            out = ctx.model('election.choose', {
                'types': mt, 'votes': [int(v) for v in votes[c]],
                'corr': eu.rats(corr[c]), 'iters': iters,
                'nAssign': n_assign, 'order': order})
            same = 'ok' in out and out['validOrder']
            if same:
                o = out['ok']
                k = o['kept']
                same = (names[o['winner']] == winner and
                        float(eu.frac(o['prob'])) == float(probs[c]) and
                        eu.near(float(eu.frac(o['avgCorr'])), float(avg[c]),
                                ab=eu.REL) and
                        [names[x] for x in k['assignment']] == ra and
                        [float(eu.frac(x)) for x in k['probability']] == rp
                        and len(k['correlation']) == len(rc) and
                        all(eu.near(float(eu.frac(a)), b, ab=eu.REL)
                            for a, b in zip(k['correlation'], rc)) and
                        len(o['runners']) == len(tuples))
            if not same:
                ctx.disagreements_checked += 1
                violation('correspondence/chooseCell',
                          'correspondence CTM.Election.chooseCell/'
                          'keepRunners ~ choose_node', found=False,
                          model=out, cell=c, order=order)
                return
    ctx.traces += 1


# ---------------------------------------------------------------------------
# the REAL tally + choose_node with many iterations (the vote counter crosses
# the uint8 / uint16 widths); contract only
# ---------------------------------------------------------------------------

def check_real(ctx, case):
    from cell_type_mapper.type_assignment import election
    refs = np.array(case['refs'], dtype=float)
    query = np.array(case['query'], dtype=float)
    types = list(case['types'])
    iters, n_assign = case['iters'], case['n_assign']
    ctx.count('real:iters-%d' % iters)
    ctx.case(json.dumps(case, sort_keys=True) if len(set(types)) >= 2
             else None)
    rr = eu.RecordingRng(case['seed'])
    with np.errstate(all='ignore'):
        res, probs, avg, runners = election.choose_node(
            query_gene_data=query, reference_gene_data=refs,
            reference_types=list(types), bootstrap_factor=case['factor'],
            bootstrap_iteration=iters, rng=rr, n_assignments=n_assign)
    for c in range(query.shape[0]):
        ctx.evaluations += 1
        kept = [t for t in runners[c] if t[1]]
        p = contract_problems(
            types, {}, iters, n_assign, str(res[c]), float(probs[c]),
            float(avg[c]), [str(t[0]) for t in kept],
            [float(t[2]) for t in kept], [float(t[3]) for t in kept])
        if p:
            d = dict(case)
            d.update(cell=c, winner=str(res[c]), prob=float(probs[c]),
                     avg=float(avg[c]),
                     runners=[[str(t[0]), bool(t[1]), float(t[2]),
                               float(t[3])] for t in runners[c]])
            ctx.violation('%s/real/choose/%s' % (SIG, p[0][0]),
                          'cell %d, %d iterations: %s' % (c, iters, p[:4]),
                          d)
            return
    ctx.traces += 1


# ---------------------------------------------------------------------------
# the post-loops of run_type_assignment on hand-built records
# ---------------------------------------------------------------------------

def gen_records(rng, i):
    """per-level outcome of the level loop for a few cells: which levels had
    a single child (avg_corr None, prob 1, no runners-up) and the numbers of
    the others"""
    depth = rng.randint(1, 6)
    mode = i % 5
    cells = []
    for _ in range(rng.randint(1, 3)):
        levels = []
        for k in range(depth):
            if mode == 0:
                single = True                      # pure chain
            elif mode == 1:
                single = k < rng.randint(0, depth)  # single-node top levels
            else:
                single = rng.random() < 0.4
            if single:
                levels.append({'single': True})
            else:
                iters = 8
                v = rng.randint(1, iters)
                levels.append({'single': False, 'prob': v / iters,
                               'corr': rng.uniform(-1, 1),
                               'n_runners': rng.randint(0, 2),
                               # a runner-up that got votes with an average
                               # correlation of exactly 0.0
                               'runner_corr': rng.choice([0.0, 0.25, -0.5])})
        cells.append(levels)
    return {'kind': 'records', 'depth': depth, 'cells': cells}


def check_records(ctx, case):
    """drive the REAL run_type_assignment with a stub tree / stub vote so
    that its level loop produces the given records, then check the two
    post-loops"""
    from cell_type_mapper.type_assignment import election
    depth = case['depth']
    cells = case['cells']
    hierarchy = ['lv%d' % k for k in range(depth)]

    def violation(cls, what, found=True, **extra):
        d = dict(case)
        d.update(extra)
        if not found:
            d['broken'] = what
        ctx.violation('%s/records/%s' % (SIG, cls), what, d,
                      found_input=found)

    # one private branch per cell: node names n<cell>_<level>[ _alt ]
    class StubTree(object):
        def __init__(self):
            self.hierarchy = hierarchy

        def nodes_at_level(self, level):
            k = hierarchy.index(level)
            out = []
            for ci, lv in enumerate(cells):
                out.append('n%d_%d' % (ci, k))
                if not lv[k]['single']:
                    out.append('n%d_%d_alt' % (ci, k))
            return out

        def children(self, level, node):
            if level is None:
                # top: one child per cell (+ alt); with a single cell whose
                # top is 'single' this is a single top-level node
                return self.nodes_at_level(hierarchy[0])
            k = hierarchy.index(level) + 1
            ci = int(node.split('_')[0][1:])
            if node.endswith('_alt'):
                return ['x']
            out = ['n%d_%d' % (ci, k)]
            if not cells[ci][k]['single']:
                out.append('n%d_%d_alt' % (ci, k))
            return out

    class StubData(object):
        def __init__(self, idx):
            self.idx = list(idx)
            self.n_cells = len(self.idx)

        def downsample_cells(self, selected_cells):
            return StubData(selected_cells)

    def stub_vote(full_query_gene_data, parent_node, **kw):
        k = 0 if parent_node is None else \
            hierarchy.index(parent_node[0]) + 1
        a, p, c, r = [], [], [], []
        for ci in full_query_gene_data.idx:
            lv = cells[ci][k]
            a.append('n%d_%d' % (ci, k))
            if lv['single']:
                # top level shared by several cells: a real vote happens
                p.append(1.0)
                c.append(0.5)
                r.append([])
            else:
                p.append(lv['prob'])
                c.append(lv['corr'])
                r.append([('n%d_%d_alt' % (ci, k), True,
                           lv.get('runner_corr', 0.25), 0.125)]
                         * min(1, lv['n_runners']))
        return np.array(a), np.array(p), np.array(c), r

    top_is_vote = len(StubTree().nodes_at_level(hierarchy[0])) > 1
    real = election._run_type_assignment
    election._run_type_assignment = stub_vote
    try:
        result = election.run_type_assignment(
            full_query_gene_data=StubData(range(len(cells))),
            leaf_node_matrix=None, marker_gene_cache_path=None,
            taxonomy_tree=StubTree(),
            bootstrap_factor_lookup={str(k): 1.0
                                     for k in [None] + hierarchy},
            bootstrap_iteration=8, rng=None, n_assignments=3)
    except Exception as e:   # noqa
        violation('post-loops/raises',
                  'run_type_assignment raised %r on per-level records %r'
                  % (e, cells))
        return
    finally:
        election._run_type_assignment = real
    for ci, levels in enumerate(cells):
        ctx.evaluations += 1
        rec = result[ci]
        # what the level loop produced (before the post-loops)
        pre = []
        for k, lv in enumerate(levels):
            voted = (not lv['single']) or (k == 0 and top_is_vote)
            if not lv['single']:
                pre.append((lv['prob'], lv['corr']))
            elif voted:
                pre.append((1.0, 0.5))
            else:
                pre.append((1.0, None))
        # contract, independently
        agg = 1.0
        for k, lvname in enumerate(hierarchy):
            p, c = pre[k]
            agg *= p
            r = rec[lvname]
            if c is None:
                above = [x[1] for x in pre[:k] if x[1] is not None]
                below = [x[1] for x in pre[k + 1:] if x[1] is not None]
                want = above[-1] if above else (below[0] if below else None)
                if r['bootstrapping_probability'] != 1.0 or \
                        r['runner_up_assignment']:
                    violation('single-child-prob', 'cell %d level %d: '
                              'single child: %r' % (ci, k, r), cell=ci)
                    return
            else:
                want = c
                n_r = min(1, levels[k].get('n_runners', 0))
                if not levels[k]['single'] and (
                        r['runner_up_assignment'] !=
                        ['n%d_%d_alt' % (ci, k)] * n_r or
                        r['runner_up_probability'] != [0.125] * n_r or
                        r['runner_up_correlation'] !=
                        [levels[k].get('runner_corr', 0.25)] * n_r):
                    violation('runner-dropped', 'cell %d level %d: the vote '
                              'returned %d runner-up tuple(s) with votes '
                              '(correlation %r), the record lists %r / %r / %r'
                              % (ci, k, n_r,
                                 levels[k].get('runner_corr', 0.25),
                                 r['runner_up_assignment'],
                                 r['runner_up_correlation'],
                                 r['runner_up_probability']), cell=ci,
                              result=rec)
                    return
            if r['avg_correlation'] != want:
                violation('single-child-corr' if c is None else 'corr-kept',
                          'cell %d level %d: avg_correlation %r, expected '
                          '%r (nearest level with a real choice)'
                          % (ci, k, r['avg_correlation'], want), cell=ci,
                          result=rec)
                return
            if not eu.near(r['aggregate_probability'], agg):
                violation('aggregate', 'cell %d level %d: aggregate %r != '
                          'running product %r'
                          % (ci, k, r['aggregate_probability'], agg),
                          cell=ci, result=rec)
                return
        if ctx.driver_ok:
            out = ctx.model('election.finishCell', {'recs': [
                {'assignment': 0, 'prob': eu.rat(p),
                 'avgCorr': None if c is None else eu.rat(c)}
                for p, c in pre]})
            for k, lvname in enumerate(hierarchy):
                r = rec[lvname]
                mc = None if out[k]['avgCorr'] is None else \
                    float(eu.frac(out[k]['avgCorr']))
                if mc != r['avg_correlation'] or not eu.near(
                        float(eu.frac(out[k]['aggregate'])),
                        r['aggregate_probability']):
                    ctx.disagreements_checked += 1
                    violation('correspondence/finishCell',
                              'correspondence CTM.Election.finishCell ~ '
                              'run_type_assignment post-loops', found=False,
                              model=out, result=rec, cell=ci)
                    return
    ctx.traces += 1
    ctx.count('records:%s' % ('chain' if all(
        lv['single'] for c in cells for lv in c) else 'mixed'))
    ctx.case(json.dumps(case, sort_keys=True)
             if any(not lv['single'] for c in cells for lv in c) else None)


def all_small_tables(max_leaves=4, max_iters=3):
    """every (leaf -> child map up to renaming, vote composition) with
    <= max_leaves leaves and <= max_iters iterations"""
    names = ['b', 'a', 'c d', 'B']          # creation order != sorted order

    def growth(n):
        # restricted growth strings = set partitions of n leaves
        def rec(prefix, mx):
            if len(prefix) == n:
                yield list(prefix)
                return
            for v in range(mx + 2):
                yield from rec(prefix + [v], max(mx, v))
        yield from rec([0], 0)

    def comps(total, parts):
        if parts == 1:
            yield [total]
            return
        for v in range(total + 1):
            for rest in comps(total - v, parts - 1):
                yield [v] + rest

    for n in range(1, max_leaves + 1):
        for g in growth(n):
            types = [names[v] for v in g]
            k = len(set(types))
            for iters in range(1, max_iters + 1):
                for votes in comps(iters, n):
                    for n_assign in sorted(set([1, 2, k + 1])):
                        corr = [float(v) * (0.5 if i % 2 else -0.25)
                                for i, v in enumerate(votes)]
                        yield {'kind': 'unit', 'types': types,
                               'votes': [votes], 'corr': [corr],
                               'iters': iters, 'n_assign': n_assign}


def corpus_dir():
    from ctmverif import core
    return core.VERIF / 'corpus' / 'C03'


def run(ctx):
    rng = ctx.rng
    cdir = corpus_dir()
    for f in sorted(cdir.glob('*.json')) if cdir.is_dir() else []:
        replay(ctx, json.loads(f.read_text()), from_corpus=True)
    quick = ctx.tier == 'quick'
    for i in range(400 if quick else 4000):
        check_unit(ctx, gen_unit(rng, i))
    n_ex = 0
    for case in all_small_tables(3, 2) if quick else all_small_tables(4, 3):
        check_unit(ctx, case)
        n_ex += 1
    ctx.extra_cov['exhaustive_small_vote_tables'] = n_ex
    from props import c02
    for iters in (255, 256, 257, 300, 700):
        for _ in range(2 if quick else 8):
            case = c02.gen_many(rng, iters)
            case['kind'] = 'unit-real'
            check_real(ctx, case)
    for i in range(150 if quick else 1500):
        check_records(ctx, gen_records(rng, i))
    for i in range(2 if quick else 12):
        case = ep.gen_pipeline_case(rng, i, c03_bias=True, many_iters=True)
        ep.check_pipeline(ctx, case, SIG, do_votes=False, do_c03=True)
    for i in range(70 if quick else 1200):
        case = ep.gen_pipeline_case(rng, i, c03_bias=True)
        ep.check_pipeline(ctx, case, SIG, do_votes=False, do_c03=True)


def replay(ctx, data, from_corpus=False):
    d = data.get('detail', data)
    kind = d.get('kind')
    if kind == 'unit':
        check_unit(ctx, d)
    elif kind == 'records':
        check_records(ctx, d)
    elif kind == 'unit-real':
        check_real(ctx, d)
    elif kind == 'pipeline':
        ep.check_pipeline(ctx, d, SIG, do_votes=False, do_c03=True)
    elif not from_corpus:
        print('nothing to replay for kind', kind)
