"""
C17 -- flattening or dropping a level equals mapping on the reduced taxonomy.

Layers (CONTRIBUTING.md):
 (i)  predicate on the implementation alone, paired real `run_mapping` runs
      with a common configuration (seed, bootstrap factor, iterations, chunk
      size, workers, encoding, runner-up count):
      * drop:    A = stats file with tree t, drop_level = l;  B = stats file
                 with `levelloop_util.reduced_tree(t, drop=l)` (built by the
                 harness from the label columns without l), marker table
                 without the parents of level l, no drop.  Every level != l:
                 the per-level dicts of A and B are equal (==, floats
                 bit-equal); level l of A is the parent (harness parent map
                 of t) of A's next finer assignment, marked inferred; B has
                 no level l.
      * flatten: A = tree t, flatten;  B = one-level taxonomy of the leaves
                 with marker table {'None': sorted union of all lists}.
                 Leaf level equal (==); every coarser level of A is the
                 leaf's ancestor, marked inferred.
      * absent:  drop_level names no level of t: 'results' == the run without
                 drop_level.
      * flatten_drop: A = tree t, flatten AND drop_level = l (l a non-leaf
                 level or no level of t), marker table in which the parents
                 of l and keys for parents outside the taxonomy each own a
                 gene nobody else lists;  B = one-level taxonomy with the
                 union of ALL lists of the table.  Same comparison as
                 flatten; the hook trace of A must show the root voting on
                 exactly that union (restricted to query/reference genes).
      `levelloop_util.c01_predicate` must hold on run A.
 (ii) correspondence: `levelloop_util.model_pipeline` (Lean `mapPipeline`,
      oracle read off the real output) on both runs of every pair.
"""
import copy
import json

from ctmverif import levelloop_util as U
from props import c01

RULE = ('bases: generated reference (taxonomy depth 1-6 with chains and '
        'single-node levels; a quarter each: depth >= 3 / top level with a '
        'single node / a level whose nodes all have a single child inserted '
        'at a random height / free) + marker table (a list for every parent, '
        'genes of the query) + query of 1-12 cells (ids sorting differently '
        'from file order) x one configuration (bootstrap factor 1.0/0.9/0.5, '
        '1/4/10 iterations, chunk size 1..n+3, 1-4 workers, 3 encodings, 0-5 '
        'runners-up, one seed); pairs per base: one per droppable level '
        '(every level but the leaf), one flatten (table with extra keys for '
        'parents outside the taxonomy), one absent level (flatten on or off), '
        'flatten x drop_level (quick: one droppable level + sometimes the '
        'absent level; thorough: all) with private genes for the dropped '
        'parents, crossed with n_runners_up=0 / bootstrap_iteration=1 / the '
        'three encodings; level names in prefix relation (class / class_fine, '
        'level1 / level10, ...) on 2 bases of 5 and absent-level strings that '
        'are prefixes / suffixes / extensions of level names; per base drop and '
        'absent pairs with min_markers 2-5 and parents at / below the dropped '
        'level listing fewer usable genes (a gene palette per level); drop and '
        'absent pairs also compare the traced gene list of every node; per base '
        'one config-reuse history: ONE config dict object (drop_level = a '
        'non-leaf level) handed to 2-3 run_mapping calls that alternate between '
        'the reference without / with that level (files re-written in place), '
        'sometimes toggling flatten, each call compared with a fresh dict on '
        'fresh files; every run: the config dict is unchanged afterwards; order '
        'family (always in quick): 4- and 5-level taxonomies whose children '
        'names sort before those of the children of earlier siblings, every '
        'middle level with >= 2 levels beneath it (and the top level) dropped, '
        'bootstrap factor 0.3 / 0.5, 3-8 iterations, cells spread over all the '
        'parents above the leaves, run B on the rebuilt and sibling-shuffled '
        'reduced taxonomy.  non-trivial = the run tree of the pair (reduced / '
        'one-level / stored) has a parent with >= 2 children, i.e. a vote is '
        'taken; distinct by canonical JSON of (kind, level, problem, config)')
TRUSTED = ['anndata/h5py write and read back the query and the stats file as '
           'given', 'json round trip of Python (floats: repr round trip)',
           'levelloop_util.reduced_tree / parent_map / leaf_paths (the '
           'independent statement of "the taxonomy that never had the level")',
           'the oracle of the model comparison is read off the real output']
ASSUMPTIONS = ['both runs of a pair share rng_seed, bootstrap_factor, '
               'bootstrap_iteration, chunk_size, n_processors, encoding, '
               'n_runners_up and the files (query, reference profiles)',
               'the marker table lists every parent of the stored tree with '
               'genes present in the query and the reference; min_markers = 1 '
               '(no marker borrowing from ancestors)',
               'drop_level is a non-leaf level (taxonomy depth >= 2) or no '
               'level of the taxonomy',
               'the inferred level is compared with what backfill documents: '
               'the finer level\'s entry without runner_up_* keys, the '
               'parent\'s name, directly_assigned False']

ABSENT = 'not_a_level'


# --------------------------------------------------------------------------
# generators
# --------------------------------------------------------------------------

def insert_single_child_level(rng, tree):
    """a new level above level j whose nodes each have exactly one child"""
    tree = copy.deepcopy(tree)
    h = tree['hierarchy']
    j = rng.randrange(len(h))
    name = 'M_chain'
    new = {'mid_' + n: [n] for n in tree[h[j]]}
    if j > 0:
        up = h[j - 1]
        tree[up] = {p: ['mid_' + c for c in kids]
                    for p, kids in tree[up].items()}
    out = {'hierarchy': h[:j] + [name] + h[j:]}
    for l in out['hierarchy']:
        out[l] = new if l == name else tree[l]
    return out


def gen_tree(rng, i):
    mode = i % 4
    if mode == 0:
        for _ in range(200):
            t = U.gen_e2e_tree(rng, max_depth=5, max_leaves=10)
            if len(t['hierarchy']) >= 3 and U.has_choice(t):
                return t, 'deep'
    if mode == 1:
        for _ in range(400):
            t = U.gen_e2e_tree(rng, max_depth=5, max_leaves=10)
            h = t['hierarchy']
            if len(h) >= 2 and len(t[h[0]]) == 1 and U.has_choice(t):
                return t, 'single-top'
    if mode == 2:
        t = U.gen_e2e_tree(rng, max_depth=4, max_leaves=9)
        return insert_single_child_level(rng, t), 'single-child-level'
    return U.gen_e2e_tree(rng, max_depth=5, max_leaves=10), 'free'


PREFIX_CHAINS = [['class', 'class_fine', 'class_fine2', 'class_fine2b',
                  'class_fine2bz'],
                 ['level1', 'level10', 'level100', 'level1000', 'level10000'],
                 ['sub', 'subclass', 'subclass_', 'subclass_x', 'subclass_xy']]


def prefix_names(rng, depth):
    """level names one of which is a proper prefix of another, in any
    vertical order"""
    names = list(rng.choice(PREFIX_CHAINS)[:max(depth, 1)])
    if depth > 2 and rng.random() < 0.4:
        names[rng.randrange(depth)] = 'other'
    rng.shuffle(names)
    return names


def absent_level(rng, h):
    """a string that is no level of the taxonomy but a prefix / suffix /
    extension of one"""
    x = rng.choice(h)
    cands = [x[:-1], x[:max(1, len(x) // 2)], x[1:], x + '_x', x + '0',
             x.upper() if x.upper() != x else x + 'X', ABSENT]
    cands = [c for c in cands if c and c not in h]
    return rng.choice(cands)


def deficient_table(rng, problem, level, m):
    """marker table for min_markers = m in which parents AT `level` (when it
    is a level) and BELOW it list fewer than m genes of the query (topped up
    with reference-only genes), every level drawing on its own palette of
    genes, so that a fallback taken from the wrong ancestor changes the genes
    a node votes on"""
    tree = problem['tree']
    h = tree['hierarchy']
    qset = set(problem['query_genes'])
    shared = [g for g in problem['ref_genes'] if g in qset]
    r_only = [g for g in problem['ref_genes'] if g not in qset]
    rng.shuffle(shared)
    # palettes: root, then one per non-leaf level (overlap only if needed)
    slots = [None] + list(h[:-1])
    k = max(m, len(shared) // len(slots))
    palette = {}
    for i, sl in enumerate(slots):
        pal = shared[i * k:(i + 1) * k]
        if len(pal) < m:
            pal = pal + rng.sample(shared, m - len(pal))
        palette[sl] = pal
    idx = h.index(level) if level in h else -1
    # mostly: the parents AT the level keep full lists (a tempting, wrong
    # fallback source) and the parents right below it are deficient
    at_too = rng.random() < 0.3
    table = {}
    for p in U.all_parent_keys(tree):
        sl = None if p is None else p[0]
        pal = palette[sl]
        d = -1 if p is None else h.index(p[0]) - max(idx, 0)
        prob = 0.0 if d < 0 else (0.7 if at_too else 0.0) if d == 0 \
            else 0.9 if d == 1 else 0.5
        if idx < 0 and d >= 0:
            prob = 0.7
        if rng.random() < prob:
            n_ok = rng.randint(0, m - 1)
            lst = rng.sample(pal, min(n_ok, len(pal)))
            if r_only:
                lst += rng.sample(r_only, min(len(r_only), rng.randint(1, 2)))
            if not lst:
                lst = [pal[0]]
        else:
            lst = rng.sample(pal, min(len(pal), rng.randint(m, m + 2)))
        table[U.marker_key(p)] = lst
    return table


def gen_base(rng, i):
    tree, mode = gen_tree(rng, i)
    if i % 5 in (1, 3) and len(tree['hierarchy']) >= 2:
        tree = U.rename_levels(tree, prefix_names(rng, len(tree['hierarchy'])))
        mode += '+prefix-names'
    problem = U.make_problem(rng, tree=tree, n_genes=rng.randint(12, 20),
                             n_cells=None if i % 3 else rng.randint(4, 12))
    cfg = U.gen_config(rng, problem, flatten=False)
    cfg['flatten'] = False
    cfg['drop_level'] = None
    return problem, cfg, mode


def privatize(rng, problem, level):
    """marker table in which every parent of `level` (if it is a level of the
    taxonomy) lists a gene no other parent lists, plus keys for parents that
    are not in the taxonomy, each with a gene of its own: the union of ALL
    lists then differs from the union over any subset of the parents"""
    tree = problem['tree']
    shared = [g for g in problem['ref_genes'] if g in problem['query_genes']]
    markers = {k: list(v) for k, v in problem['markers'].items()}
    owners = []
    if level in tree['hierarchy'][:-1]:
        owners += [U.marker_key((level, n)) for n in tree[level]]
    owners += ['ghost_level/ghost_%d' % i for i in range(rng.randint(1, 2))]
    if rng.random() < 0.5:
        owners.append('%s/not_a_node' % tree['hierarchy'][0])
    pool = list(shared)
    rng.shuffle(pool)
    # keep at least two genes that stay unowned
    private = {}
    for k in owners:
        if len(pool) <= 2:
            break
        private[k] = pool.pop()
    taken = set(private.values())
    free = [g for g in shared if g not in taken]
    for k in list(markers):
        markers[k] = [g for g in markers[k] if g not in taken]
        while len(markers[k]) < 2 and len(free) > len(markers[k]):
            g = rng.choice(free)
            if g not in markers[k]:
                markers[k].append(g)
    for k, g in private.items():
        markers.setdefault(k, rng.sample(free, min(2, len(free))))
        markers[k] = list(markers[k]) + [g]
    return markers


def level_class(tree, level):
    h = tree['hierarchy']
    return 'top' if level == h[0] else 'middle'


def level_traits(tree, level):
    h = tree['hierarchy']
    out = [level_class(tree, level)]
    if all(len(k) == 1 for k in tree[level].values()):
        out.append('all-single-child')
    if len(tree[level]) == 1:
        out.append('single-node-level')
    if len(tree[h[0]]) == 1:
        out.append('tree-with-single-top-node')
    return out


# --------------------------------------------------------------------------
# the pairs
# --------------------------------------------------------------------------

def entry_class(a, b):
    if not isinstance(a, dict) or not isinstance(b, dict):
        return 'payload'
    if a.get('assignment') != b.get('assignment'):
        return 'assignment'
    if a.get('bootstrapping_probability') != b.get(
            'bootstrapping_probability') or \
            a.get('aggregate_probability') != b.get('aggregate_probability'):
        return 'probability'
    if a.get('runner_up_assignment') != b.get('runner_up_assignment') or \
            a.get('runner_up_probability') != b.get('runner_up_probability'):
        return 'runner-up'
    if a.get('avg_correlation') != b.get('avg_correlation') or \
            a.get('runner_up_correlation') != b.get('runner_up_correlation'):
        return 'correlation'
    return 'payload'


PRIORITY = ['cells', 'reduced-levels', 'levels', 'root-markers', 'node-genes',
            'assignment',
            'ancestor',
            'flag', 'inferred-payload', 'probability', 'runner-up',
            'correlation', 'payload']


def worst(found):
    """the failure whose class comes first in PRIORITY: the signature must
    not depend on which cell happens to be looked at first"""
    found = [f for f in found if f]
    if not found:
        return None
    return min(found, key=lambda f: PRIORITY.index(f[0]))


def ids_fail(problem, ra, rb):
    ids = list(problem['cell_ids'])
    for name, r in (('A', ra), ('B', rb)):
        if r is None or [x.get('cell_id') for x in r] != ids:
            return ('cells', 'run %s does not list the query cells in file '
                    'order: %r' % (name, None if r is None else
                                   [x.get('cell_id') for x in r][:8]))
    return None


def drop_fail(problem, level, ra, rb):
    """(class, message) or None"""
    tree = problem['tree']
    h = tree['hierarchy']
    f = ids_fail(problem, ra, rb)
    if f:
        return f
    finer = h[h.index(level) + 1]
    pm = U.parent_map(tree)
    others = [l for l in h if l != level]
    return worst(drop_cell_fail(a, b, h, others, level, finer, pm)
                 for a, b in zip(ra, rb))


def drop_cell_fail(a, b, h, others, level, finer, pm):
    c = a['cell_id']
    if sorted(k for k in b if k != 'cell_id') != sorted(others):
        return ('reduced-levels', 'cell %r of the run on the reduced '
                'taxonomy has levels %r' % (c, [k for k in b]))
    if sorted(k for k in a if k != 'cell_id') != sorted(h):
        return ('levels', 'cell %r of the drop_level run has levels %r'
                % (c, [k for k in a]))
    differ = worst((entry_class(a[l], b[l]),
                    'cell %r level %r:\n drop_level=%r : %r\n reduced '
                    'taxonomy: %r' % (c, l, level, a[l], b[l]))
                   for l in others if a[l] != b[l])
    if differ:
        return differ
    child = a[finer].get('assignment')
    if child not in pm[finer] or \
            a[level].get('assignment') != pm[finer][child]:
        return ('ancestor', 'cell %r: dropped level %r = %r is not the '
                'parent of %s = %r' % (c, level,
                                       a[level].get('assignment'), finer,
                                       child))
    want = {k: v for k, v in a[finer].items()
            if not k.startswith('runner_up')}
    want['assignment'] = pm[finer][child]
    want['directly_assigned'] = False
    if a[level] != want:
        return ('inferred-payload', 'cell %r dropped level %r: %r, '
                'expected %r' % (c, level, a[level], want))
    return None


def flatten_fail(problem, ra, rb):
    tree = problem['tree']
    h = tree['hierarchy']
    f = ids_fail(problem, ra, rb)
    if f:
        return f
    leaf = h[-1]
    anc = dict(U.leaf_paths(tree))
    return worst(flatten_cell_fail(a, b, h, leaf, anc)
                 for a, b in zip(ra, rb))


def flatten_cell_fail(a, b, h, leaf, anc):
    c = a['cell_id']
    if [k for k in b if k != 'cell_id'] != [leaf]:
        return ('reduced-levels', 'cell %r of the run on the one-level '
                'taxonomy has levels %r' % (c, [k for k in b]))
    if sorted(k for k in a if k != 'cell_id') != sorted(h):
        return ('levels', 'cell %r of the flatten run has levels %r'
                % (c, [k for k in a]))
    if a[leaf] != b[leaf]:
        return (entry_class(a[leaf], b[leaf]),
                'cell %r leaf level %r:\n flatten  : %r\n one-level: %r'
                % (c, leaf, a[leaf], b[leaf]))
    path = anc.get(a[leaf].get('assignment'))
    if path is None:
        return ('assignment', 'cell %r: %r is not a leaf'
                % (c, a[leaf].get('assignment')))
    for l in h[:-1]:
        if a[l].get('assignment') != path[l]:
            return ('ancestor', 'cell %r: level %r = %r is not the '
                    'ancestor %r of leaf %r'
                    % (c, l, a[l].get('assignment'), path[l],
                       a[leaf]['assignment']))
        if a[l].get('directly_assigned') is not False:
            return ('flag', 'cell %r: flattened-away level %r has '
                    'directly_assigned=%r'
                    % (c, l, a[l].get('directly_assigned')))
    return None


def nodes_fail(na, nb):
    """the nodes of run A must vote on the gene lists of run B"""
    if na is None or nb is None:
        return None
    ga, gb = U.node_genes(na), U.node_genes(nb)
    if ga != gb:
        k = sorted(set(ga) | set(gb), key=lambda x: (ga.get(x) == gb.get(x), x))[0]
        return ('node-genes', 'parent %s votes on %r in run A, on %r in run B'
                % (k, ga.get(k), gb.get(k)))
    return None


def absent_fail(problem, ra, rb):
    if ra != rb:
        f = ids_fail(problem, ra, rb)
        if f:
            return f
        found = [(entry_class(a.get(l), b.get(l)),
                  'cell %r level %r:\n drop_level=%r: %r\n no drop_level: %r'
                  % (a['cell_id'], l, 'an absent level', a.get(l), b.get(l)))
                 for a, b in zip(ra, rb) for l in a if a.get(l) != b.get(l)]
        return worst(found) or ('payload', 'results differ')
    return None


def pair_setup(problem, cfg, kind, level):
    """(cfgA, cfgB, treeB, markersB) -- B's tree and marker table are built
    here, independently of TaxonomyTree.drop_level / flatten"""
    tree = problem['tree']
    if kind == 'drop':
        cfg_a = dict(cfg, flatten=False, drop_level=level)
        cfg_b = dict(cfg, flatten=False, drop_level=None)
        gone = {U.marker_key((level, n)) for n in tree[level]}
        markers_b = {k: list(v) for k, v in problem['markers'].items()
                     if k not in gone}
        return cfg_a, cfg_b, U.reduced_tree(tree, drop=level), markers_b
    if kind == 'flatten':
        cfg_a = dict(cfg, flatten=True, drop_level=None)
        cfg_b = dict(cfg, flatten=False, drop_level=None)
        union = sorted({g for v in problem['markers'].values() for g in v})
        return cfg_a, cfg_b, U.reduced_tree(tree, flatten=True), \
            {'None': union}
    if kind == 'absent':
        cfg_a = dict(cfg, drop_level=level)
        cfg_b = dict(cfg, drop_level=None)
        return cfg_a, cfg_b, None, None
    if kind == 'flatten_drop':
        # flatten together with drop_level (present or absent): still the
        # one-level taxonomy with the union of ALL lists of the table
        cfg_a = dict(cfg, flatten=True, drop_level=level)
        cfg_b = dict(cfg, flatten=False, drop_level=None)
        union = sorted({g for v in problem['markers'].values() for g in v})
        return cfg_a, cfg_b, U.reduced_tree(tree, flatten=True), \
            {'None': union}
    raise ValueError(kind)


def correspondence(ctx, sig_ok, problem, cfg, results, detail, which):
    if not ctx.driver_ok or results is None:
        return
    diff = U.model_pipeline(ctx, problem, cfg, results)
    ctx.traces += 1
    if diff is not None:
        ctx.disagreements_checked += 1
        if sig_ok:
            ctx.violation(
                'C17/correspondence/mapPipeline/%s' % diff['field'],
                'correspondence mapPipeline ~ _run_mapping no longer checks '
                '(%s, run %s of a %s pair)' % (diff['field'], which,
                                               detail['kind']),
                dict(detail, run=which, diff=diff,
                     broken='correspondence CTM.LevelLoop.mapPipeline ~ '
                            '_run_mapping data flow'),
                found_input=False)


def check_pair(ctx, problem, cfg, kind, level=None, label='random',
               share=None):
    tree = problem['tree']
    h = tree['hierarchy']
    if kind == 'absent' and level is None:
        level = ABSENT
    if (kind == 'drop' and (level not in h[:-1])) or \
            (kind == 'absent' and level in h) or \
            (kind == 'flatten_drop' and level == h[-1]):
        raise ValueError('bad %s level %r for hierarchy %r' % (kind, level, h))
    if share is None:
        # half of the pairs re-use ONE directory (same file paths, re-written
        # between the two runs, in this same process), half of those with
        # tmp_dir=None so that the files are read in place
        share = [ctx.rng.random() < 0.5, ctx.rng.random() < 0.5,
                 ctx.rng.randrange(1, 10 ** 6) if ctx.rng.random() < 0.5 else 0]
    detail = {'kind': kind, 'problem': problem, 'config': cfg, 'level': level,
              'share': share}
    cfg_a, cfg_b, tree_b, markers_b = pair_setup(problem, cfg, kind, level)
    if tree_b is not None and len(share) > 2 and share[2]:
        # "the taxonomy that never had that level" has no order of siblings:
        # the reference of run B lists nodes and children in an arbitrary one
        import random as _random
        tree_b = U.shuffle_tree(_random.Random(share[2]), tree_b)
        ctx.count('pair:reduced-tree-shuffled')
    run_tree = tree_b if tree_b is not None else U.reduced_tree(
        tree, flatten=cfg_a['flatten'])
    if kind == 'drop':
        sig = 'C17/drop/%s/' % level_class(tree, level)
    elif kind == 'flatten_drop':
        sig = 'C17/flatten+drop/%s/' % (
            'absent' if level not in h else level_class(tree, level))
    else:
        sig = 'C17/%s/' % kind
    ctx.case(json.dumps(detail, sort_keys=True)
             if U.has_choice(run_tree) else None,
             sample={'kind': kind, 'level': level, 'hierarchy': h,
                     'n_cells': len(problem['cell_ids']), 'config': cfg})
    ctx.count('pair:%s' % kind)
    ctx.count('%s:depth:%d' % (kind, len(h)))
    ctx.count('%s:factor:%s' % (kind, cfg['bootstrap_factor']))
    ctx.count('%s:iterations:%d' % (kind, cfg['bootstrap_iteration']))
    ctx.count('%s:workers:%d' % (kind, cfg['n_processors']))
    ctx.count('%s:min_markers:%d' % (kind, cfg.get('min_markers', 1)))
    if cfg.get('bootstrap_factor_lookup'):
        ctx.count('%s:bootstrap_factor_lookup' % kind)
    if kind == 'absent' and level != ABSENT:
        ctx.count('absent:prefix-like-string')
    if kind == 'drop' and any(x != level and (x.startswith(level) or
                                             level.startswith(x))
                              for x in h[:-1]):
        ctx.count('drop:level-name-prefix-of-another')
    ctx.count('%s:shape:%s' % (kind, c01.tree_shape_class(tree)))
    if kind == 'drop':
        for t in level_traits(tree, level):
            ctx.count('drop:%s' % t)
        if len(h) >= 3 and level != h[0]:
            ctx.count('drop:middle-of-depth>=3')
    if kind == 'absent':
        ctx.count('absent:%s' % ('flatten' if cfg['flatten'] else 'noflatten'))

    flat = kind in ('flatten', 'flatten_drop')
    if kind == 'flatten_drop':
        ctx.count('flatten_drop:%s' % ('absent' if level not in h
                                       else level_class(tree, level)))
        ctx.count('flatten_drop:runners:%d' % cfg['n_runners_up'])
    import contextlib
    from ctmverif import pipeline
    ctx.count('pair:paths:%s' % ('shared' + ('' if share[1] else '+tmp_dir=None')
                                 if share[0] else 'fresh'))
    with (pipeline.workdir('ctmverif_ll_pair_') if share[0]
          else contextlib.nullcontext(None)) as wd:
        tmp = (not share[0]) or share[1]
        ra = U.run_problem(problem, cfg_a, want_trace=True, workdir=wd,
                           tmp_dir=tmp)
        rb = U.run_problem(problem, cfg_b, tree=tree_b, markers=markers_b,
                           want_trace=not flat, workdir=wd, tmp_dir=tmp)
    U.mutation_violation(ctx, 'C17', ra, dict(detail, run='A'))
    U.mutation_violation(ctx, 'C17', rb, dict(detail, run='B'))
    if not ra['ok'] and not rb['ok']:
        # nothing to compare; that a valid problem is mapped at all is C01
        ctx.count('pair:both-fail:%s' % c01.error_class(ra['error']))
        return True
    fail = None
    if ra['ok'] != rb['ok']:
        fail = ('one-side-fails',
                'run A (%s) %s, run B (reduced taxonomy / no option) %s: %s'
                % (kind, 'succeeds' if ra['ok'] else 'fails',
                   'succeeds' if rb['ok'] else 'fails',
                   ra['error'] or rb['error']))
    elif kind == 'drop':
        fail = worst([drop_fail(problem, level, ra['results'], rb['results']),
                      nodes_fail(ra['nodes'], rb['nodes'])])
    elif flat:
        fail = flatten_fail(problem, ra['results'], rb['results'])
        if fail is None:
            msg = U.flatten_root_genes_fail(problem, None, ra['nodes'])
            if msg:
                fail = ('root-markers', msg)
    else:
        fail = worst([absent_fail(problem, ra['results'], rb['results']),
                      nodes_fail(ra['nodes'], rb['nodes'])])
    if fail is None and ra['ok']:
        f01 = U.c01_predicate(tree, cfg_a, problem['cell_ids'], ra['results'],
                              ra['out_tree'])
        if f01:
            fail = ('c01-' + f01[0][0], 'run A breaks C01: ' + f01[0][1])
    if fail:
        ctx.violation(sig + fail[0],
                      '%s%s: %s' % (kind, '' if level is None
                                    else ' level %r' % (level,), fail[1]),
                      dict(detail, error_a=ra['error'], error_b=rb['error']))
    if ra['ok']:
        correspondence(ctx, fail is None, problem, cfg_a, ra['results'],
                       detail, 'A')
        if flat and ctx.driver_ok:
            diff = U.model_flat_setup(ctx, problem, cfg_a, ra['nodes'])
            ctx.traces += 1
            if diff is not None:
                ctx.disagreements_checked += 1
                if fail is None:
                    ctx.violation(
                        'C17/correspondence/mapSetup/%s' % diff['field'],
                        'correspondence mapSetup / flatRootGenes ~ the '
                        'flatten block of _run_mapping no longer checks (%s)'
                        % diff['field'],
                        dict(detail, diff=diff,
                             broken='correspondence CTM.LevelLoop.mapSetup ~ '
                                    '_run_mapping flatten block'),
                        found_input=False)
    if rb['ok']:
        pb = problem if tree_b is None else dict(problem, tree=tree_b)
        correspondence(ctx, fail is None, pb, cfg_b, rb['results'], detail,
                       'B')
    return fail is None


def check_reuse(ctx, problem, cfg, level, order, flatten_toggle=False):
    """ONE config dict object handed to run_mapping several times (a script
    looping over references): `order` lists which reference each call maps
    against -- 'without' (the taxonomy that never had `level`) or 'with' (the
    stored taxonomy that has it) -- always with drop_level = level; optionally
    the caller toggles `flatten` in his dict between calls.  Every call must
    give exactly what a fresh dict with the same settings gives on freshly
    written files."""
    from ctmverif import pipeline
    tree = problem['tree']
    gone = {U.marker_key((level, n)) for n in tree[level]}
    p_without = dict(problem, tree=U.reduced_tree(tree, drop=level),
                     markers={k: list(v) for k, v in problem['markers'].items()
                              if k not in gone})
    detail = {'kind': 'reuse', 'problem': problem, 'config': cfg,
              'level': level, 'order': order, 'flatten_toggle': flatten_toggle}
    ctx.case(json.dumps(detail, sort_keys=True) if U.has_choice(tree) else None,
             sample={'kind': 'reuse', 'level': level, 'order': order,
                     'hierarchy': tree['hierarchy']})
    ctx.count('reuse:%s' % '>'.join(order))
    holder = {}
    ok = True
    with pipeline.workdir('ctmverif_ll_reuse_') as d:
        for i, which in enumerate(order):
            pr = problem if which == 'with' else p_without
            c = dict(cfg, drop_level=level)
            edits = {}
            if flatten_toggle:
                c['flatten'] = bool(i % 2)
                edits['flatten'] = c['flatten']
            got = U.run_problem(pr, c, want_trace=False, workdir=d,
                                reuse=holder, edits=edits)
            want = U.run_problem(pr, c, want_trace=False)
            U.mutation_violation(ctx, 'C17', got, dict(detail, call=i))
            if got['ok'] != want['ok'] or got['results'] != want['results']:
                if got['ok'] and want['ok']:
                    bad = [(a['cell_id'], l) for a, b in
                           zip(got['results'], want['results'])
                           for l in a if a.get(l) != b.get(l)]
                    flags = [a['cell_id'] for a in got['results']
                             if isinstance(a.get(level), dict) and
                             a[level].get('directly_assigned')]
                    msg = ('%d (cell, level) results differ, e.g. %r; level '
                           '%r directly assigned for %d cells'
                           % (len(bad), bad[:3], level, len(flags)))
                else:
                    msg = 'reused dict: %s / fresh dict: %s' % (
                        got['error'] or 'ok', want['error'] or 'ok')
                ctx.violation(
                    'C17/reuse/%s/differs-from-fresh-config' % which,
                    'call %d with the SAME config dict object (drop_level=%r, '
                    'reference %s the level): %s' % (i, level, which, msg),
                    dict(detail, call=i))
                ok = False
            if not ok:
                break
    return ok


def with_lookup(rng, problem, cfg, kind, level, prob=0.4):
    """the `bootstrap_factor_lookup` option for both runs of a pair: complete
    for the tree of the run only (no entry for the dropped level; only 'None'
    with flatten) or for the stored tree; one factor or one per level"""
    cfg = {k: v for k, v in cfg.items() if k != 'bootstrap_factor_lookup'}
    if rng.random() < prob:
        cfg_a = pair_setup(problem, cfg, kind, level)[0]
        cfg['bootstrap_factor_lookup'] = U.gen_factor_lookup(
            rng, problem['tree'], cfg_a)
    return cfg


def check_base(ctx, problem, cfg, mode='replay', all_levels=True):
    rng = ctx.rng
    h = problem['tree']['hierarchy']
    ctx.count('base:%s' % mode)
    ctx.count('base:depth:%d' % len(h))
    for level in h[:-1]:
        check_pair(ctx, problem,
                   with_lookup(rng, problem, cfg, 'drop', level), 'drop', level)
    # flatten alone, on a table with keys for parents outside the taxonomy
    pf = dict(problem, markers=privatize(rng, problem, None))
    check_pair(ctx, pf, with_lookup(rng, pf, cfg, 'flatten', None), 'flatten')
    cfg_abs = dict(cfg, flatten=rng.random() < 0.25)
    lv = absent_level(rng, h)
    check_pair(ctx, problem, with_lookup(rng, problem, cfg_abs, 'absent', lv),
               'absent', lv)
    # deficient parents: min_markers 2-5, parents at / below the dropped level
    # with fewer usable markers, a palette of genes per level -- the fallback
    # must come from the ancestors of the REDUCED tree (drop) / be untouched
    # (absent level, also strings that are prefixes of level names)
    if len(h) >= 2:
        levels = list(h[:-1])
        if not all_levels:
            # prefer a level with non-leaf levels below it
            levels = [rng.choice(h[:-2] if len(h) >= 3 else levels)]
        for level in levels:
            m = rng.randint(2, 5)
            pd = dict(problem, markers=deficient_table(rng, problem, level, m))
            check_pair(ctx, pd, with_lookup(rng, pd, dict(cfg, min_markers=m),
                                            'drop', level, prob=0.3),
                       'drop', level)
        m = rng.randint(2, 5)
        pd = dict(problem, markers=deficient_table(rng, problem,
                                                   rng.choice(h[:-1]), m))
        check_pair(ctx, pd, dict(cfg, min_markers=m), 'absent',
                   absent_level(rng, h))
    # the same config dict object re-used across calls
    if len(h) >= 2:
        lv = rng.choice(h[:-1])
        order = rng.choice([['without', 'with'], ['without', 'with', 'without'],
                            ['with', 'without', 'with']])
        check_reuse(ctx, problem, cfg, lv, order,
                    flatten_toggle=rng.random() < 0.25)
    # flatten TOGETHER with drop_level: the dropped level's parents own genes
    # nobody else lists; crossed with no runners-up / a single iteration
    levels = list(h[:-1])
    if not all_levels and len(levels) > 1:
        levels = [rng.choice(levels)]
    levels.append(ABSENT)
    for i, level in enumerate(levels):
        if level == ABSENT and not all_levels and rng.random() < 0.5:
            continue
        c = dict(cfg)
        r = rng.random()
        if r < 0.3:
            c['n_runners_up'] = 0
        if 0.2 < r < 0.5:
            c['bootstrap_iteration'] = 1
        c['encoding'] = rng.choice(['dense', 'csr', 'csc'])
        pp = dict(problem, markers=privatize(rng, problem, level))
        check_pair(ctx, pp, with_lookup(rng, pp, c, 'flatten_drop', level,
                                        prob=0.3), 'flatten_drop', level)


def gen_order_problem(rng, depth):
    """aimed at the ORDER in which parents are visited (and the RNG consumed):
    >= 4 levels; under every node the children carry names that sort BEFORE the
    names of the children of its earlier siblings, so that concatenating the
    grand-children of a parent is never in sorted order; cells resembling
    leaves spread over all the parents of the level above the leaves"""
    names = rng.choice([['class', 'subclass', 'supertype', 'cluster', 'leafy'],
                        ['L1', 'L2', 'L3', 'L4', 'L5']])[:depth]
    if depth == 4 and rng.random() < 0.5:
        names = ['class', 'subclass', 'supertype', 'cluster']
    tree = {'hierarchy': list(names)}
    for l in names:
        tree[l] = {}
    counter = [9000]

    def fresh(k, prefix):
        # k names, ascending among themselves, all smaller than earlier ones
        counter[0] -= k
        return ['%s%04d' % (prefix, counter[0] + i) for i in range(k)]

    current = fresh(rng.randint(1, 2), 'n0_')
    for n in current:
        tree[names[0]][n] = []
    for i in range(depth - 1):
        nxt = []
        for n in current:
            kids = fresh(2 if i < depth - 2 else rng.randint(2, 3),
                         'n%d_' % (i + 1))
            tree[names[i]][n] = kids
            nxt += kids
        for k in nxt:
            tree[names[i + 1]][k] = []
        current = nxt
    leaves = list(tree[names[-1]].keys())
    n_cells = rng.randint(10, 14)
    problem = U.make_problem(rng, tree=tree, n_genes=rng.randint(14, 18),
                             n_cells=n_cells)
    # every list long enough for bootstrap subsets to differ
    shared = [g for g in problem['ref_genes'] if g in problem['query_genes']]
    for k in problem['markers']:
        problem['markers'][k] = rng.sample(shared, min(len(shared),
                                                       rng.randint(7, 10)))
    col = {g: i for i, g in enumerate(problem['ref_genes'])}
    order = list(leaves)
    rng.shuffle(order)
    X = []
    for j in range(n_cells):
        leaf = order[j % len(order)]
        mean = [x / problem['leaf_n'][leaf] for x in problem['leaf_sum'][leaf]]
        scale = rng.uniform(5.0, 30.0)
        row = [float(max(0, int(round(((2.0 ** mean[col[g]] - 1.0) * scale
                                       if g in col else rng.randrange(40))
                                      + rng.uniform(-1.5, 1.5)))))
               for g in problem['query_genes']]
        if not any(row):
            row[0] = 1.0
        X.append(row)
    problem['X'] = X
    return problem


def run_order_family(ctx, n_bases):
    """always part of the quick tier: drop every middle level that has >= 2
    levels beneath it, bootstrap factor 0.3 / 0.5, several iterations, against
    the independently rebuilt AND sibling-shuffled reduced taxonomy"""
    rng = ctx.rng
    for i in range(n_bases):
        depth = 4 if i % 2 == 0 else 5
        problem = gen_order_problem(rng, depth)
        h = problem['tree']['hierarchy']
        cfg = U.gen_config(rng, problem, flatten=False)
        cfg.update(flatten=False, drop_level=None,
                   bootstrap_factor=rng.choice([0.3, 0.5]),
                   bootstrap_iteration=rng.randint(3, 8),
                   n_runners_up=rng.randint(1, 3))
        for level in h[1:-2]:
            ctx.count('order-family:depth-%d' % depth)
            check_pair(ctx, problem, cfg, 'drop', level,
                       share=[False, True, rng.randrange(1, 10 ** 6)])
        # the top level as well (parents below it: the same question)
        check_pair(ctx, problem, cfg, 'drop', h[0],
                   share=[False, True, rng.randrange(1, 10 ** 6)])


def run(ctx):
    quick = ctx.tier == 'quick'
    c01.run_corpus(ctx, 'C17', replay)
    run_order_family(ctx, 2 if quick else 12)
    for i in range(10 if quick else 90):
        problem, cfg, mode = gen_base(ctx.rng, i)
        check_base(ctx, problem, cfg, mode, all_levels=not quick)


def replay(ctx, data, from_corpus=False):
    d = data.get('detail', data)
    kind = d.get('kind')
    if kind in ('drop', 'flatten', 'absent', 'flatten_drop'):
        check_pair(ctx, d['problem'], d['config'], kind, d.get('level'),
                   label='replay', share=d.get('share'))
    elif kind == 'reuse':
        check_reuse(ctx, d['problem'], d['config'], d['level'], d['order'],
                    d.get('flatten_toggle', False))
    elif kind == 'base':
        check_base(ctx, d['problem'], d['config'])
    elif not from_corpus:
        print('nothing to replay for kind', kind)
