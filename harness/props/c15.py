"""
C15 — JSON, CSV and HDF5 outputs tell the same story and round-trip.

Tie: hand-written Lean model (CTM/Model/Output.lean) vs the real
blob_to_hdf5 / hdf5_to_blob / blob_to_csv / re_order_blob on generated blobs
(valid w.r.t. OutInv + one-edit malformed), and vs the three output files of
real run_mapping runs.  The files are read back without the code under test
(csv module, h5py) for the model comparison; the implementation-only
predicates (ctmverif/output_util.py: check_h5_roundtrip, check_csv) compare
the files with the JSON output field by field.
"""
import copy
import json
import os
import pathlib
import random
import warnings
from fractions import Fraction

from ctmverif import output_util as ou
from ctmverif import pipeline

RULE = ('(a) blobs generated to satisfy OutInv: trees of depth 1-5 with '
        'single-child chains, name_mapper / hierarchy_mapper present, partial '
        'or absent, node / level / cell names needing CSV quoting (comma, '
        'quote, new-line, CR, leading blank, "NA"), 0..5 runners-up with '
        'per-cell list lengths 0..k, inferred levels (flatten / drop_level / '
        'arbitrary), probabilities k/n for n in {1,2,3,7,10,32,..} incl. '
        'exact ties of %.4f (odd multiples of 1/32), negative correlations, '
        'bootstrap_iteration 1 or >1; (b) every one-edit malformed variant '
        '(missing level, unknown node, too many / short / missing runner-up '
        'lists, runner-ups on an inferred level, null numbers, no cells, '
        'non-uniform flag); (c) real run_mapping runs on generated mapping '
        'problems (depth 1-5, name tables, quoted names, 0..3 runners-up, '
        'flatten, drop_level, bootstrap_iteration 1, 12-23 cells in chunks of '
        '1-3); (d) floats through %.4f incl. exact ties; nested values with '
        'numpy scalars / tuples / integer sets / arrays through '
        'clean_for_json; id lists through re_order_blob. non-trivial = >=2 '
        'levels and (a runner-up list of length >=1 or an inferred level or '
        'a name table); distinct by canonical JSON of the case')
TRUSTED = ['Python csv module and h5py read back what pandas / h5py wrote',
           'decimal.Decimal(float).quantize(ROUND_HALF_EVEN) is round-half-'
           'even of the exact binary value',
           'json round trip of Python (json.dumps/json.loads)']
ASSUMPTIONS = ['readable level names are pairwise distinct (otherwise CSV '
               'columns collide)',
               'theorems about the CSV confidence column assume no readable '
               'level name contains "label", "name", "alias" or '
               '"assignment"; the implementation predicate does not',
               'theorem h5_roundtrip assumes OutInv (in particular no JSON '
               'null among the numbers); the implementation predicate does '
               'not']


# ---------------------------------------------------------------------------

def conf_of(iters):
    if iters == 1:
        return 'avg_correlation', 'correlation_coefficient'
    return 'bootstrapping_probability', 'bootstrapping_probability'


def nontrivial_blob(blob):
    tree = blob.get('taxonomy_tree', {})
    h = tree.get('hierarchy', [])
    if len(h) < 2 or not blob.get('results'):
        return False
    if 'name_mapper' in tree or 'hierarchy_mapper' in tree:
        return True
    for r in blob['results']:
        for lv in h:
            if lv in r and (not r[lv].get('directly_assigned', True) or
                            len(r[lv].get('runner_up_assignment', [])) > 0):
                return True
    return False


def only_modelled(fails):
    """the failure classes the model reproduces (it mirrors the code as it
    is): categorical confidence column, None stored as NaN.  For those the
    model comparison still runs."""
    return all(cls.endswith('level-name-contains-label-name-alias')
               or cls.endswith('null-becomes-nan') for cls, _ in fails)


def first_of_each_class(fails, limit=6):
    """[(class, message)] -> the first failure of every distinct class, so
    that a known failure class never hides a different one in the same case"""
    out, seen = [], set()
    for cls, msg in fails:
        if cls not in seen:
            seen.add(cls)
            out.append((cls, msg))
    return out[:limit]


def guarded(ctx, stream, fn, detail):
    """run one case; an unexpected exception inside the adapters / readers is
    reported as a violation carrying the input, never as exit 2"""
    from ctmverif import core
    try:
        fn(ctx, detail)
    except core.InfraError:
        raise
    except Exception as e:
        import traceback
        ctx.violation(
            'C15/%s/harness-exception/%s' % (stream, type(e).__name__),
            'unexpected %s while checking a %s case: %s'
            % (type(e).__name__, stream, str(e)[:300]),
            dict(detail, broken='harness adapters / readers for the %s '
                 'stream' % stream,
                 traceback=traceback.format_exc()[-1500:]),
            found_input=False)


def corr_violation(ctx, sig, what, detail, fn):
    ctx.disagreements_checked += 1
    d = dict(detail)
    d['broken'] = 'correspondence %s' % fn
    ctx.violation(sig, what, d, found_input=False)


def compare_h5_model(ctx, blob, h5_real, back_real, impl_err, detail, label,
                     pred_failed):
    """model toH5/ofH5 vs raw datasets / real read-back"""
    st = ou.StrTable()
    bj = ou.blob_json(blob, st)
    out = ctx.model('output.h5', {'blob': bj})
    mh, mb = out['h5'], out['back']
    ctx.count('outInv:%s:%s' % ('valid' if label in ('valid', 'pipeline')
                                else 'malformed', out['outInv']))
    if label == 'pipeline' and not out['outInv'] and not pred_failed:
        has_null = any(r[lv].get(f) is None
                       for r in blob['results']
                       for lv in blob['taxonomy_tree']['hierarchy']
                       for f in ou.NUM_FIELDS)
        if not has_null:
            corr_violation(
                ctx, 'C15/pipeline/outInv-not-established',
                'the JSON output of a real run does not satisfy OutInv (the '
                'hypothesis of theorem h5_roundtrip) although no number is '
                'null', detail, 'OutInv ~ output of run_mapping')
    if label == 'valid' and not out['outInv']:
        from ctmverif import core
        raise core.InfraError('generator produced a blob outside OutInv: %s'
                              % json.dumps(detail, default=repr)[:2000])
    if out['outInv'] and not pred_failed and (
            impl_err is not None or 'err' in mh or 'err' in mb
            or mb['ok'] != bj):
        # theorem h5_roundtrip says this cannot happen in the model; the
        # implementation disagreeing is reported below as a correspondence
        # failure, the model disagreeing would be a bug in this harness
        if 'err' in mh or 'err' in mb or mb['ok'] != bj:
            from ctmverif import core
            raise core.InfraError('model contradicts theorem h5_roundtrip')
    if pred_failed:
        return
    if impl_err is not None:
        merr = mh.get('err') or mb.get('err')
        if merr != impl_err:
            corr_violation(
                ctx, 'C15/correspondence/h5/error/%s/impl=%s/model=%s'
                % (label, impl_err, merr or 'ok'),
                'model and blob_to_hdf5/hdf5_to_blob disagree on the error '
                '(impl=%s model=%s)' % (impl_err, merr or 'ok'),
                detail, 'CTM.Output.toH5 ~ _blob_to_hdf5_results')
        return
    if 'err' in mh:
        corr_violation(
            ctx, 'C15/correspondence/h5/error/%s/impl=ok/model=%s'
            % (label, mh['err']),
            'model toH5 fails (%s) where blob_to_hdf5 succeeds' % mh['err'],
            detail, 'CTM.Output.toH5 ~ _blob_to_hdf5_results')
        return
    rawf = ou.read_h5_raw(h5_real, st)
    raw = rawf['h5']
    if rawf['problems'] or raw is None:
        name, what = (rawf['problems'] or [('assignment', 'missing')])[0]
        corr_violation(
            ctx, 'C15/correspondence/h5/dataset-layout/' + name,
            'HDF5 file written by blob_to_hdf5: dataset %r %s (all: %r)'
            % (name, what, rawf['problems']),
            dict(detail, problems=rawf['problems'], datasets=rawf['keys']),
            'CTM.Output.toH5 ~ _blob_to_hdf5_results (datasets of the file)')
        raw = None
    m = mh['ok']
    for k in ('directlyAssigned', 'intToNode', 'cellId', 'assignment',
              'prob', 'agg', 'corr', 'runners'):
        if raw is None:
            break
        if raw[k] != m[k]:
            corr_violation(
                ctx, 'C15/correspondence/h5/dataset/' + k,
                'dataset %s written by blob_to_hdf5 differs from the model'
                % k, dict(detail, field=k, impl=raw[k], model=m[k]),
                'CTM.Output.toH5 ~ _blob_to_hdf5_results')
            return
    if 'err' in mb:
        corr_violation(
            ctx, 'C15/correspondence/h5/read-error/model=%s' % mb['err'],
            'model ofH5 fails where hdf5_to_blob succeeds', detail,
            'CTM.Output.ofH5 ~ hdf5_to_blob')
        return
    real_back = [ou.record_json(r, list(blob['taxonomy_tree']['hierarchy']),
                                st) for r in back_real['results']]
    if real_back != mb['ok']['results']:
        bad = [i for i, (a, b) in enumerate(zip(real_back,
                                                mb['ok']['results']))
               if a != b][:1]
        corr_violation(
            ctx, 'C15/correspondence/h5/read-back',
            'hdf5_to_blob(blob_to_hdf5(b)) differs from the model '
            '(first differing cell %s)' % bad, detail,
            'CTM.Output.ofH5 ~ hdf5_to_blob')
    ctx.traces += 1


def compare_csv_model(ctx, tree, results, iters, comments, header, rows,
                      json_name, flatten, detail, impl_err, pred_failed):
    st = ou.StrTable()
    h = list(tree['hierarchy'])
    taint = [lv for lv in h if ou.is_tainted(ou.readable_level(tree, lv))]
    inp = {'tree': ou.tree_json(tree, st),
           'readableText': [[st.id(lv), ou.readable_level(tree, lv)]
                            for lv in h],
           'bootstrapIteration': iters,
           'results': [ou.record_json(r, h, st) for r in results],
           'metadataName': None if json_name is None else st.id(json_name),
           'flatten': flatten}
    out = ctx.model('output.csv', inp)
    if pred_failed:
        return
    fn = 'CTM.Output.csvRows ~ blob_to_csv'
    if impl_err is not None:
        merr = out['rows'].get('err')
        if merr != impl_err:
            corr_violation(
                ctx, 'C15/correspondence/csv/error/impl=%s/model=%s'
                % (impl_err, merr or 'ok'),
                'model and blob_to_csv disagree on the error', detail, fn)
        return
    if 'err' in out['rows']:
        corr_violation(
            ctx, 'C15/correspondence/csv/error/impl=ok/model=%s'
            % out['rows']['err'], 'model csvRows fails where blob_to_csv '
            'succeeds', detail, fn)
        return
    conf_key, conf_label = conf_of(iters)
    # the model's own substring test (taintOf) vs the harness' and the real
    # column names
    if [st.str(i) for i in out['taint']] != taint or any(
            cc[1] != '%s_%s' % (ou.readable_level(tree, st.str(cc[0])),
                                conf_key)
            or cc[2] != '%s_%s' % (ou.readable_level(tree, st.str(cc[0])),
                                   conf_label)
            for cc in out['confColumns']):
        corr_violation(ctx, 'C15/correspondence/csv/column-typing',
                       'model taintOf / column names differ from the '
                       'harness: %r vs %r' % (out['taint'], taint), detail,
                       'CTM.Output.taintOf ~ blob_to_df column typing')
        return
    if out['confIsCorrelation'] != (conf_key == 'avg_correlation'):
        corr_violation(ctx, 'C15/correspondence/csv/confidence-key',
                       'confidenceKey differs', detail,
                       'CTM.Output.confidenceKey ~ _run_mapping')
        return
    # comment lines
    c = ou.parse_comments(comments)
    mc = out['comments']
    want_c = {
        'metadata': None if mc['metadata'] is None
        else st.str(mc['metadata']),
        'hierarchy': [st.str(i) for i in mc['hierarchy']],
        'readable': None if mc['readable'] is None
        else [st.str(i) for i in mc['readable']],
        'algorithm': None if mc['algorithmIsCorrelation'] is None
        else ('correlation' if mc['algorithmIsCorrelation']
              else 'hierarchical')}
    got_c = {k: c[k] for k in want_c}
    order_ok = c['order'] == [k for k in ('metadata', 'hierarchy', 'readable')
                              if want_c[k] is not None] + ['version']
    if got_c != want_c or c['unparsed'] or not order_ok:
        corr_violation(ctx, 'C15/correspondence/csv/comments',
                       'comment lines differ from the model: %r vs %r'
                       % (got_c, want_c), detail,
                       'CTM.Output.csvComments ~ blob_to_csv')
        return
    # columns
    kind_name = {'label': 'label', 'name': 'name', 'alias': 'alias',
                 'conf': conf_label}
    mcols = ['cell_id' if x is None else '%s_%s' % (st.str(x[0]),
                                                    kind_name[x[1]])
             for x in out['columns']]
    if taint:
        it = iter(header)
        cols_ok = all(any(x == y for y in it) for x in mcols)
    else:
        cols_ok = header == mcols
    if not cols_ok:
        corr_violation(ctx, 'C15/correspondence/csv/columns',
                       'CSV header %r differs from the model %r'
                       % (header, mcols), detail,
                       'CTM.Output.csvColumns ~ blob_to_csv')
        return
    col = {}
    for i, name in enumerate(header):
        col.setdefault(name, i)
    mrows = out['rows']['ok']
    if len(mrows) != len(rows):
        corr_violation(ctx, 'C15/correspondence/csv/n-rows',
                       'row count differs', detail, fn)
        return
    f4_vals, f4_strs = [], []
    for i, (mrow, row) in enumerate(zip(mrows, rows)):
        for cn, cell in zip(mcols, mrow):
            got = row[col[cn]]
            if cell is None:
                ok = got == ''
            elif 's' in cell:
                ok = got == st.str(cell['s'])
            elif 'raw' in cell:
                try:
                    ok = Fraction(float(got)) == Fraction(*cell['raw']) \
                        and got == repr(float(got))
                except ValueError:
                    ok = False
            else:
                try:
                    ok = Fraction(got) == Fraction(*cell['f4'])
                except ValueError:
                    ok = False
            if not ok:
                corr_violation(
                    ctx, 'C15/correspondence/csv/cell',
                    'row %d column %r: file has %r, model %r'
                    % (i, cn, got, cell), detail, fn)
                return
    # the printed text of the confidence column
    for i, rec in enumerate(results):
        for lv in h:
            if lv in taint:
                continue
            v = rec[lv].get(conf_key)
            if v is None or ou.is_nan(v) or (v == 0 and
                                             str(float(v)) == '-0.0'):
                continue
            cn = '%s_%s' % (ou.readable_level(tree, lv), conf_label)
            f4_vals.append(ou.num_json(v))
            f4_strs.append(rows[i][col[cn]])
    if f4_vals:
        ms = ctx.model('output.fmt4', {'xs': f4_vals})
        for v, s, m in zip(f4_vals, f4_strs, ms):
            if m['s'] != s:
                corr_violation(
                    ctx, 'C15/correspondence/csv/fmt4-text',
                    'confidence %r printed as %r, model %r'
                    % (v, s, m['s']), detail,
                    'CTM.Output.fmt4Str ~ float_format=%.4f')
                return
    ctx.traces += 1


# ---------------------------------------------------------------------------
# (ii) direct blob_to_hdf5 -> hdf5_to_blob, blob_to_csv
# ---------------------------------------------------------------------------

def _check_direct(ctx, detail):
    from cell_type_mapper.utils.output_utils import (
        blob_to_hdf5, hdf5_to_blob, blob_to_csv)
    from cell_type_mapper.taxonomy.taxonomy_tree import TaxonomyTree
    blob = detail['blob']
    label = detail.get('label', 'valid')
    iters = detail.get('iters', 10)
    flatten = detail.get('flatten')
    valid = label == 'valid'
    tree = blob['taxonomy_tree']
    ctx.count('direct:' + label)
    ctx.count('depth:%d' % len(tree['hierarchy']))
    ctx.count('n_runners:%d'
              % blob['config']['type_assignment']['n_runners_up'])
    ctx.case(json.dumps(detail, sort_keys=True, default=repr)
             if nontrivial_blob(blob) else None,
             sample=detail if valid and len(json.dumps(
                 detail, default=repr)) < 3000 else None)
    with pipeline.workdir(prefix='ctmverif_c15_') as d:
        # ---- HDF5
        h5 = d / 'out.h5'
        impl_err = None
        back = None
        with warnings.catch_warnings():
            warnings.simplefilter('ignore')
            try:
                blob_to_hdf5(copy.deepcopy(blob), h5)
                back = hdf5_to_blob(h5)
            except Exception as e:
                impl_err = ou.classify_error(e)
        pred_failed = False
        if valid:
            if impl_err is not None:
                pred_failed = True
                ctx.violation(
                    'C15/h5/error/' + impl_err,
                    'blob_to_hdf5/hdf5_to_blob raise %s on a well-formed '
                    'output' % impl_err, detail)
            else:
                fails = ou.check_h5_roundtrip(blob, back)
                if fails:
                    pred_failed = not only_modelled(fails)
                    for cls, msg in first_of_each_class(fails):
                        ctx.violation(
                            'C15/h5/' + cls,
                            'HDF5 round trip does not reproduce the JSON '
                            'output: %s' % msg, dict(detail, fails=fails[:5]))
        if ctx.driver_ok:
            compare_h5_model(ctx, blob, h5, back, impl_err, detail, label,
                             pred_failed)
        # ---- CSV
        if not blob['results']:
            return
        conf_key, conf_label = conf_of(iters)
        csv_path = d / 'out.csv'
        json_name = 'some dir/the output.json'
        impl_err = None
        comments = header = rows = None
        with warnings.catch_warnings():
            warnings.simplefilter('ignore')
            try:
                tt = TaxonomyTree(data=copy.deepcopy(tree))
                blob_to_csv(
                    results_blob=copy.deepcopy(blob['results']),
                    taxonomy_tree=tt, output_path=csv_path,
                    confidence_key=conf_key, confidence_label=conf_label,
                    metadata_path=d / json_name,
                    config=None if flatten is None else {'flatten': flatten})
                comments, header, rows = ou.read_csv_raw(csv_path)
            except Exception as e:
                impl_err = ou.classify_error(e)
        pred_failed = False
        if valid:
            if impl_err is not None:
                pred_failed = True
                ctx.violation('C15/csv/error/' + impl_err,
                              'blob_to_csv raises %s on a well-formed output'
                              % impl_err, detail)
            else:
                fails = ou.check_csv(tree, blob['results'], comments, header,
                                     rows, conf_key, conf_label,
                                     json_name='the output.json',
                                     flatten=flatten)
                if fails:
                    pred_failed = not only_modelled(fails)
                    for cls, msg in first_of_each_class(fails):
                        if cls.startswith('tie/'):
                            corr_violation(
                                ctx, 'C15/csv/' + cls, msg, detail,
                                'CTM.Output.taintOf ~ blob_to_df column '
                                'typing (csv_confidence_formatted_iff)')
                            continue
                        ctx.violation(
                            'C15/csv/' + cls,
                            'CSV output disagrees with the JSON output: %s'
                            % msg, dict(detail, fails=fails[:5]))
        if ctx.driver_ok:
            compare_csv_model(ctx, tree, blob['results'], iters, comments,
                              header, rows, 'the output.json', flatten,
                              detail, impl_err, pred_failed)


def _check_metadata_only(ctx, detail):
    """a failed run: blob_to_hdf5 writes the metadata only and hdf5_to_blob
    returns it (not modelled; implementation predicate only)"""
    from cell_type_mapper.utils.output_utils import blob_to_hdf5, hdf5_to_blob
    blob = detail['blob']
    ctx.count('metadata_only')
    ctx.case(None)
    with pipeline.workdir(prefix='ctmverif_c15_') as d:
        try:
            blob_to_hdf5(copy.deepcopy(blob), d / 'out.h5')
            back = hdf5_to_blob(d / 'out.h5')
            raw = ou.read_h5_raw(d / 'out.h5', ou.StrTable())
        except Exception as e:
            ctx.violation('C15/h5/metadata-only/error/' + ou.classify_error(e),
                          'blob without results cannot be written / read: %r'
                          % e, detail)
            return
    # without a taxonomy the results are not written at all
    want = {k: v for k, v in blob.items() if k != 'results'}
    if json.dumps(back, sort_keys=True) != json.dumps(want, sort_keys=True) \
            or raw['keys'] != ['metadata']:
        ctx.violation('C15/h5/metadata-only/differs',
                      'a blob without results is not reproduced', detail)


# ---------------------------------------------------------------------------
# fmt4
# ---------------------------------------------------------------------------

def _check_fmt4(ctx, xs, detail_kind='fmt4'):
    """'%.4f' (what pandas applies) vs exact round-half-even vs the model"""
    import pandas as pd
    import io
    df = pd.DataFrame({'x': [float(x) for x in xs]})
    buf = io.StringIO()
    df.to_csv(buf, index=False, float_format='%.4f')
    printed = buf.getvalue().split('\n')[1:1 + len(xs)]
    ms = ctx.model('output.fmt4', {'xs': [ou.num_json(x) for x in xs]}) \
        if ctx.driver_ok else [None] * len(xs)
    for x, s, m in zip(xs, printed, ms):
        ctx.case(('fmt4', repr(x)), sample=None)
        ctx.count('fmt4')
        want = ou.four_decimals(x)
        import decimal
        if decimal.Decimal(s) != want:
            ctx.violation('C15/fmt4/not-half-even',
                          'float_format %%.4f prints %r for %r, exact '
                          'round-half-even is %s' % (s, x, want),
                          {'kind': 'fmt4', 'xs': [x]})
            continue
        if m is not None and (m['s'] != s or
                              Fraction(*m['v']) != Fraction(want)):
            corr_violation(ctx, 'C15/correspondence/fmt4',
                           'model fmt4 %r vs printed %r for %r' % (m, s, x),
                           {'kind': 'fmt4', 'xs': [x]},
                           'CTM.Output.fmt4 ~ %.4f')


def gen_fmt4_inputs(rng, n):
    xs = []
    for _ in range(n):
        r = rng.random()
        if r < 0.3:
            xs.append(rng.randrange(1, 2000, 2) / 32.0 *
                      rng.choice([1, -1]) / rng.choice([1, 2, 4, 1, 1]))
        elif r < 0.5:
            k = rng.randrange(0, 20000)
            xs.append((k + 0.5) / 10000.0 * rng.choice([1, -1]))
        elif r < 0.7:
            it = rng.choice(ou.PROB_ITERS + [6, 12, 13, 1000])
            xs.append(rng.randint(0, it) / it)
        elif r < 0.8:
            xs.append(rng.choice([1e-5, -1e-5, 4.9999999e-5, 5.0000001e-5,
                                  0.99995, 123456.78905, -2.5e-5, 1e-320,
                                  1e15 + 0.5]))
        else:
            xs.append(rng.uniform(-2, 2))
    return xs


# ---------------------------------------------------------------------------
# clean_for_json
# ---------------------------------------------------------------------------

def _check_clean(ctx, value, detail=None):
    from cell_type_mapper.utils.utils import clean_for_json
    ctx.count('clean_for_json')
    st = ou.StrTable()
    vj = ou.pyval_json(value, st)
    detail = detail or {'kind': 'clean', 'value_repr': repr(value),
                        'value_tagged': vj, 'strings': st.strs}
    ctx.case(('clean', json.dumps(vj, sort_keys=True))
             if isinstance(value, (dict, list, tuple)) and len(value) > 0
             else None)
    try:
        got = clean_for_json(copy.deepcopy(value))
        err = None
    except Exception as e:
        got, err = None, ou.classify_error(e)
    # predicate: json.dumps accepts the result and it denotes the same data
    if err is None:
        try:
            text = json.dumps(got)
            back = json.loads(text)
            want = json.loads(json.dumps(ou.plainify(value)))
            ok = ou.plainify(back) == want
        except Exception as e:
            ok = False
            err = 'json:' + ou.classify_error(e)
    else:
        ok = False
    if not ok:
        ctx.violation('C15/clean_for_json/' + (err or 'value-changed'),
                      'clean_for_json does not yield JSON-encodable data '
                      'denoting the same values (%s)' % (err or 'differs'),
                      detail)
        return
    if ctx.driver_ok:
        out = ctx.model('output.cleanForJson', {'value': vj})
        gj = ou.pyval_json(got, st)
        if out['clean'] != gj or not out['plain'] or not out['noOther']:
            corr_violation(ctx, 'C15/correspondence/clean_for_json',
                           'clean_for_json differs from the model', detail,
                           'CTM.Output.clean ~ clean_for_json')
        else:
            ctx.traces += 1


# ---------------------------------------------------------------------------
# re_order_blob
# ---------------------------------------------------------------------------

def _check_reorder(ctx, detail):
    from cell_type_mapper.utils.output_utils import re_order_blob
    ids = detail['ids']          # cell ids of the records, in result order
    order = detail['order']      # obs index of the query file
    ctx.count('reorder')
    ctx.case(('reorder', tuple(ids), tuple(order))
             if len(ids) > 1 and ids != order else None)
    results = [{'cell_id': c, 'L': {'assignment': 'n%d' % i,
                                    'directly_assigned': True}}
               for i, c in enumerate(ids)]
    with pipeline.workdir(prefix='ctmverif_c15_') as d:
        import numpy as np
        q = pipeline.write_h5ad(d / 'q.h5ad', np.zeros((len(order), 1)),
                                order, ['g0'])
        try:
            with warnings.catch_warnings():
                warnings.simplefilter('ignore')
                got = re_order_blob(copy.deepcopy(results), q)
            impl = [r['L']['assignment'] for r in got]
            got_ids = [r['cell_id'] for r in got]
            err = None
        except Exception as e:
            impl, got_ids, err = None, None, ou.classify_error(e)
    # predicate: if the ids are distinct and order is a permutation of them,
    # the output is the records in query order
    if len(set(ids)) == len(ids) and sorted(ids) == sorted(order):
        want = [results[ids.index(c)]['L']['assignment'] for c in order]
        if err is not None or got_ids != order or impl != want:
            ctx.violation('C15/reorder/not-query-order',
                          're_order_blob does not return the records in '
                          'query order', detail)
            return
    if ctx.driver_ok:
        st = ou.StrTable()
        out = ctx.model('output.reorder', {
            'results': [ou.record_json(r, ['L'], st) for r in results],
            'order': [st.id(c) for c in order]})
        if 'err' in out:
            same = out['err'] == err
        else:
            same = err is None and [
                st.str(r['levels'][0][1]['a']) for r in out['ok']] == impl
        if not same:
            corr_violation(ctx, 'C15/correspondence/reorder',
                           're_order_blob differs from the model', detail,
                           'CTM.Output.reorder ~ re_order_blob')
        else:
            ctx.traces += 1


# ---------------------------------------------------------------------------
# (i) real run_mapping runs
# ---------------------------------------------------------------------------

def gen_pipeline_spec(rng, tainted=False, single_leaf=False, quick=True,
                      many_chunks=False):
    if single_leaf:
        tree = ou.gen_tree(rng, depth=rng.randint(1, 3), max_top=1,
                           max_children=1, nasty=False)
        # force a single chain
        h = tree['hierarchy']
        node = list(tree[h[0]].keys())[0]
        for i, lv in enumerate(h):
            kids = tree[lv][node]
            tree[lv] = {node: kids[:1] if i < len(h) - 1 else []}
            if i < len(h) - 1:
                node = kids[0]
        for k in ('name_mapper',):
            tree.pop(k, None)
    else:
        tree = ou.gen_tree(rng, max_depth=5, max_top=3,
                           max_children=3 if quick else 3, min_leaves=2,
                           tainted=tainted)
    h = tree['hierarchy']
    leaf = h[-1]
    # give the input taxonomy cell lists (they must not reach the output)
    rows = list(range(2 * len(tree[leaf]) + 2))
    rng.shuffle(rows)
    for k in tree[leaf]:
        tree[leaf][k] = [rows.pop() for _ in range(rng.randint(0, 2))]
    r = rng.random()
    flatten = False
    drop_level = None
    if r < 0.2:
        flatten = True
    elif r < 0.45 and len(h) > 1:
        drop_level = rng.choice(h[:-1])
    elif r < 0.5:
        drop_level = 'not_a_level'
    n_cells = rng.choice([1, 2, 4, 7, 11])
    chunk_size = rng.choice([1, 3, 10])
    if many_chunks:
        # chunk result files are gathered in lexicographic order of
        # "<r0>_<r1>": with a two-digit r0 that is not query order, so the
        # output order really depends on re_order_blob
        n_cells = rng.choice([12, 13, 23])
        chunk_size = rng.choice([1, 3])
    spec = {
        'kind': 'pipeline', 'tree': tree, 'seed': rng.randrange(2 ** 30),
        'n_cells': n_cells,
        'cell_ids': ou.distinct(rng, ou.CELL_POOL, n_cells),
        'iters': rng.choice([1, 1, 2, 7, 10, 32, 96]),
        'n_runners': rng.choice([0, 1, 2, 3]),
        'flatten': flatten, 'drop_level': drop_level,
        'n_processors': rng.choice([1, 2]),
        'chunk_size': chunk_size,
        'bootstrap_factor': rng.choice([0.5, 0.9, 1.0]),
        'encoding': rng.choice(['dense', 'csr', 'csc']),
    }
    return spec


def _check_pipeline(ctx, spec):
    from cell_type_mapper.utils.output_utils import hdf5_to_blob
    tree = spec['tree']
    h = tree['hierarchy']
    ctx.count('pipeline')
    ctx.count('pipeline:depth:%d' % len(h))
    ctx.count('pipeline:iters:%d' % spec['iters'])
    ctx.count('pipeline:n_runners:%d' % spec['n_runners'])
    if spec['flatten']:
        ctx.count('pipeline:flatten')
    if spec['drop_level'] in h:
        ctx.count('pipeline:drop_level')
    if 'name_mapper' in tree:
        ctx.count('pipeline:name_mapper')
    if 'hierarchy_mapper' in tree:
        ctx.count('pipeline:hierarchy_mapper')
    rng = random.Random(spec['seed'])
    with pipeline.workdir(prefix='ctmverif_c15_') as d:
        mp = pipeline.MappingProblem(rng, tree=copy.deepcopy(tree),
                                     n_cells=spec['n_cells'])
        mp.tree = copy.deepcopy(tree)     # keep cell lists and metadata
        mp.cell_ids = list(spec['cell_ids'])
        stats, q, m = mp.write(d, encoding=spec['encoding'])
        (d / 'out').mkdir()
        cfg = pipeline.mapping_config(
            q, stats, m, d / 'out', d, n_processors=spec['n_processors'],
            chunk_size=spec['chunk_size'],
            bootstrap_factor=spec['bootstrap_factor'],
            bootstrap_iteration=spec['iters'], rng_seed=spec['seed'] % 1000,
            n_runners_up=spec['n_runners'], flatten=spec['flatten'],
            drop_level=spec['drop_level'])
        old = os.environ.get('CELL_TYPE_MAPPER_VERIF_TRACE')
        os.environ['CELL_TYPE_MAPPER_VERIF_TRACE'] = str(d / 'trace')
        try:
            res = pipeline.run_mapping(cfg)
        finally:
            if old is None:
                os.environ.pop('CELL_TYPE_MAPPER_VERIF_TRACE', None)
            else:
                os.environ['CELL_TYPE_MAPPER_VERIF_TRACE'] = old
        if not res['ok'] or res['json'] is None:
            # a crash is not a C15 violation (C01/C14), but the property is
            # then not shown to hold on this output: report without input
            ecls = ou.classify_error(res['error'])
            ctx.count('pipeline:run-failed:' + ecls)
            ctx.case(None)
            ctx.violation(
                'C15/pipeline/run-failed/' + ecls,
                'run_mapping failed on a generated valid mapping problem '
                '(%r): no output files to compare' % (res['error'],),
                dict(spec, broken='pipeline fixture: run_mapping must '
                     'succeed on the generated problems'),
                found_input=False)
            return
        out = res['json']
        results = out['results']
        nontriv = len(h) >= 2 and len(results) >= 1
        ctx.case(json.dumps(spec, sort_keys=True, default=repr)
                 if nontriv else None,
                 sample={k: v for k, v in spec.items() if k != 'tree'})
        for r in results:
            for lv in h:
                if 'runner_up_assignment' in r[lv]:
                    ctx.count('pipeline:runner_len:%d'
                              % len(r[lv]['runner_up_assignment']))
                else:
                    ctx.count('pipeline:inferred_level_records')
                if spec['iters'] == 1 and (r[lv]['avg_correlation'] or 0) < 0:
                    ctx.count('pipeline:negative_confidence')
        events = []
        for f in sorted(d.glob('trace.*')):
            for line in f.read_text().splitlines():
                if line.strip():
                    events.append(json.loads(line))
        fails = []
        # --- one record per cell, in query order
        if [r['cell_id'] for r in results] != list(spec['cell_ids']):
            fails.append(('json/cell-order', 'JSON records are not the query '
                          'cells in order'))
        # --- embedded taxonomy = input taxonomy without its cell lists
        if out.get('taxonomy_tree') != ou.drop_cells(tree):
            fails.append(('tree-embedded', 'embedded taxonomy_tree is not '
                          'the input taxonomy without cell lists'))
        # --- embedded marker table lists what was used
        # (theorem embedded_markers_are_used; the model side of this table is
        # compared by C08's suite, `markers.stage`, on its own runs)
        mg = out.get('marker_genes', {})
        parents = ou.run_tree_parents(tree, spec['flatten'],
                                      spec['drop_level'])
        if sorted(mg.keys()) != sorted(parents.keys()):
            fails.append(('markers-embedded/keys', 'marker_genes has keys %r,'
                          ' the run tree has parents %r'
                          % (sorted(mg.keys()), sorted(parents.keys()))))
        for key, n_kids in parents.items():
            if n_kids < 2 and mg.get(key) != []:
                fails.append(('markers-embedded/single-child', 'marker_genes'
                              '[%r] = %r for a parent with %d children'
                              % (key, mg.get(key), n_kids)))
                break
        traced = set()
        for ev in events:
            if ev.get('kind') != 'node':
                continue
            key = 'None' if ev['parent'] is None else '%s/%s' % (
                ev['parent'][0], ev['parent'][1])
            traced.add(key)
            if mg.get(key) != ev['reference_genes'] or \
                    mg.get(key) != ev['query_genes'] or \
                    parents.get(key, 0) < 2:
                fails.append(('markers-embedded', 'marker_genes[%r] = %r is '
                              'not the gene list used at that node (%r)'
                              % (key, mg.get(key), ev['reference_genes'])))
                break
        ctx.count('pipeline:marker_nodes_traced', len(traced))
        # --- HDF5
        h5 = d / 'out' / 'out.h5'
        back = None
        try:
            with warnings.catch_warnings():
                warnings.simplefilter('ignore')
                back = hdf5_to_blob(h5)
        except Exception as e:
            fails.append(('h5/error/' + ou.classify_error(e),
                          'hdf5_to_blob raises %r' % e))
        h5_failed = False
        if back is not None:
            f2 = ou.check_h5_roundtrip(out, back)
            if f2:
                h5_failed = not only_modelled(f2)
                for cls, msg in first_of_each_class(f2):
                    if cls.endswith('null-becomes-nan') and \
                            len(tree[h[-1]]) == 1:
                        cls += '/single-leaf-taxonomy'
                    fails.append(('h5/' + cls, 'HDF5 round trip does not '
                                  'reproduce the JSON output: ' + msg))
        # --- CSV
        conf_key, conf_label = conf_of(spec['iters'])
        comments, header, rows = ou.read_csv_raw(d / 'out' / 'out.csv')
        etree = out.get('taxonomy_tree', tree)
        f3 = ou.check_csv(etree, results, comments, header, rows, conf_key,
                          conf_label, json_name='out.json',
                          flatten=spec['flatten'])
        csv_failed = bool(f3) and not only_modelled(f3)
        for cls, msg in first_of_each_class(f3):
            fails.append(('csv/' + cls, 'CSV output disagrees with the '
                          'JSON output: ' + msg))
        if rows is not None and [r[0] for r in rows] != list(
                spec['cell_ids']) and not f3:
            fails.append(('csv/cell-order', 'CSV rows are not the query '
                          'cells in order'))
        # inferred levels as documented
        expect_inferred = set()
        if spec['flatten']:
            expect_inferred = set(h[:-1])
        elif spec['drop_level'] in h:
            expect_inferred = {spec['drop_level']}
        for r in results:
            for lv in h:
                if bool(r[lv]['directly_assigned']) != (
                        lv not in expect_inferred):
                    fails.append(('json/directly_assigned',
                                  'level %r flag' % lv))
                    break
        seen = set()
        for cls, msg in fails:
            if cls in seen:
                continue
            seen.add(cls)
            if '/tie/' in cls:
                corr_violation(
                    ctx, 'C15/pipeline/' + cls, msg, spec,
                    'CTM.Output.taintOf ~ blob_to_df column typing '
                    '(csv_confidence_formatted_iff)')
                continue
            ctx.violation('C15/pipeline/' + cls, msg, dict(spec, fails=[
                list(x) for x in fails[:5]]))
        # --- model
        if ctx.driver_ok:
            blob = dict(out)
            compare_h5_model(ctx, blob, h5, back, None, spec, 'pipeline',
                             h5_failed or back is None)
            compare_csv_model(ctx, etree, results, spec['iters'], comments,
                              header, rows, 'out.json', spec['flatten'],
                              spec, None, csv_failed)
            st = ou.StrTable()
            mt = ctx.model('output.dropCells', {
                'tree': ou.tree_json(tree, st),
                'dropLevel': None if spec['drop_level'] is None
                else st.id(spec['drop_level']),
                'flatten': spec['flatten']})
            if ou.tree_from_json(mt, st, tree) != out.get('taxonomy_tree') \
                    and not any(c == 'tree-embedded' for c, _ in fails):
                corr_violation(ctx, 'C15/correspondence/dropCells',
                               'embedded tree differs from the model', spec,
                               'CTM.Output.embeddedTree ~ _run_mapping')


# ---------------------------------------------------------------------------

# every case goes through `guarded`: an exception in an adapter or reader is a
# reported violation with the input, never an infrastructure failure

def check_direct(ctx, detail):
    guarded(ctx, 'direct', _check_direct, detail)


def check_metadata_only(ctx, detail):
    guarded(ctx, 'metadata-only', _check_metadata_only, detail)


def check_reorder(ctx, detail):
    guarded(ctx, 'reorder', _check_reorder, detail)


def check_pipeline(ctx, spec):
    guarded(ctx, 'pipeline', _check_pipeline, spec)


def check_fmt4(ctx, xs):
    guarded(ctx, 'fmt4', lambda c, d: _check_fmt4(c, d['xs']),
            {'kind': 'fmt4', 'xs': list(xs)})


def check_clean(ctx, value):
    st = ou.StrTable()
    try:
        tagged = ou.pyval_json(value, st)
    except Exception:
        tagged = None
    guarded(ctx, 'clean_for_json', lambda c, d: _check_clean(c, value),
            {'kind': 'clean', 'value_repr': repr(value)[:2000],
             'value_tagged': tagged, 'strings': st.strs})


def ctx_corpus(prop):
    from ctmverif import core
    return core.VERIF / 'corpus' / prop


def run(ctx):
    rng = ctx.rng
    quick = ctx.tier == 'quick'
    cdir = ctx_corpus('C15')
    for f in sorted(cdir.glob('*.json')) if cdir.is_dir() else []:
        replay(ctx, json.loads(f.read_text()), from_corpus=True)
    # fmt4
    check_fmt4(ctx, gen_fmt4_inputs(rng, 300 if quick else 3000))
    # direct blobs
    n_direct = 150 if quick else 1500
    for i in range(n_direct):
        tree = ou.gen_tree(rng, nasty=(i % 5 != 0),
                           tainted=(rng.random() < 0.03))
        blob = ou.gen_blob(rng, tree=tree, nasty=(i % 5 != 0))
        iters = rng.choice([1, 1, 2, 10, 32, 100])
        flatten = rng.choice([None, False, True])
        check_direct(ctx, {'kind': 'direct', 'label': 'valid', 'blob': blob,
                           'iters': iters, 'flatten': flatten})
        if i % 25 == 0:
            gone = rng.choice(['results', 'taxonomy_tree'])
            part = {k: v for k, v in blob.items() if k != gone}
            check_metadata_only(ctx, {'kind': 'metadata_only', 'blob': part})
        if i % 3 == 0:
            for label, mb in ou.malformed_blobs(rng, blob):
                check_direct(ctx, {'kind': 'direct', 'label': label,
                                   'blob': mb, 'iters': iters,
                                   'flatten': flatten})
    # clean_for_json
    for i in range(150 if quick else 1500):
        check_clean(ctx, ou.gen_pyval(rng))
    # re_order_blob
    for i in range(15 if quick else 100):
        n = rng.randint(1, 6)
        ids = ou.distinct(rng, ou.CELL_POOL, n)
        order = list(ids)
        rng.shuffle(order)
        r = rng.random()
        if r < 0.15:
            order = order[:-1] + ['unknown cell']
        elif r < 0.3 and n > 1:
            ids = ids[:-1] + [ids[0]]
        check_reorder(ctx, {'kind': 'reorder', 'ids': ids, 'order': order})
    # pipeline runs
    n_pipe = 24 if quick else 260
    for i in range(n_pipe):
        r = rng.random()
        spec = gen_pipeline_spec(rng, quick=quick, many_chunks=(i % 6 == 5),
                                 tainted=(r < 0.04),
                                 single_leaf=(0.04 <= r < 0.07))
        check_pipeline(ctx, spec)


def replay(ctx, data, from_corpus=False):
    d = data.get('detail', data)
    kind = d.get('kind')
    if kind == 'direct':
        check_direct(ctx, {k: v for k, v in d.items()
                           if k not in ('fails', 'broken', 'field', 'impl',
                                        'model')})
    elif kind == 'pipeline':
        check_pipeline(ctx, {k: v for k, v in d.items()
                             if k not in ('fails', 'broken', 'field', 'impl',
                                          'model')})
    elif kind == 'fmt4':
        check_fmt4(ctx, d['xs'])
    elif kind == 'metadata_only':
        check_metadata_only(ctx, d)
    elif kind == 'clean':
        check_clean(ctx, ou.pyval_from_json(d['value_tagged'], d['strings']))
    elif kind == 'reorder':
        check_reorder(ctx, d)
    elif not from_corpus:
        print('nothing to replay for kind', kind)
