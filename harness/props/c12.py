"""
C12 — selected query markers cover every cluster pair as far as possible.

Tie: hand-written Lean model (CTM/Model/Selection.lean) vs the real
select_all_markers / create_marker_gene_lookup_from_ref_list on generated
reference-marker files.  The ordered list the implementation returns for a
parent is a trace of its greedy loop: the model replays it (every pick must be
a gene of maximal utility, the forced "desperate" prefix and the stopping
point must coincide), the exit state is compared with what the implementation
logs, and the C12 clauses are evaluated on the implementation's lists against
a census computed here from the generated table.
"""
import json

from ctmverif import pipeline
from ctmverif import selection_util as su
from ctmverif.core import VERIF

RULE = ('generated selection problems: random taxonomy (<=7 leaves, 1-3 '
        'levels, single-child chains), marker table by mode (dense, sparse, '
        'menu of per-direction sizes around the target {0,1,n-1,n,n+1,2n,'
        '2n+1,all}, shared hub genes, sliding blocks -> many utility ties), '
        'query = all / permuted / subset / subset+foreign genes / 1-3 genes, '
        'target n in 1..5, per-parent overrides, parent_list subsets; each '
        'problem run for worker counts 1-4 x behemoth cut-offs {0,1,inf} '
        '(quick: 4 of the 12, thorough: all) through select_all_markers and '
        'create_marker_gene_lookup_from_ref_list; plus an edge stream (no '
        'overlap with the query, duplicate query names, one leaf, no '
        'markers at all, target 0 / larger than the gene count, up/down '
        'overlap); a few problems whose reference file is written by the real find_markers_for_all_taxonomy_pairs (exact on-disk dtypes/chunking); tables written as int64 or as the smallest unsigned types. non-trivial = some parent has >=2 relevant pairs and the '
        'implementation selected >=1 gene; distinct by canonical JSON of '
        '(problem, configuration)')
TRUSTED = ['h5py/numpy write and read back the generated reference-marker '
           'file as given',
           'the harness census (selection_util.relevant_pairs / '
           'check_selection)']
ASSUMPTIONS = [
    'reference-marker files are as diff_exp/markers.py writes them: '
    'sparse_by_gene is the transpose of sparse_by_pair, a gene is not both '
    'up- and down-regulated for one pair, no gene is listed twice for a '
    '(pair, direction), reference gene names are distinct',
    'genes_at_a_time = 1 (the default); larger values pop from a stale '
    'order and are outside the property',
    'the pairs a parent must discriminate are those taxonomy_tree.'
    'leaves_to_compare lists (exactness is C10); the suite cross-checks '
    'them against an independent census',
]

GB_SIZE = 10   # gb_size in select_marker_genes_v2 (see translate())

ALL_CONFIGS = [(p, c) for c in (0, 1, su.INF_CUTOFF) for p in (1, 2, 3, 4)]


def call_model(ctx, op, inp):
    return ctx.model(op, {k: v for k, v in inp.items() if k != 'decode'})


def decode_ids(inp, ids):
    """model gene ids -> reference ids (identity unless the gene list was
    compressed for the model)"""
    if ids is None or inp.get('decode') is None:
        return ids
    dec = inp['decode']
    return [dec[i] if i < len(dec) else -1 for i in ids]


def ids_of(prob, names):
    pos = {g: i for i, g in enumerate(prob.ref_genes)}
    return [pos.get(g, len(prob.ref_genes) + 999) for g in names]


def nontrivial(prob, out):
    for parent in prob.parents():
        if len(prob.relevant_pairs(parent)) >= 2 and out.get(parent):
            return True
    return False


def model_input(prob, orders, traces, cutoff, policy='trace', behemoth=None):
    parents = []
    for parent in prob.parents():
        e = {'leaves': orders[parent], 'n': prob.n_for(parent),
             'trace': ids_of(prob, traces.get(parent, []))}
        if behemoth is not None:
            e['behemoth'] = behemoth
        parents.append(e)
    table, query, decode = prob.model_tables(
        [g for e in parents for g in e['trace']])
    if decode is not None:
        new = {g: i for i, g in enumerate(decode)}
        for e in parents:
            e['trace'] = [new.get(g, len(decode) + 999) for g in e['trace']]
    return {'table': table, 'query': query, 'decode': decode,
            'parents': parents, 'cutoff': cutoff, 'policy': policy}


def expected_error(prob):
    """errors the property's domain excludes: no shared gene at all"""
    if not (set(prob.query) & set(prob.ref_genes)):
        return 'noOverlap'
    return None


def overlap_pairs(prob):
    return [i for i in range(len(prob.pairs))
            if set(prob.up[i]) & set(prob.down[i])]


def check_problem(ctx, prob, configs, ref_list_configs=(), source='gen',
                  predicates=True, writer=None):
    """one problem, several configurations.  returns number of failures"""
    n_viol0 = len(ctx.violations)
    detail_base = {'kind': 'problem', 'problem': prob.to_json(),
                   'configs': [list(c) for c in configs],
                   'ref_list_configs': [list(c) for c in ref_list_configs],
                   'predicates': predicates}
    ctx.count('mode:' + prob.label)
    ctx.count('n_per:%d' % prob.n_per)
    with pipeline.workdir('c12_') as d:
        stats, ref = (writer or su.write_problem)(prob, d)
        ctx.count('dtype:' + ('real' if writer else getattr(prob, 'dtype_mode', 'int64')))
        tt = su.impl_tree(prob)
        # the pairs of each parent: order from the implementation, set
        # cross-checked against the independent census
        orders = {}
        for parent in prob.parents():
            o = su.leaves_order(prob, tt, parent)
            orders[parent] = o
            if o is None or sorted(o) != sorted(prob.relevant_pairs(parent)):
                ctx.violation(
                    'C12/pairs/leaves-to-compare',
                    'leaves_to_compare(%r) is not the set of leaf pairs '
                    'under distinct children' % (parent,),
                    dict(detail_base, parent=su._p(parent), impl=o,
                         census=prob.relevant_pairs(parent)))
                return 1
        runs = []
        for kind, cfgs in (('select_all', configs),
                           ('ref_list', ref_list_configs)):
            for (nproc, cutoff) in cfgs:
                if kind == 'select_all':
                    status, out, log = su.run_select_all(
                        prob, ref, tt, nproc, cutoff, d)
                else:
                    if prob.parent_list is not None:
                        continue
                    status, out, log = su.run_ref_list(
                        prob, ref, nproc, cutoff, d)
                    if out is not None:
                        out = {p: out.get(su.parent_key(p))
                               for p in prob.all_parents()
                               if su.parent_key(p) in out}
                runs.append((kind, nproc, cutoff, status, out, log))
        left = [p.name for p in d.iterdir()
                if p.name not in ('stats.h5', 'ref.h5')]
        if left:
            ctx.count('tmp_dir_leftovers')
    first_sets = None
    for (kind, nproc, cutoff, status, out, log) in runs:
        cfg = {'api': kind, 'n_processors': nproc, 'behemoth_cutoff': cutoff}
        detail = dict(detail_base, config=cfg)
        ctx.count('api:' + kind)
        ctx.count('n_processors:%d' % nproc)
        ctx.count('cutoff:%s' % ('inf' if cutoff >= su.INF_CUTOFF else cutoff))
        ctx.count('impl:' + status)
        key = None
        if status == 'ok' and nontrivial(prob, out):
            key = prob.shape_key() + json.dumps(cfg)
        ctx.case(key, sample={'label': prob.label, 'config': cfg,
                              'n_genes': len(prob.ref_genes),
                              'n_pairs': len(prob.pairs),
                              'selected': None if out is None else
                              {su.parent_key(k): v for k, v in out.items()}})
        # ---- the implementation alone
        exp = expected_error(prob)
        if status != 'ok':
            model_err = None
            if ctx.driver_ok:
                # no trace to replay: run the model under a legal policy;
                # whatever error remains is a genuine rejection
                r = call_model(ctx, 'selection.select_all',
                               model_input(prob, orders, {}, cutoff,
                                           policy='first'))
                model_err = r.get('err')
                if model_err is None:
                    bad = [x.get('err') for x in r['ok'] if 'err' in x]
                    model_err = bad[0] if bad else None
            same = (status == model_err or
                    (status in ('assert', 'workerFailed')
                     and model_err == 'upDownOverlap'))
            if exp is None and predicates:
                ctx.violation(
                    'C12/select/fails-on-valid-input/' + status,
                    'selection raises (%s) on a well-formed table and '
                    'query' % status, detail)
            elif ctx.driver_ok and not same:
                ctx.disagreements_checked += 1
                ctx.violation(
                    'C12/correspondence/error/impl=%s/model=%s'
                    % (status, model_err),
                    'correspondence on the rejection path no longer checks',
                    dict(detail, impl=status, model=model_err,
                         broken='correspondence CTM.Selection.selectAll ~ '
                                'select_all_markers'), found_input=False)
            continue
        want_parents = prob.parents()
        if set(out.keys()) != set(want_parents):
            ctx.violation(
                'C12/select/parents',
                'the result does not have exactly one entry per parent',
                dict(detail, got=[su._p(p) for p in out.keys()]))
            continue
        pred_fail = False
        if predicates:
            for parent in want_parents:
                fails = su.check_selection(prob, parent, out[parent])
                ctx.count('relevant_pairs:%s' % min(
                    len(prob.relevant_pairs(parent)), 10))
                for cls, msg, data in fails:
                    pred_fail = True
                    ctx.violation(
                        'C12/select/' + cls,
                        'parent %s, n=%d: %s' % (su.parent_key(parent),
                                                 prob.n_for(parent), msg),
                        dict(detail, parent=su._p(parent),
                             selected=out[parent], **data))
                    break
            sets = {p: sorted(out[p]) for p in want_parents}
            if first_sets is None:
                first_sets = (cfg, sets, out)
            else:
                if sets != first_sets[1]:
                    pred_fail = True
                    diff = [su._p(p) for p in want_parents
                            if sets[p] != first_sets[1][p]]
                    ctx.violation(
                        'C12/select/depends-on-config',
                        'the selection differs between configurations '
                        '%r and %r for parents %r'
                        % (first_sets[0], cfg, diff),
                        dict(detail, other_config=first_sets[0],
                             selected={su.parent_key(p): out[p]
                                       for p in want_parents},
                             other_selected={su.parent_key(p): first_sets[2][p]
                                             for p in want_parents}))
                elif any(out[p] != first_sets[2][p] for p in want_parents):
                    ctx.count('same_set_different_order')
        # ---- correspondence: replay the trace through the model
        if not ctx.driver_ok:
            continue
        inp = model_input(prob, orders, out, cutoff)
        r = call_model(ctx, 'selection.select_all', inp)
        bad = None
        if 'err' in r:
            bad = ('whole', r['err'])
        else:
            for parent, res in zip(want_parents, r['ok']):
                impl_ids = ids_of(prob, out[parent])
                if decode_ids(inp, res.get('ok')) != impl_ids:
                    bad = (su.parent_key(parent), res, impl_ids)
                    break
                ctx.traces += 1
                ctx.count('trace_len:%d' % min(len(impl_ids), 12))
        if bad is None:
            bad = compare_detail(ctx, prob, inp, want_parents, log)
        if bad is not None:
            ctx.disagreements_checked += 1
            if not pred_fail:
                ctx.violation(
                    'C12/correspondence/trace',
                    'the implementation\'s ordered list is not a legal run '
                    'of the model\'s greedy loop (or the logged exit state '
                    'differs) while every C12 clause still holds on it',
                    dict(detail, mismatch=bad,
                         selected={su.parent_key(p): out[p]
                                   for p in want_parents},
                         broken='correspondence CTM.Selection.selectAll ~ '
                                'select_all_markers'), found_input=False)
    return len(ctx.violations) - n_viol0


def compare_detail(ctx, prob, inp, parents, log):
    """exit state of the model vs the facts _run_selection logs"""
    r = call_model(ctx, 'selection.detail', inp)
    if 'err' in r:
        return ('detail', r['err'])
    for parent, res in zip(parents, r['ok']):
        lg = log.get(su.parent_key(parent))
        if lg is None:
            return ('detail', su.parent_key(parent), 'no log entry')
        if 'err' in res:
            return ('detail', su.parent_key(parent), res)
        m = res['ok']
        if m.get('skipped'):
            if lg.get('n_genes') != 0 or 'filled' in lg:
                return ('detail', su.parent_key(parent), 'skip', lg)
            continue
        aggs = [s['agg'] for s in m['slots']]
        n = prob.n_for(parent)
        mine = {
            'n_genes': len(m['chosen']),
            'filled': m['filled'],
            'unfilled': m['size'] - m['filled'],
            'n_desperate': m['nDesperate'],
            'n_original_markers': m['nOriginal'],
            'min_n_genes': min(aggs), 'max_n_genes': max(aggs),
            'lt_n': {'up': sum(1 for s in m['slots'] if s['cUp'] < n),
                     'down': sum(1 for s in m['slots'] if s['cDown'] < n)},
        }
        theirs = {k: lg.get(k) for k in mine if k != 'lt_n'}
        theirs['lt_n'] = (lg.get('marker_distribution') or {}).get(
            'lt_%d' % n)
        if n < 1:
            mine.pop('lt_n')
            theirs.pop('lt_n')
        if mine != theirs:
            return ('detail', su.parent_key(parent), mine, theirs)
        ctx.count('detail_ok')
    return None


def model_self_check(ctx, prob):
    """the model under two concrete tie policies and both table paths meets
    the clauses the theorems state (guards against model drift)"""
    if not ctx.driver_ok or expected_error(prob) or overlap_pairs(prob):
        return
    tt = su.impl_tree(prob)
    orders = {p: su.leaves_order(prob, tt, p) for p in prob.parents()}
    sets = []
    for policy in ('first', 'last'):
        for beh in (False, True):
            inp = model_input(prob, orders, {}, 0, policy=policy,
                              behemoth=beh)
            r = call_model(ctx, 'selection.detail', inp)
            if 'err' in r:
                continue
            row = []
            for parent, res in zip(prob.parents(), r['ok']):
                if 'err' in res:
                    ctx.violation(
                        'C12/model-self-check/error',
                        'model fails under policy %s: %r' % (policy, res),
                        {'kind': 'problem', 'problem': prob.to_json(),
                         'broken': 'model self check'}, found_input=False)
                    return
                names = [prob.ref_genes[i] for i in
                         decode_ids(inp, res['ok']['chosen'])]
                fails = su.check_selection(prob, parent, names)
                if fails:
                    ctx.violation(
                        'C12/model-self-check/' + fails[0][0],
                        'model output breaks a C12 clause (policy %s): %s'
                        % (policy, fails[0][1]),
                        {'kind': 'problem', 'problem': prob.to_json(),
                         'broken': 'model self check'}, found_input=False)
                    return
                row.append(sorted(names))
            sets.append((policy, beh, row))
    for policy in ('first', 'last'):
        rows = [r for (p, b, r) in sets if p == policy]
        if len(rows) == 2 and rows[0] != rows[1]:
            ctx.violation(
                'C12/model-self-check/indep',
                'model selection differs between the downsampled and the '
                'full-table path',
                {'kind': 'problem', 'problem': prob.to_json(),
                 'broken': 'model self check'}, found_input=False)
    ctx.count('model_self_check')


# ---------------------------------------------------------------------------
# edge stream
# ---------------------------------------------------------------------------

def edge_problems(rng):
    out = []
    base = su.gen_problem(rng, mode='menu')
    while len(base.pairs) < 3 or base.parent_list is not None:
        base = su.gen_problem(rng, mode='menu')
    j = base.to_json()

    def variant(label, **kw):
        d = json.loads(json.dumps(j))
        d.update(kw)
        d['label'] = 'edge/' + label
        return su.SelProblem.from_json(d)

    out.append((variant('no_overlap', query=['zz1', 'zz2']), True))
    q = list(base.query)
    out.append((variant('dup_query', query=q + q[:2]), True))
    out.append((variant('no_markers', up=[[] for _ in base.up],
                        down=[[] for _ in base.down]), True))
    out.append((variant('huge_n', n_per=len(base.ref_genes) + 3,
                        overrides=[]), True))
    out.append((variant('n_zero_override',
                        overrides=[[None, 0]]), True))
    out.append((variant('n_zero', n_per=0, overrides=[]), True))
    # one direction only
    out.append((variant('up_only', down=[[] for _ in base.down]), True))
    # every gene marks every pair in the same direction: all ties
    allg = list(range(len(base.ref_genes)))
    out.append((variant('all_ties', up=[allg for _ in base.up],
                        down=[[] for _ in base.down]), True))
    # one-leaf taxonomy: no pair at all
    lvl = 'cluster'
    one = su.SelProblem({'hierarchy': [lvl], lvl: {'only': []}},
                        ['g1', 'g0'], [], [], ['g0'], 2, label='edge/one_leaf')
    out.append((one, True))
    two = su.SelProblem({'hierarchy': ['class', lvl],
                         'class': {'A': ['a', 'b']},
                         lvl: {'a': [], 'b': []}},
                        ['g1', 'g0', 'g2'], [[0, 2]], [[1]], ['g0', 'g2', 'q'],
                        1, label='edge/single_top_node')
    out.append((two, True))
    # up/down overlap (outside the assumptions: correspondence only)
    if base.pairs:
        up = [list(x) for x in base.up]
        down = [list(x) for x in base.down]
        for i in range(len(up)):
            if up[i] and rng.random() < 0.6:
                g = rng.choice(up[i])
                if g not in down[i]:
                    down[i] = sorted(down[i] + [g])
        out.append((variant('overlap', up=up, down=down), False))
    return out


# ---------------------------------------------------------------------------

def run_detail(ctx, detail):
    if detail.get('kind') != 'problem':
        return
    prob = su.SelProblem.from_json(detail['problem'])
    cfgs = [tuple(c) for c in detail.get('configs') or [(1, su.INF_CUTOFF)]]
    rl = [tuple(c) for c in detail.get('ref_list_configs') or []]
    check_problem(ctx, prob, cfgs, rl, source='replay',
                  predicates=detail.get('predicates', True))


def run(ctx):
    rng = ctx.rng
    # corpus first
    cdir = VERIF / 'corpus' / 'C12'
    if cdir.is_dir():
        for f in sorted(cdir.glob('*.json')):
            ctx.count('corpus')
            run_detail(ctx, json.loads(f.read_text()))
    thorough = (ctx.tier == 'thorough')
    n_problems = 160 if thorough else 30
    n_edge_rounds = 6 if thorough else 1
    for k in range(n_problems):
        prob = su.gen_problem(rng)
        if thorough:
            cfgs = list(ALL_CONFIGS)
            rl = [(rng.randint(1, 4), rng.choice([0, 1, su.INF_CUTOFF]))]
        else:
            # every cut-off once, worker counts rotated, + one more
            cfgs = [((k + i) % 4 + 1, c)
                    for i, c in enumerate((0, 1, su.INF_CUTOFF))]
            cfgs.append(rng.choice(ALL_CONFIGS))
            rl = [(rng.randint(1, 4), rng.choice([0, 1, su.INF_CUTOFF]))] \
                if k % 4 == 0 else []
        check_problem(ctx, prob, cfgs, rl)
        if k % 4 == 0 or thorough:
            model_self_check(ctx, prob)
    # reference-marker files written by the real find_markers (exact on-disk
    # format); the census is read back from the file's by-pair tables
    for k in range(24 if thorough else 4):
        prob, writer = su.real_problem(rng)
        check_problem(ctx, prob, [(1 + k % 4, 0), (2, su.INF_CUTOFF)],
                      [(2, 1)], source='real', writer=writer)
    # integer-width boundaries of the pair index arrays: a parent with exactly
    # 255/256/257 relevant pairs on the downsampled path (local indices up to
    # 254/255/256) and a root whose largest global pair index is 254/255/256
    # on the full-table path
    for target in (255, 256, 257):
        check_problem(ctx, su.boundary_problem(rng, target, 'local'),
                      [(2, su.INF_CUTOFF), (1, 0)], source='boundary')
        check_problem(ctx, su.boundary_problem(rng, target - 1, 'global'),
                      [(1, 0), (2, su.INF_CUTOFF)], source='boundary')
    # more leaf pairs than one block of create_utility_array (the block is
    # round(gb_size*1024**3/(3*n_genes)) pairs): ~200k genes, very sparse
    check_problem(ctx, su.many_genes_problem(rng, gb_size=GB_SIZE),
                  [(2, su.INF_CUTOFF)], source='many_genes')
    if thorough:
        check_problem(ctx, su.many_genes_problem(
            rng, n_genes=rng.randint(120000, 260000), gb_size=GB_SIZE),
            [(1, 0)], source='many_genes')
    for _ in range(n_edge_rounds):
        for prob, predicates in edge_problems(rng):
            check_problem(ctx, prob,
                          [(1, 0), (2, su.INF_CUTOFF), (3, 1)] if thorough
                          else [(1, 0), (2, su.INF_CUTOFF)],
                          [(2, su.INF_CUTOFF)], source='edge',
                          predicates=predicates)


def replay(ctx, data):
    run_detail(ctx, data['detail'])
