"""
C06 -- a cell's mapping depends only on its own expression vector (bootstrap
factor 1: every iteration uses all marker genes, the RNG drops out).

Layers (CONTRIBUTING.md):
 (i)  predicate on the implementation alone, paired real `run_mapping` runs:
      one reference + marker table, a base query and a derived query (cells
      permuted / removed / added / duplicated under fresh ids / alone / other
      chunk size, worker count, encoding, seed); the records are joined on
      cell id and must agree: labels, probabilities, runner-up names and the
      inferred/voted flag exactly, correlations (and the aggregate
      probability, a float product) within `levelloop_util.close`.  Within
      every single run, cells with identical expression rows must carry
      identical records.  At unit level (`c01.check_unit`, scripted vote,
      many cells sharing few vectors) row i must be the walk of cell i's own
      vector.
 (ii) correspondence: `levelloop_util.model_pipeline` with the oracle read off
      the real output and keyed by (parent, expression VECTOR): the Lean
      `mapPipeline` must reproduce the whole output; two cells with the same
      vector and different votes make the oracle table inconsistent.
"""
import copy
import json

from ctmverif import levelloop_util as U
from props import c01

RULE = ('pairs: generated reference (taxonomy depth 1-5, chains, single-node '
        'levels) + marker table (every list >= 3 genes of the query) + base '
        'query of 1-12 cells (integer counts, sometimes duplicated rows, no '
        'cell constant on a marker list; every third base carries 1-4 cells with '
        'NO count at all in chunks after the first) at bootstrap factor 1 (also '
        'given as bootstrap_factor_lookup), flatten / '
        'drop_level (top, middle, absent) sometimes set and kept equal within '
        'a pair, iteration count and runner-up count kept equal; derived '
        'query = permutation | subset (>=1 cell kept) | superset (new random '
        'cells, fresh ids, random positions) | duplicates (copies of rows '
        'under fresh ids) | settings (same cells) | single (one cell alone) '
        '| mixed (subset + new cells + copies + permutation) | chunk1 '
        '(chunk_size 1); every derived run draws a new chunk size, worker '
        'count (1-4), encoding (dense/csr/csc) and rng seed.  unit: valid '
        'trees x 4-12 cells sharing 1-3 vectors x scripted valid votes.  '
        'wide family: a parent with 257-400 children (one-level taxonomy, or one '
        'class of a two-level one, flatten on/off) x 257-300 cells resembling '
        'leaves of sorted index >= 256, mapped in ONE chunk and, paired, in '
        'chunks of 30-255 rows, in files of 2-40 cells and alone; unit: real '
        'choose_node at factor 1 against an independent correlation arg-max, '
        '255/256/257/300-2000/65536/65537/~70000 candidate types (some types '
        'on several reference rows) x 1-300 cells.  '
        'non-trivial = the taxonomy has a parent with >= 2 children and the '
        'pair shares >= 1 cell (unit: >= 2 cells); distinct by canonical '
        'JSON of the pair')
TRUSTED = ['anndata/h5py write and read back the query and the stats file as '
           'given', 'json round trip of Python',
           'the oracle is read off the real output (the vote itself is '
           'C02/C03); identical vectors share one oracle key']
ASSUMPTIONS = ['bootstrap_factor = 1.0 at every level',
               'cell ids are unique strings',
               'no query cell is constant on the marker genes of a parent '
               '(zero variance: every correlation is rounding noise) and no '
               'marker list has fewer than 3 genes (2 genes: every '
               'correlation is +-1, an exact tie between reference leaves); '
               'reference profiles are distinct random floats',
               'bootstrap_iteration and n_runners_up are the same in both '
               'runs of a pair',
               'correlations / aggregate probability compared to 1e-9 '
               'relative (BLAS may round a dot product differently for '
               'different matrix shapes); everything else exactly']

EXACT_FIELDS = (('assignment', 'assignment'),
                ('bootstrapping_probability', 'probability'),
                ('runner_up_assignment', 'runner-up'),
                ('runner_up_probability', 'probability'),
                ('directly_assigned', 'flag'))
CLOSE_FIELDS = (('avg_correlation', 'correlation'),
                ('runner_up_correlation', 'correlation'),
                ('aggregate_probability', 'probability'))
KINDS_QUICK = ['perm', 'subset', 'superset', 'dup', 'settings', 'single']
KINDS_THOROUGH = KINDS_QUICK + ['mixed', 'chunk1']


# --------------------------------------------------------------------------
# generators
# --------------------------------------------------------------------------

def marker_sets(problem):
    """gene sets on which a cell must not be constant: every list of the
    table and their union (flatten)"""
    sets = [list(v) for v in problem['markers'].values()]
    union = sorted({g for v in sets for g in v})
    return sets + [union]


def row_degenerate(problem, row, sets=None):
    col = {g: i for i, g in enumerate(problem['query_genes'])}
    if not any(row):
        return True
    for s in (marker_sets(problem) if sets is None else sets):
        vals = {row[col[g]] for g in s if g in col}
        if len(vals) < 2:
            return True
    return False


def draw_row(rng, problem, sets=None):
    """a query row like pipeline.MappingProblem draws them (integer counts
    0..39, not all zero), never constant on a marker list"""
    n = len(problem['query_genes'])
    sets = marker_sets(problem) if sets is None else sets
    while True:
        row = [float(rng.randrange(40)) for _ in range(n)]
        if not row_degenerate(problem, row, sets):
            return row


def sanitize(rng, problem):
    """keep the generated problem clear of exact ties (ASSUMPTIONS)"""
    shared = [g for g in problem['ref_genes'] if g in problem['query_genes']]
    for k, v in problem['markers'].items():
        extra = [g for g in shared if g not in v]
        rng.shuffle(extra)
        while len(v) < 3 and extra:
            v.append(extra.pop())
    sets = marker_sets(problem)
    for i, row in enumerate(problem['X']):
        if row_degenerate(problem, row, sets):
            problem['X'][i] = draw_row(rng, problem, sets)
    return problem


def fresh_ids(rng, taken, n):
    out = []
    taken = set(taken)
    while len(out) < n:
        c = rng.choice(['n', 'c', 'Z', '0', 'dup_']) + str(rng.randrange(5000))
        if c not in taken:
            taken.add(c)
            out.append(c)
    return out


def new_settings(rng, cfg, n, chunk1=False):
    d = dict(cfg)
    d['chunk_size'] = 1 if chunk1 else rng.randint(1, n + 3)
    d['n_processors'] = rng.randint(1, 4)
    d['encoding'] = rng.choice(['dense', 'csr', 'csc'])
    d['rng_seed'] = rng.randrange(1, 10000)
    return d


def derive(rng, problem, cfg, kind):
    """(derived problem, derived config, {copy id: original id})"""
    d = copy.deepcopy(problem)
    cells = list(zip(d['cell_ids'], d['X']))
    copies = {}

    def insert(new):
        for c in new:
            cells.insert(rng.randint(0, len(cells)), c)

    def add_new(k):
        ids = fresh_ids(rng, [c for c, _ in cells] + problem['cell_ids'], k)
        insert([(c, draw_row(rng, problem)) for c in ids])

    def add_copies(k):
        ids = fresh_ids(rng, [c for c, _ in cells] + problem['cell_ids'], k)
        new = []
        for c in ids:
            src = rng.choice(cells)
            copies[c] = copies.get(src[0], src[0])
            new.append((c, list(src[1])))
        insert(new)

    n = len(cells)
    if kind == 'perm':
        rng.shuffle(cells)
        if n > 1 and [c for c, _ in cells] == problem['cell_ids']:
            cells.reverse()
    elif kind == 'subset':
        keep = set(rng.sample(range(n), rng.randint(1, max(1, n - 1))))
        cells = [c for i, c in enumerate(cells) if i in keep]
    elif kind == 'single':
        cells = [rng.choice(cells)]
    elif kind == 'superset':
        add_new(rng.randint(1, 5))
    elif kind == 'dup':
        add_copies(rng.randint(1, 4))
    elif kind == 'mixed':
        keep = set(rng.sample(range(n), rng.randint(1, n)))
        cells = [c for i, c in enumerate(cells) if i in keep]
        add_new(rng.randint(0, 3))
        add_copies(rng.randint(1, 3))
        rng.shuffle(cells)
    elif kind in ('settings', 'chunk1'):
        pass
    else:
        raise ValueError(kind)
    d['cell_ids'] = [c for c, _ in cells]
    d['X'] = [list(x) for _, x in cells]
    dcfg = new_settings(rng, cfg, len(cells), chunk1=(kind == 'chunk1'))
    return d, dcfg, copies


# --------------------------------------------------------------------------
# predicate
# --------------------------------------------------------------------------

def list_close(a, b):
    if a is None or b is None:
        return a is None and b is None
    if isinstance(a, list) or isinstance(b, list):
        return isinstance(a, list) and isinstance(b, list) and \
            len(a) == len(b) and all(U.close(x, y) for x, y in zip(a, b))
    return U.close(a, b)


PRIORITY = ['levels', 'missing-cell', 'assignment', 'flag', 'probability',
            'runner-up', 'correlation']


def diff_records(ra, rb):
    """the gravest difference of two records of the same cell (or of two
    cells with the same vector): (class, message) or None"""
    la = [k for k in ra if k != 'cell_id']
    lb = [k for k in rb if k != 'cell_id']
    if sorted(la) != sorted(lb):
        return ('levels', 'levels %r vs %r' % (la, lb))
    found = []
    for lvl in la:
        ea, eb = ra[lvl], rb[lvl]
        if not isinstance(ea, dict) or not isinstance(eb, dict):
            if ea != eb:
                return ('levels', 'level %r: %r vs %r' % (lvl, ea, eb))
            continue
        if sorted(ea) != sorted(eb):
            return ('levels', 'level %r carries keys %r vs %r'
                    % (lvl, sorted(ea), sorted(eb)))
        for f, cls in EXACT_FIELDS:
            if ea.get(f) != eb.get(f):
                found.append((cls, 'level %r %s: %r vs %r'
                              % (lvl, f, ea.get(f), eb.get(f))))
        for f, cls in CLOSE_FIELDS:
            if not list_close(ea.get(f), eb.get(f)):
                found.append((cls, 'level %r %s: %r vs %r'
                              % (lvl, f, ea.get(f), eb.get(f))))
        other = [k for k in ea if k not in U.ENTRY_KEYS and ea[k] != eb[k]]
        if other:
            return ('levels', 'level %r %s: %r vs %r'
                    % (lvl, other[0], ea[other[0]], eb[other[0]]))
    return worst(found)


def worst(found):
    """the difference whose class comes first in PRIORITY (signatures must
    not depend on which cell / level happens to be looked at first)"""
    found = [f for f in found if f]
    if not found:
        return None
    return min(found, key=lambda f: PRIORITY.index(f[0]))


def by_id(results):
    return {r.get('cell_id'): r for r in results}


def identical_cells_fail(problem, results):
    """within one run: identical rows => identical records"""
    if results is None or len(results) != len(problem['cell_ids']):
        return None     # C01's business
    recs = by_id(results)
    first = {}
    found = []
    for c, row in zip(problem['cell_ids'], problem['X']):
        k = tuple(row)
        if c not in recs:
            continue
        if k in first:
            d = diff_records(recs[first[k]], recs[c])
            if d:
                found.append((d[0], 'cells %r and %r have the same '
                              'expression vector but %s\n%r\n%r'
                              % (first[k], c, d[1], recs[first[k]], recs[c])))
        else:
            first[k] = c
    return worst(found)


def kappas(problem, table):
    return [table.setdefault(tuple(row), len(table)) for row in problem['X']]


def run_one(ctx, problem, cfg, table, label, workdir=None, tmp_dir=True):
    """real run + within-run predicate + correspondence.  Returns the run
    dict with 'pred_fail' added."""
    r = U.run_problem(problem, cfg, want_trace=False, workdir=workdir,
                      tmp_dir=tmp_dir)
    r['pred_fail'] = None
    U.mutation_violation(ctx, 'C06', r, {'kind': 'single', 'problem': problem,
                                          'config': cfg})
    if not r['ok'] or r['results'] is None:
        ctx.count('run:fails')
        return r
    fail = identical_cells_fail(problem, r['results'])
    r['pred_fail'] = fail
    if any(not any(x) for x in problem['X']):
        ctx.count('run:with-all-zero-cells')
    n_vec = len({tuple(x) for x in problem['X']})
    if n_vec < len(problem['X']):
        ctx.count('run:with-identical-rows')
    if fail:
        ctx.violation('C06/identical-cells/%s' % fail[0],
                      'one run, identical expression vectors, different '
                      'records: ' + fail[1],
                      {'kind': 'single', 'problem': problem, 'config': cfg})
    if ctx.driver_ok:
        kap = kappas(problem, table)
        diff = U.model_pipeline(ctx, problem, cfg, r['results'], kappa_of=kap)
        ctx.traces += 1
        if diff is not None and diff.get('field') == 'oracle' and not fail:
            # the table is keyed by exact floats: two cells with the same
            # vector may differ in the last bit of a correlation (inside the
            # tolerance of the predicate).  Then compare with one key per cell.
            ctx.count('oracle:split-by-cell')
            diff = U.model_pipeline(ctx, problem, cfg, r['results'])
            ctx.traces += 1
        if diff is not None:
            ctx.disagreements_checked += 1
            if not fail:
                ctx.violation(
                    'C06/correspondence/mapPipeline/%s' % diff['field'],
                    'correspondence mapPipeline ~ _run_mapping no longer '
                    'checks (%s, %s run)' % (diff['field'], label),
                    {'kind': 'single', 'problem': problem, 'config': cfg,
                     'diff': diff,
                     'broken': 'correspondence CTM.LevelLoop.mapPipeline ~ '
                               '_run_mapping data flow'},
                    found_input=False)
    return r


def check_single(ctx, problem, cfg):
    table = {}
    r = run_one(ctx, problem, cfg, table, 'single')
    ctx.case(json.dumps({'problem': problem, 'config': cfg}, sort_keys=True)
             if U.has_choice(problem['tree'])
             and len(problem['cell_ids']) >= 2 else None)
    return r['pred_fail'] is None


def check_pair(ctx, problem, cfg, dproblem, dcfg, derivation, copies=None,
               base_run=None, table=None, workdir=None, tmp_dir=True,
               share=None):
    """the paired predicate.  base_run: result of run_one on the base (reused
    across the derivations of one base)"""
    detail = {'kind': 'pair', 'problem': problem, 'config': cfg,
              'derived_problem': dproblem, 'derived_config': dcfg,
              'derivation': derivation, 'copies': copies or {},
              'share': [workdir is not None, tmp_dir]}
    table = {} if table is None else table
    if base_run is None:
        # replay: rebuild the situation (one directory for both runs or not)
        if share and share[0] and workdir is None:
            from ctmverif import pipeline
            with pipeline.workdir('ctmverif_ll_pair_') as wd:
                return check_pair(ctx, problem, cfg, dproblem, dcfg,
                                  derivation, copies=copies, table=table,
                                  workdir=wd, tmp_dir=share[1])
        base_run = run_one(ctx, problem, cfg, table, 'base', workdir=workdir,
                           tmp_dir=tmp_dir)
    tree = problem['tree']
    common = [c for c in problem['cell_ids'] if c in set(dproblem['cell_ids'])]
    nontriv = U.has_choice(tree) and len(common) >= 1
    ctx.case(json.dumps(detail, sort_keys=True) if nontriv else None,
             sample={'kind': 'pair', 'derivation': derivation,
                     'hierarchy': tree['hierarchy'],
                     'n_base': len(problem['cell_ids']),
                     'n_derived': len(dproblem['cell_ids']),
                     'n_common': len(common), 'config': cfg,
                     'derived_config': dcfg})
    ctx.count('pair:%s' % derivation)
    ctx.count('pair:depth:%d' % len(tree['hierarchy']))
    ctx.count('pair:shape:%s' % c01.tree_shape_class(tree))
    ctx.count('pair:%s' % ('flatten' if cfg['flatten'] else 'noflatten'))
    ctx.count('pair:drop:%s' % (
        'none' if cfg['drop_level'] is None else
        'absent' if cfg['drop_level'] not in tree['hierarchy'] else
        'top' if cfg['drop_level'] == tree['hierarchy'][0] else 'middle'))
    ctx.count('pair:iterations:%d' % cfg['bootstrap_iteration'])
    ctx.count('pair:encoding:%s->%s' % (cfg['encoding'], dcfg['encoding']))
    ctx.count('pair:workers:%d->%d' % (cfg['n_processors'],
                                       dcfg['n_processors']))
    ctx.count('pair:paths:%s' % ('fresh' if workdir is None else
                                 'shared' if tmp_dir else
                                 'shared+tmp_dir=None'))
    der = run_one(ctx, dproblem, dcfg, table, derivation, workdir=workdir,
                  tmp_dir=tmp_dir)
    sig = 'C06/paired/%s/' % derivation
    if not base_run['ok'] and not der['ok']:
        ctx.count('pair:both-fail')      # mapping at all is C01's statement
        return True
    if base_run['ok'] != der['ok']:
        ctx.violation(
            sig + 'one-side-fails',
            'base run %s, derived run (%s) %s: %s' % (
                'succeeds' if base_run['ok'] else 'fails', derivation,
                'succeeds' if der['ok'] else 'fails',
                base_run['error'] or der['error']),
            dict(detail, error=base_run['error'] or der['error']))
        return False
    a = by_id(base_run['results'])
    b = by_id(der['results'])
    found = []
    for c in common:
        if c not in a or c not in b:
            found.append(('missing-cell', 'cell %r has no record in the %s '
                          'run' % (c, 'base' if c not in a else 'derived')))
            continue
        d = diff_records(a[c], b[c])
        if d:
            found.append((d[0], 'cell %r: %s\nbase    %r\nderived %r'
                          % (c, d[1], a[c], b[c])))
    for new, orig in (copies or {}).items():
        if new in b and orig in b:
            d = diff_records(b[orig], b[new])
            if d:
                found.append((d[0], 'copy %r of cell %r: %s\noriginal %r\n'
                              'copy     %r' % (new, orig, d[1], b[orig],
                                              b[new])))
    fail = worst(found)
    if fail:
        ctx.violation(sig + fail[0],
                      'the record of a cell changed with its company (%s): %s'
                      % (derivation, fail[1]), detail)
        return False
    return True


# --------------------------------------------------------------------------
# streams
# --------------------------------------------------------------------------

def gen_base(rng, i):
    problem = U.make_problem(rng, max_depth=5 if i % 3 else 3,
                             duplicate_cells=(i % 3 == 0),
                             n_cells=None if i % 4 else rng.randint(4, 12))
    sanitize(rng, problem)
    cfg = U.gen_config(rng, problem, factor=1.0)
    h = problem['tree']['hierarchy']
    if i % 7 == 3 and len(h) > 2:
        cfg['drop_level'] = rng.choice(h[1:-1])
    if i % 3 == 1:
        # cells with NO count at all (raw data: their CPM row is all zero),
        # some of them twice, sitting in chunks after the first
        n = len(problem['cell_ids'])
        if n < 6:
            extra = U.make_problem(rng, tree=problem['tree'], n_cells=6)
            for c, _ in zip(fresh_ids(rng, problem['cell_ids'], 6 - n),
                            range(6 - n)):
                problem['cell_ids'].append(c)
                problem['X'].append(draw_row(rng, problem))
            n = len(problem['cell_ids'])
        for j in rng.sample(range(n // 2, n), rng.randint(1, min(4, n - n // 2))):
            problem['X'][j] = [0.0] * len(problem['query_genes'])
        cfg['chunk_size'] = rng.randint(1, 2)
    U.maybe_factor_lookup(rng, problem['tree'], cfg, prob=0.3, factor=1.0)
    return problem, cfg


def run_pairs(ctx, n_bases, kinds):
    rng = ctx.rng
    for i in range(n_bases):
        problem, cfg = gen_base(rng, i)
        table = {}
        # every other base: ONE directory for the base and all its derived
        # runs (the query re-written at the same path, in this same process),
        # half of those with tmp_dir=None so that it is read in place
        import contextlib
        from ctmverif import pipeline
        shared = (i % 2 == 1)
        tmp = (not shared) or (i % 4 == 1)
        keep_enc = None
        if shared and not tmp:
            # files read in place: rows with differing numbers of stored
            # entries, one sparse encoding for the base and its derived runs
            c01.sparsify(rng, problem)
            sanitize(rng, problem)
            keep_enc = rng.choice(['csr', 'csr', 'csc'])
            cfg['encoding'] = keep_enc
        with (pipeline.workdir('ctmverif_ll_pair_') if shared
              else contextlib.nullcontext(None)) as wd:
            base = run_one(ctx, problem, cfg, table, 'base', workdir=wd,
                           tmp_dir=tmp)
            for kind in kinds:
                dp, dc, copies = derive(rng, problem, cfg, kind)
                if keep_enc and rng.random() < 0.8:
                    dc['encoding'] = keep_enc
                check_pair(ctx, problem, cfg, dp, dc, kind, copies=copies,
                           base_run=base, table=table, workdir=wd,
                           tmp_dir=tmp)


def run_units(ctx, n):
    """the level loop with a scripted vote, many cells sharing few vectors"""
    rng = ctx.rng
    for _ in range(n):
        tree = c01.gen_unit_tree(rng, False)
        n_cells = rng.randint(4, 12)
        n_kappa = rng.randint(1, 3)
        kap = [rng.randrange(n_kappa) for _ in range(n_cells)]
        script = U.gen_script(rng, tree, kap, mode='valid',
                              n_runners=rng.randint(0, 3))
        c01.check_unit(ctx, tree, kap, script, 'valid', prop='C06')
        ctx.count('unit:distinct-vectors:%d' % len(set(kap)))


# --------------------------------------------------------------------------
# wide parents: more children than a narrow integer dtype can index
# --------------------------------------------------------------------------

def gen_wide_problem(rng, n_leaves, n_cells, two_level):
    """a parent with n_leaves (> 256) children -- the root of a one-level
    taxonomy, or one class of a two-level one -- and cells that resemble a
    chosen leaf each (most of them leaves whose sorted index is >= 256)"""
    names = ['c%04d' % i for i in range(n_leaves)]
    if rng.random() < 0.5:
        names = ['%s%d' % (rng.choice('abz9_'), i) for i in range(n_leaves)]
    if two_level:
        n_small = rng.randint(2, 20)
        small = ['s%d' % i for i in range(n_small)]
        tree = {'hierarchy': ['class', 'cluster'],
                'class': {'wide': list(names), 'small': small},
                'cluster': {n: [] for n in names + small}}
    else:
        tree = {'hierarchy': ['cluster'], 'cluster': {n: [] for n in names}}
    problem = U.make_problem(rng, tree=tree, n_genes=rng.randint(10, 14),
                             n_cells=n_cells)
    col = {g: i for i, g in enumerate(problem['ref_genes'])}
    ranked = sorted(names)
    X = []
    for _ in range(n_cells):
        r = rng.random()
        if r < 0.7:
            leaf = ranked[rng.randrange(256, n_leaves)]
        elif r < 0.85:
            leaf = ranked[rng.choice([255, 256, n_leaves - 1, 0])]
        else:
            leaf = rng.choice(names)
        mean = [x / problem['leaf_n'][leaf] for x in problem['leaf_sum'][leaf]]
        scale = rng.uniform(5.0, 30.0)
        row = []
        for g in problem['query_genes']:
            v = (2.0 ** mean[col[g]] - 1.0) * scale if g in col else \
                rng.randrange(40)
            row.append(float(max(0, int(round(v + rng.uniform(-0.4, 0.4))))))
        if not any(row):
            row[0] = 1.0
        X.append(row)
    problem['X'] = X
    sanitize(rng, problem)
    return problem


def run_wide_pairs(ctx, n_bases):
    """the same cell mapped in ONE big chunk (>= 256 cells in the election
    group), in small chunks, in a small file and alone"""
    rng = ctx.rng
    for i in range(n_bases):
        two_level = (i % 2 == 1)
        n_leaves = rng.choice([257, rng.randint(258, 400), rng.randint(258, 400)])
        n_cells = rng.randint(257, 300)
        problem = gen_wide_problem(rng, n_leaves, n_cells, two_level)
        cfg = U.gen_config(rng, problem, flatten=False, factor=1.0)
        cfg.update(flatten=(two_level and rng.random() < 0.5), drop_level=None,
                   chunk_size=n_cells + rng.randint(0, 5), n_processors=1,
                   bootstrap_iteration=rng.choice([1, 2]),
                   n_runners_up=rng.randint(0, 3), encoding='dense')
        ctx.count('wide:%s:%d-children' % ('two-level' if two_level else 'flat',
                                           n_leaves))
        table = {}
        base = run_one(ctx, problem, cfg, table, 'wide-base')
        cells = list(zip(problem['cell_ids'], problem['X']))
        for kind in ('wide-small-chunks', 'wide-subset', 'wide-single'):
            d = copy.deepcopy(problem)
            dc = dict(cfg, rng_seed=rng.randrange(1, 10000))
            if kind == 'wide-small-chunks':
                dc['chunk_size'] = rng.choice([rng.randint(30, 120), 255])
                dc['n_processors'] = rng.randint(1, 3)
            else:
                k = 1 if kind == 'wide-single' else rng.randint(2, 40)
                pick = rng.sample(cells, k)
                d['cell_ids'] = [c for c, _ in pick]
                d['X'] = [list(x) for _, x in pick]
                dc['chunk_size'] = rng.randint(1, k + 3)
            check_pair(ctx, problem, cfg, d, dc, kind, base_run=base,
                       table=table)


def run_huge_groups(ctx, n_bases):
    """election groups beyond the batch sizes of the nearest-neighbour search:
    10001-15000 cells in ONE chunk (so that the root group, and large groups
    below it, exceed 10000 rows) against the same cells in small files"""
    rng = ctx.rng
    for _ in range(n_bases):
        for _try in range(200):
            problem = U.make_problem(rng, max_depth=3, max_leaves=6, n_cells=6,
                                     n_genes=8)
            t = problem['tree']
            if len(t[t['hierarchy'][0]]) >= 2:
                break       # the root itself votes on the whole chunk
        sanitize(rng, problem)
        n = 10000 + rng.choice([rng.randint(1, 4999), rng.randint(1, 4999),
                                5000])
        ids, X = [], []
        base_rows = [list(x) for x in problem['X']]
        for i in range(n):
            ids.append('h%d' % i)
            if i < n - 40 and rng.random() < 0.9:
                X.append(list(rng.choice(base_rows)))
            else:
                X.append(draw_row(rng, problem))
        problem['cell_ids'], problem['X'] = ids, X
        cfg = U.gen_config(rng, problem, flatten=False, factor=1.0)
        cfg.update(flatten=False, drop_level=None, chunk_size=n + 5,
                   n_processors=1, bootstrap_iteration=1, n_runners_up=1,
                   encoding='dense')
        ctx.count('huge-group:%d-cells' % (n // 1000 * 1000))
        table = {}
        base = run_one(ctx, problem, cfg, table, 'huge-base')
        cells = list(zip(ids, X))
        # the tail of the file and a random sample, mapped as a small file
        for kind, pick in (('huge-tail', cells[-30:]),
                           ('huge-sample', rng.sample(cells, 30))):
            d = copy.deepcopy(problem)
            d['cell_ids'] = [c for c, _ in pick]
            d['X'] = [list(x) for _, x in pick]
            dc = dict(cfg, chunk_size=rng.randint(5, 40),
                      rng_seed=rng.randrange(1, 10000))
            check_pair(ctx, problem, cfg, d, dc, kind, base_run=base,
                       table=table)


def check_choose_node(ctx, case):
    """the real choose_node at bootstrap factor 1 against an independent
    arg-max of the Pearson correlation (numpy only): many candidate types,
    few query cells -- index arrays must not be narrowed to the cell count"""
    import numpy as np
    from cell_type_mapper.type_assignment.election import choose_node
    g = np.random.default_rng(case['seed'])
    n_types, n_ref, n_q, n_genes = (case['n_types'], case['n_ref'],
                                    case['n_query'], case['n_genes'])
    ref = g.random((n_ref, n_genes)) * 6.0
    types_of_row = [i % n_types for i in range(n_ref)]
    g.shuffle(types_of_row)
    names = ['t%07d' % t for t in types_of_row]
    rank = {t: i for i, t in enumerate(sorted(set(names)))}
    targets = []
    for _ in range(n_q):
        r = g.random()
        cands = [i for i, nm in enumerate(names)
                 if (rank[nm] >= 256 if r < 0.7 else True)] or \
            list(range(n_ref))
        targets.append(int(cands[int(g.integers(len(cands)))]))
    query = ref[targets] + g.normal(0, 0.02, (n_q, n_genes))
    # independent expectation
    qc = query - query.mean(axis=1, keepdims=True)
    rc = ref - ref.mean(axis=1, keepdims=True)
    corr = (qc @ rc.T) / np.outer(np.sqrt((qc ** 2).sum(axis=1)),
                                  np.sqrt((rc ** 2).sum(axis=1)))
    best = corr.argmax(axis=1)
    margin = np.sort(corr, axis=1)
    ctx.case(json.dumps(case, sort_keys=True) if n_types > 1 else None,
             sample=dict(case, kind='choose_node'))
    ctx.count('choose_node:types:%s' % (
        '<=256' if n_types <= 256 else '257-65536' if n_types <= 65536
        else '>65536'))
    ctx.count('choose_node:cells:%s' % ('<=255' if n_q <= 255 else '>=256'))
    res, prob, avg, runners = choose_node(
        query_gene_data=query, reference_gene_data=ref,
        reference_types=list(names), bootstrap_factor=1.0,
        bootstrap_iteration=case['iterations'],
        rng=np.random.default_rng(case['seed'] + 1),
        n_assignments=case['n_assignments'])
    for i in range(n_q):
        if margin[i, -1] - margin[i, -2] < 1e-6:
            continue     # a genuine near tie: nothing to demand
        want = names[best[i]]
        fail = None
        if str(res[i]) != want:
            fail = ('assignment', 'assigned %r (p=%r, corr=%r), the best '
                    'correlated reference row belongs to %r (corr=%r)'
                    % (str(res[i]), float(prob[i]), float(avg[i]), want,
                       float(corr[i, best[i]])))
        elif float(prob[i]) != 1.0:
            fail = ('probability', 'probability %r' % float(prob[i]))
        elif not U.close(float(avg[i]), float(corr[i, best[i]])):
            fail = ('correlation', 'avg_corr %r, exact %r'
                    % (float(avg[i]), float(corr[i, best[i]])))
        if fail:
            ctx.violation(
                'C06/unit-choose-node/%s' % fail[0],
                'choose_node, %d candidate types, %d reference rows, %d query '
                'cells, cell %d: %s' % (n_types, n_ref, n_q, i, fail[1]),
                dict(case, kind='choose_node'))
            return False
    return True


def run_choose_node(ctx, quick):
    rng = ctx.rng
    shapes = [(257, 1), (256, 3), (255, 5), (300, 255), (300, 256),
              (rng.randint(258, 400), rng.randint(1, 40)),
              (rng.randint(258, 2000), rng.randint(1, 255)),
              (65537, 2), (65536, 1), (rng.randint(65537, 70000), 3)]
    if not quick:
        shapes += [(rng.randint(257, 5000), rng.randint(1, 300))
                   for _ in range(30)]
        shapes += [(66000, 300), (65537, 256)]
    for n_types, n_q in shapes:
        dup = rng.random() < 0.3 and n_types < 5000
        check_choose_node(ctx, {
            'n_types': n_types,
            'n_ref': n_types + (rng.randint(1, 40) if dup else 0),
            'n_query': n_q, 'n_genes': rng.randint(4, 7),
            'iterations': rng.choice([1, 3]),
            'n_assignments': rng.randint(1, 5),
            'seed': rng.randrange(10 ** 6)})


def run(ctx):
    quick = ctx.tier == 'quick'
    c01.run_corpus(ctx, 'C06', replay)
    run_units(ctx, 60 if quick else 400)
    run_pairs(ctx, 24 if quick else 150,
              KINDS_QUICK if quick else KINDS_THOROUGH)
    run_choose_node(ctx, quick)
    run_wide_pairs(ctx, 2 if quick else 10)
    run_huge_groups(ctx, 1 if quick else 4)


def replay(ctx, data, from_corpus=False):
    d = data.get('detail', data)
    kind = d.get('kind')
    if kind == 'pair':
        check_pair(ctx, d['problem'], d['config'], d['derived_problem'],
                   d['derived_config'], d.get('derivation', 'replay'),
                   copies=d.get('copies'), share=d.get('share'))
    elif kind == 'single':
        check_single(ctx, d['problem'], d['config'])
    elif kind == 'choose_node':
        check_choose_node(ctx, {k: v for k, v in d.items() if k != 'kind'})
    elif kind == 'unit':
        c01.check_unit(ctx, d['tree'], d['kappas'],
                       c01.script_from_list(d['script']),
                       d.get('mode', 'valid'), prop='C06')
    elif not from_corpus:
        print('nothing to replay for kind', kind)
