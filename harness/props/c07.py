"""
C07 — mapping is invariant to count scale, declared normalisation and gene
order; raw input with a negative value is rejected.

Tie: hand-written Lean model CTM/Model/Normalize.lean (driver ops norm.*) vs
 * convert_to_cpm, is_data_ge_zero, CellByGeneMatrix on generated inputs
   (unit level, exact rationals shipped to the model), and
 * paired REAL runs of the from_specified_markers mapper on small generated
   problems: (raw, declared raw) vs (numpy log2(CPM+1), declared log2CPM);
   per-cell scale factors; gene permutations; extra / removed non-marker
   genes; a negative entry in every encoding/dtype.
Every check function takes explicit data (the replay `detail`); generators
are separate.
"""
import gc
import json
import os
import math
import pathlib
import warnings

import numpy as np

from ctmverif import core, pipeline
from ctmverif import c07_util as U

RULE = ('unit: float matrices (integer counts, all-zero rows, single column, '
        'magnitudes 1e-30..1e30, float32-valued) for convert_to_cpm; h5ad '
        'files dense/csr/csc x float32/float64/int32/int64/uint16 with 0..3 '
        'negative entries at first/last/inner/chunk-border positions and '
        'explicit small HDF5 chunks for is_data_ge_zero; CellByGeneMatrix '
        'chunk preparation incl. duplicate/unknown/miscounted genes. '
        'pipeline: generated problems (<=12 cells, <=15 genes, depth<=3, '
        'integer counts with positive row sums; also stored as '
        'uint8/uint16/int16/int32/uint32 dense/csr/csc with per-cell totals '
        'beyond the dtype range; also queries of 300-600 columns with the '
        'markers beyond column 255) x relations declared / scale '
        '/ gene-permutation (raw and log2CPM) / extra-genes / negative (3 '
        'encodings x 4 dtypes) / same-process histories (one query path '
        'rewritten in place clean <-> one negative entry, same byte size, '
        'through run_mapping with tmp_dir=None and through '
        'run_type_assignment_on_h5ad). non-trivial = tree with >=2 leaves and a '
        'non-identity variant (pipeline), a positive-sum row with >=2 '
        'non-zero entries (cpm), any non-empty matrix (ge_zero), >=1 node '
        'marker or a malformed input (node); distinct by canonical JSON of '
        'the case data')
TRUSTED = ['numpy.log2 / numpy.sum as the independent normaliser of the '
           'variant inputs', 'anndata.write_h5ad + h5py read-back of what is '
           'stored in the query file',
           'json round trip of Python floats (repr is exact)']
ASSUMPTIONS = ['float relations (declared, scale) are compared with '
               'tolerance 1e-9 and differences between candidates whose '
               'correlations are within 1e-6 are excused (near ties)',
               'cells whose marker values are all equal at some parent '
               '(correlation 0/0) are excluded from the float relations',
               'the model uses f = id for log2(1+x); the harness applies '
               'numpy.log2(1+.) to the model value']

FLOAT_DTYPES = ['float32', 'float64']
NEG_DTYPES = ['float32', 'float64', 'int32', 'int64']
INT_DTYPES = ['uint8', 'uint16', 'int16', 'int32', 'uint32']
ENCODINGS = ['dense', 'csr', 'csc']


def jkey(*parts):
    return json.dumps(core.jsonable(parts), sort_keys=True)


# ===========================================================================
# (A1) convert_to_cpm
# ===========================================================================

def check_cpm(ctx, d):
    """d: kind=cpm, X (rows of floats, >= 0 unless label signed), k (one
    positive factor per row), label"""
    from cell_type_mapper.cell_by_gene.utils import convert_to_cpm
    X = np.array(d['X'], dtype=np.float64)
    if X.ndim != 2:
        X = X.reshape((len(d['X']), 0))
    k = np.array(d['k'], dtype=np.float64)
    label = d.get('label', 'replay')
    ctx.count('cpm:' + label)
    # the dtype the raw counts are STORED in (narrow integers: the row total
    # may exceed the dtype's range); the scaled copy is always float64
    store = np.dtype(d.get('dtype', 'float64'))
    if store != np.float64:
        ctx.count('cpm:dtype=' + store.name)
    with np.errstate(all='ignore'):
        out = np.array(convert_to_cpm(X.astype(store)), dtype=np.float64)
        out_k = np.array(convert_to_cpm((X.transpose() * k).transpose()))
    nonneg = bool((X >= 0).all())
    nontriv = any(r.sum() > 0 and (r != 0).sum() >= 2 for r in X) \
        if nonneg else False
    ctx.case(jkey('cpm', d['X'], d['k']) if nontriv else None,
             sample={'kind': 'cpm', 'X': d['X'][:3], 'out': out[:3]})
    failed = False
    if out.shape != X.shape:
        ctx.violation('C07/unit/cpm/shape', 'convert_to_cpm changes the '
                      'shape %r -> %r' % (X.shape, out.shape), d)
        return
    if nonneg:
        for i in range(X.shape[0]):
            s = math.fsum(X[i])
            if s > 0:
                if not U.close(math.fsum(out[i]), 1.0e6, rel=1e-9, abs_=0.0):
                    ctx.violation(
                        'C07/unit/cpm/row-sum',
                        'row %d of convert_to_cpm sums to %r, not 1e6'
                        % (i, math.fsum(out[i])), d)
                    failed = True
                    break
                # independent value
                want = [1.0e6 * float(v) / s for v in X[i]]
                if not all(U.close(a, b, rel=1e-9, abs_=0.0)
                           for a, b in zip(out[i], want)):
                    ctx.violation(
                        'C07/unit/cpm/value',
                        'row %d of convert_to_cpm is %r, expected %r'
                        % (i, out[i].tolist(), want), d)
                    failed = True
                    break
            else:
                if (out[i] != 0).any():
                    ctx.violation(
                        'C07/unit/cpm/zero-row',
                        'all-zero row %d becomes %r' % (i, out[i].tolist()),
                        d)
                    failed = True
                    break
            if not all(U.close(a, b, rel=1e-9, abs_=0.0)
                       for a, b in zip(out[i], out_k[i])):
                ctx.violation(
                    'C07/unit/cpm/scale',
                    'row %d: convert_to_cpm(k*x) = %r but convert_to_cpm(x) '
                    '= %r (k=%r)' % (i, out_k[i].tolist(), out[i].tolist(),
                                     float(k[i])), d)
                failed = True
                break
    if ctx.driver_ok and X.shape[1] > 0:
        model = ctx.model('norm.cpm', {'X': U.fr_rows(X.tolist())})
        ctx.traces += 1
        ok = len(model) == X.shape[0]
        where = None
        for i in range(X.shape[0]):
            if not ok:
                break
            for j in range(X.shape[1]):
                if not U.rel_close_exact(out[i, j], U.F(model[i][j]), 1e-12):
                    ok = False
                    where = (i, j, float(out[i, j]), model[i][j])
                    break
        if not ok:
            ctx.disagreements_checked += 1
            if not failed:
                dd = dict(d)
                dd.update({'where': where,
                           'broken': 'correspondence CTM.Normalize.'
                                     'convertToCpm ~ convert_to_cpm'})
                ctx.violation('C07/correspondence/cpm',
                              'correspondence norm.cpm no longer checks at %r'
                              % (where,), dd, found_input=False)


def gen_cpm(rng, nprng, i):
    n = rng.randint(1, 5)
    g = 1 if i % 11 == 0 else rng.randint(1, 6)
    mode = ['counts', 'counts', 'sparse-counts', 'float', 'float32', 'wide',
            'tiny', 'huge', 'signed', 'deep-int'][i % 10]
    dtype = 'float64'
    if mode == 'deep-int':
        # raw counts stored in a narrow integer dtype, a few genes with
        # counts near the dtype's maximum: the cell total exceeds the range
        dtype = INT_DTYPES[(i // 10) % len(INT_DTYPES)]
        X = U.deep_counts(rng, nprng, n, max(g, 2), dtype)
        g = X.shape[1]
    elif mode == 'counts':
        X = nprng.integers(0, 50, (n, g)).astype(float)
    elif mode == 'sparse-counts':
        X = nprng.integers(0, 5000, (n, g)).astype(float)
        X[nprng.random((n, g)) < 0.6] = 0.0
    elif mode == 'float':
        X = nprng.random((n, g)) * 100.0
    elif mode == 'float32':
        X = (nprng.random((n, g)) * 1000.0).astype(np.float32).astype(float)
    elif mode == 'wide':
        X = 10.0 ** nprng.uniform(-30, 30, (n, g))
    elif mode == 'tiny':
        X = nprng.random((n, g)) * 1e-30
    elif mode == 'huge':
        X = np.floor(nprng.random((n, g)) * 1e30)
    else:
        # small signed integers: exact sums, exercises the (row_sum > 0)
        # switch of the model; no predicate besides the correspondence
        X = nprng.integers(-6, 7, (n, g)).astype(float)
    if mode != 'signed' and rng.random() < 0.3:
        X[rng.randrange(n)] = 0.0
    if rng.random() < 0.5:
        k = [float(rng.randint(1, 1000)) for _ in range(n)]
    else:
        k = [float(10.0 ** rng.uniform(-3, 3)) for _ in range(n)]
    if mode == 'deep-int':
        k = [float(rng.randint(2, 9)) for _ in range(n)]
    return {'kind': 'cpm', 'X': X.tolist(), 'k': k, 'label': mode,
            'dtype': dtype}


# ===========================================================================
# (A2) is_data_ge_zero
# ===========================================================================

def check_ge_zero(ctx, d, scratch):
    """d: kind=ge_zero, X (nested list), dtype, encoding, chunk"""
    from cell_type_mapper.validation.utils import is_data_ge_zero
    dtype = d['dtype']
    enc = d['encoding']
    chunk = d.get('chunk')
    path = pathlib.Path(scratch) / 'ge_zero.h5ad'
    if path.exists():
        path.unlink()
    try:
        info = U.write_matrix_file(path, d['X'], dtype, enc, chunk)
    except Exception as e:
        if U.is_unsigned(dtype):
            ctx.count('ge_zero:unsigned-not-writable')
            return
        raise core.InfraError('cannot write h5ad fixture: %r' % (e,))
    arr = np.array(d['X'], dtype=np.dtype(dtype))
    unsigned = U.is_unsigned(dtype)
    with pipeline.quiet():
        try:
            flag, mn = is_data_ge_zero(str(path), layer='X')
            impl_err = None
        except Exception as e:    # noqa
            flag, mn = None, None
            impl_err = e
    n_neg = int((arr < 0).sum()) if arr.size else 0
    ctx.count('ge_zero:%s/%s/%s' % (enc, dtype,
                                    'chunked' if info['chunks'] else
                                    'contiguous'))
    ctx.count('ge_zero:negatives=%s' % (n_neg if n_neg < 2 else '2+'))
    ctx.case(jkey('ge', d['X'], dtype, enc, chunk) if arr.size else None,
             sample={'kind': 'ge_zero', 'dtype': dtype, 'encoding': enc,
                     'chunks': info['chunks'], 'flag': flag, 'min': mn})
    failed = False
    if impl_err is not None:
        if arr.size:
            ctx.violation('C07/unit/ge_zero/raises',
                          'is_data_ge_zero raises %r' % (impl_err,), d)
            failed = True
    else:
        true_min = arr.min() if arr.size else 0
        want = bool(true_min >= 0)
        if bool(flag) != want:
            ctx.violation(
                'C07/unit/ge_zero/flag',
                'is_data_ge_zero says %r for a %s %s matrix (chunks %r) '
                'whose minimum is %r' % (flag, enc, dtype, info['chunks'],
                                         true_min), d)
            failed = True
    if ctx.driver_ok and arr.size:
        stored = info['stored']
        if enc == 'dense':
            inp = {'X': U.fr_rows(stored.tolist()), 'width': arr.shape[1],
                   'chunk': None if info['chunks'] is None
                   else [int(c) for c in info['chunks']],
                   'unsigned': unsigned, 'norm': 'raw'}
            op = 'norm.minDense'
            fn = 'minDense ~ _get_minmax_from_dense'
        else:
            inp = {'stored': [U.fr(v) for v in stored.tolist()],
                   'chunk': None if info['chunks'] is None
                   else int(info['chunks'][0]),
                   'unsigned': unsigned, 'norm': 'raw'}
            op = 'norm.minSparse'
            fn = 'minSparse ~ _get_minmax_from_sparse'
        out = ctx.model(op, inp)
        ctx.traces += 1
        g = out['geZero']
        if 'ok' in g:
            model = (bool(g['ok'][0]), U.F(g['ok'][1]))
            model_check = 'ok' if 'ok' in out['check'] else \
                out['check']['err']
        else:
            model = ('err', g['err'])
            model_check = g['err']
        if 'ok' not in g:
            model = ('err', U.model_err_class(g['err']))
        if impl_err is not None:
            impl = ('err', U.classify_error(impl_err))
        else:
            impl = (bool(flag), U.as_fraction(mn))
        same = (impl == model)
        if same and impl_err is None:
            same = (model_check == ('ok' if flag else 'negativeRaw'))
        if not same:
            ctx.disagreements_checked += 1
            if not failed:
                dd = dict(d)
                dd.update({'impl': repr(impl), 'model': out,
                           'chunks': info['chunks'],
                           'broken': 'correspondence CTM.Normalize.' + fn})
                ctx.violation('C07/correspondence/ge_zero/' + enc,
                              'correspondence %s no longer checks: impl=%r '
                              'model=%r' % (op, impl, model), dd,
                              found_input=False)


def gen_ge_zero(rng, nprng, i):
    enc = ENCODINGS[i % 3]
    dtype = ['float32', 'float64', 'int32', 'int64', 'uint16',
             'float64', 'float32'][(i // 3) % 7]
    n = rng.randint(1, 7)
    g = rng.randint(1, 8)
    integer = not dtype.startswith('float')
    mode = rng.choice(['counts', 'counts', 'zeros', 'sparse', 'float'])
    if mode == 'zeros':
        X = np.zeros((n, g))
    elif mode == 'sparse':
        X = nprng.integers(1, 200, (n, g)).astype(float)
        X[nprng.random((n, g)) < 0.7] = 0.0
    elif mode == 'float' and not integer:
        X = np.round(nprng.random((n, g)) * 64.0, 3)
    else:
        X = nprng.integers(0, 30, (n, g)).astype(float)
    # chunking
    chunk = None
    if rng.random() < 0.6:
        if enc == 'dense':
            chunk = [rng.randint(1, n), rng.randint(1, g)]
        else:
            chunk = rng.choice([0, 1, 1, 2, 3, 4])
    # negatives
    n_neg = 0 if dtype.startswith('uint') else rng.choice([0, 0, 1, 1, 1, 2, 3])
    cells = [(0, 0), (n - 1, g - 1), (n - 1, 0), (0, g - 1)]
    if chunk is not None and enc == 'dense':
        r, c = chunk
        cells += [(min(n - 1, r), min(g - 1, c)),
                  (min(n - 1, r - 1 if r > 1 else 0), min(g - 1, c)),
                  (min(n - 1, r), min(g - 1, c - 1 if c > 1 else 0))]
    for _ in range(n_neg):
        if rng.random() < 0.6:
            a, b = rng.choice(cells)
        else:
            a, b = rng.randrange(n), rng.randrange(g)
        if integer or rng.random() < 0.5:
            X[a, b] = -float(rng.randint(1, 9))
        else:
            X[a, b] = -rng.choice([0.5, 0.125, 1e-3, 2.75, 1e-20])
    if dtype == 'float32':
        X = X.astype(np.float32).astype(float)
    return {'kind': 'ge_zero', 'X': X.tolist(), 'dtype': dtype,
            'encoding': enc, 'chunk': chunk}


# ===========================================================================
# (A3) CellByGeneMatrix: the per-chunk preparation of election.py
# ===========================================================================

def _impl_node(X, genes, norm, all_markers, node_markers):
    """(chunk, node): chunk = ('ok', data, genes) | ('err', enum)"""
    from cell_type_mapper.cell_by_gene.cell_by_gene import CellByGeneMatrix
    with np.errstate(all='ignore'):
        stage = 'construct'
        try:
            m = CellByGeneMatrix(data=X.copy(), gene_identifiers=list(genes),
                                 normalization=norm)
            stage = 'normalise'
            if m.normalization != 'log2CPM':
                m.to_log2CPM_in_place()
            stage = 'downsample'
            m.downsample_genes_in_place(list(all_markers))
        except Exception as e:    # noqa
            err = '%s@%s' % (U.classify_error(e), stage)
            return ('err', err), ('err', err)
        chunk = ('ok', np.array(m.data), list(m.gene_identifiers))
        try:
            node = m.downsample_genes(selected_genes=list(node_markers))
        except Exception as e:    # noqa
            return chunk, ('err', '%s@downsample' % U.classify_error(e))
        return chunk, ('ok', np.array(node.data), list(node.gene_identifiers),
                       node)


_NODE_STAGE = {'badNormalization': 'construct',
               'geneCountMismatch': 'construct', 'dupGenes': 'construct',
               'notRaw': 'normalise', 'genesDownsampled': 'normalise',
               'dupSelected': 'downsample', 'keyError': 'downsample'}


def _model_node_err(name):
    """the model's error constructor as 'exception class @ stage of the chunk
    preparation' (construct / normalise / downsample)"""
    return '%s@%s' % (U.model_err_class(name), _NODE_STAGE.get(name, '?'))


def _rows_match(impl, model_rows, norm):
    """impl: 2-d array; model_rows: rows of [n, d]"""
    if impl.shape[0] != len(model_rows):
        return False
    for i, row in enumerate(model_rows):
        if impl.shape[1] != len(row):
            return False
        for j, p in enumerate(row):
            mv = U.F(p)
            if norm == 'raw':
                if not U.close(impl[i, j], np.log2(1.0 + float(mv))):
                    return False
            else:
                if U.as_fraction(impl[i, j]) != mv:
                    return False
    return True


def check_node(ctx, d):
    """d: kind=node, X, genes, norm, allMarkers, nodeMarkers, label,
    perm (optional permutation of the columns), extra (optional list of
    [position, name, column]) , integer (raw counts are integers)"""
    from cell_type_mapper.cell_by_gene.cell_by_gene import CellByGeneMatrix
    genes = list(d['genes'])
    norm = d['norm']
    am = list(d['allMarkers'])
    nm = list(d['nodeMarkers'])
    X = np.array(d['X'], dtype=np.float64)
    if X.ndim != 2:
        X = X.reshape((len(d['X']), d.get('width', 0)))
    label = d.get('label', 'replay')
    ctx.count('node:%s/%s' % (norm, label))
    store = np.dtype(d.get('dtype', 'float64'))
    if store != np.float64:
        ctx.count('node:dtype=' + store.name)
    chunk, node = _impl_node(X.astype(store), genes, norm, am, nm)
    ctx.count('node:impl=%s' % (node[0] if node[0] == 'ok' else node[1]))
    ctx.case(jkey('node', d['X'], genes, norm, am, nm)
             if (node[0] != 'ok' or len(nm) >= 1) else None,
             sample={'kind': 'node', 'genes': genes, 'norm': norm,
                     'allMarkers': am, 'nodeMarkers': nm,
                     'impl': node[0] if node[0] == 'ok' else node[1]})
    failed = False
    well_formed = (len(genes) == X.shape[1] and len(set(genes)) == len(genes)
                   and len(set(am)) == len(am) and len(set(nm)) == len(nm)
                   and set(am) <= set(genes) and set(nm) <= set(am))
    col = {}
    for j, gname in enumerate(genes):
        col.setdefault(gname, j)
    if well_formed and node[0] != 'ok':
        ctx.violation('C07/unit/node/rejects-valid',
                      'chunk preparation fails on a well-formed input: %r'
                      % (node[1],), d)
        failed = True
    if well_formed and node[0] == 'ok':
        ndata = node[1]
        # (iv) normalised over ALL genes, addressed by name
        idx = [col[gname] for gname in nm]
        if norm == 'raw':
            with np.errstate(all='ignore'):
                s = X.sum(axis=1)
                s = np.where(s > 0, s, 1.0)
                want = np.log2(1.0 + 1.0e6 * X[:, idx] / s[:, None])
            good = ndata.shape == want.shape and all(
                U.close(a, b) for a, b in zip(ndata.ravel(), want.ravel()))
            if not good:
                # renormalised over the selected genes?
                with np.errstate(all='ignore'):
                    sub = X[:, [col[gname] for gname in am]]
                    s2 = sub.sum(axis=1)
                    s2 = np.where(s2 > 0, s2, 1.0)
                    alt = np.log2(1.0 + 1.0e6 * X[:, idx] / s2[:, None])
                renorm = ndata.shape == alt.shape and all(
                    U.close(a, b) for a, b in zip(ndata.ravel(), alt.ravel()))
                ctx.violation(
                    'C07/unit/guard/renormalised' if renorm else
                    'C07/unit/node/value',
                    'node data of raw input is not log2(1+CPM over all '
                    'genes): got %r want %r' % (ndata.tolist()[:2],
                                                want.tolist()[:2]), d)
                failed = True
        else:
            want = X[:, idx]
            if ndata.shape != want.shape or not (ndata == want).all():
                ctx.violation('C07/unit/node/value',
                              'node data of log2CPM input is not the '
                              'selected columns', d)
                failed = True
        if node[2] != nm:
            ctx.violation('C07/unit/node/genes',
                          'node gene identifiers %r != selected %r'
                          % (node[2], nm), d)
            failed = True
        # (i) the guard: no normalisation after genes were removed
        for how in ('in_place', 'copy'):
            stage = 'setup'
            try:
                m = CellByGeneMatrix(data=X.copy(),
                                     gene_identifiers=list(genes),
                                     normalization='raw')
                if how == 'in_place':
                    m.downsample_genes_in_place(list(am))
                else:
                    m = m.downsample_genes(list(am))
                stage = 'downsampled'
                with np.errstate(all='ignore'):
                    m.to_log2CPM_in_place()
                got = 'ok'
            except Exception as e:    # noqa
                got = '%s@%s' % (U.classify_error(e), stage)
            # the situation decides: a raw matrix that HAS been down-selected
            # by gene must refuse to normalise (any RuntimeError raised by
            # that call in that state is the refusal; the same call on the
            # full matrix succeeds -- checked by the value predicate above)
            if got != 'RuntimeError@downsampled':
                ctx.violation('C07/unit/guard/renormalise-allowed',
                              'to_log2CPM_in_place() on a raw matrix after '
                              'downsample_genes%s gives %r, expected it to '
                              'raise a RuntimeError'
                              % ('_in_place' if how == 'in_place' else '',
                                 got), d)
                failed = True
                break
        # (ii) name addressing under a column permutation
        perm = d.get('perm')
        if perm is not None and not failed:
            Xp = X[:, perm]
            gp = [genes[j] for j in perm]
            _, node_p = _impl_node(Xp, gp, norm, am, nm)
            bitwise = (norm == 'log2CPM') or bool(d.get('integer'))
            if node_p[0] != 'ok':
                same = False
            elif bitwise:
                same = node_p[1].shape == ndata.shape and \
                    node_p[1].tobytes() == ndata.tobytes()
            else:
                same = node_p[1].shape == ndata.shape and all(
                    U.close(a, b) for a, b in zip(node_p[1].ravel(),
                                                  ndata.ravel()))
            ctx.evaluations += 1
            ctx.count('node:perm-%s' % ('bitwise' if bitwise else 'tolerant'))
            if not same:
                ctx.violation('C07/unit/node/gene-permutation',
                              'permuting columns together with their names '
                              'changes the node data (%s)' % norm, d)
                failed = True
        # (iii) extra genes, normalised input
        extra = d.get('extra')
        if extra and norm == 'log2CPM' and not failed:
            cols = [X[:, j] for j in range(X.shape[1])]
            gx = list(genes)
            for pos, name, values in extra:
                pos = min(int(pos), len(cols))
                cols.insert(pos, np.array(values, dtype=np.float64))
                gx.insert(pos, name)
            Xx = np.stack(cols, axis=1) if cols else X
            _, node_x = _impl_node(Xx, gx, norm, am, nm)
            ctx.evaluations += 1
            ctx.count('node:extra-genes')
            if node_x[0] != 'ok' or node_x[1].shape != ndata.shape or \
                    node_x[1].tobytes() != ndata.tobytes():
                ctx.violation('C07/unit/node/extra-genes',
                              'extra non-marker genes change the node data '
                              'of normalised input', d)
                failed = True
    # model correspondence
    if ctx.driver_ok:
        ids = {}
        for name in list(genes) + am + nm:
            ids.setdefault(name, len(ids))
        out = ctx.model('norm.node', {
            'X': U.fr_rows(X.tolist()), 'width': int(X.shape[1]),
            'genes': [ids[x] for x in genes], 'norm': norm,
            'allMarkers': [ids[x] for x in am],
            'nodeMarkers': [ids[x] for x in nm]})
        ctx.traces += 1
        back = {v: k for k, v in ids.items()}
        what = None
        mc = out['chunk']
        if 'err' in mc:
            if chunk != ('err', _model_node_err(mc['err'])):
                what = 'chunk: impl=%r model=%r' % (chunk[:2][-1] if chunk[0]
                                                    == 'err' else 'ok',
                                                    mc['err'])
        else:
            if chunk[0] != 'ok':
                what = 'chunk: impl=%r model=ok' % (chunk[1],)
            elif [back[x] for x in mc['ok']['genes']] != chunk[2]:
                what = 'chunk genes'
            elif not _rows_match(chunk[1], mc['ok']['data'], norm):
                what = 'chunk data'
            elif out['renormAfterDownsample'] != {'err': 'genesDownsampled'}:
                what = 'model allows renormalisation'
        mn = out['node']
        if what is None:
            if 'err' in mn:
                want = _model_node_err(mn['err'])
                if 'err' not in mc:
                    want = U.model_err_class(mn['err']) + '@downsample'
                if node[:2] != ('err', want):
                    what = 'node: impl=%r model=%r' % (
                        node[1] if node[0] == 'err' else 'ok', mn['err'])
            else:
                if node[0] != 'ok':
                    what = 'node: impl=%r model=ok' % (node[1],)
                elif not _rows_match(node[1], mn['ok'], norm):
                    what = 'node data'
        if what is not None:
            ctx.disagreements_checked += 1
            if not failed:
                dd = dict(d)
                dd.update({'what': what, 'model': out,
                           'broken': 'correspondence CTM.Normalize.nodeData '
                                     '~ CellByGeneMatrix chunk preparation '
                                     '(election.py)'})
                ctx.violation('C07/correspondence/node',
                              'correspondence norm.node no longer checks: '
                              + what, dd, found_input=False)


def gen_node(rng, nprng, i):
    n = rng.randint(0, 4) if i % 13 == 0 else rng.randint(1, 4)
    g = rng.randint(1, 8)
    names = ['G%d' % j for j in rng.sample(range(40), g)]
    norm = 'raw' if i % 2 == 0 else 'log2CPM'
    integer = False
    dtype = 'float64'
    if norm == 'raw':
        if i % 8 == 4 and n >= 1:
            dtype = INT_DTYPES[(i // 8) % len(INT_DTYPES)]
            g = max(g, 2)
            names = ['G%d' % j for j in rng.sample(range(40), g)]
            X = U.deep_counts(rng, nprng, n, g, dtype)
            integer = True
        elif i % 4 == 0:
            X = nprng.integers(0, 60, (n, g)).astype(float)
            integer = True
        else:
            X = np.round(nprng.random((n, g)) * 50.0, 4)
        if n and rng.random() < 0.2:
            X[rng.randrange(n)] = 0.0
    else:
        X = nprng.random((n, g)) * 14.0
        X[nprng.random((n, g)) < 0.3] = 0.0
    am = rng.sample(names, rng.randint(0 if i % 17 == 0 else 1, g))
    nm = rng.sample(am, rng.randint(0 if i % 19 == 0 else min(1, len(am)),
                                    len(am))) if am else []
    d = {'kind': 'node', 'X': X.tolist(), 'width': g, 'genes': names,
         'norm': norm, 'allMarkers': am, 'nodeMarkers': nm,
         'integer': integer, 'label': 'valid', 'dtype': dtype}
    r = rng.random()
    if r < 0.55:
        perm = list(range(g))
        rng.shuffle(perm)
        d['perm'] = perm
        if norm == 'log2CPM':
            extra = []
            for e in range(rng.randint(1, 3)):
                extra.append([rng.randint(0, g + e), 'X%d' % e,
                              (nprng.random(n) * 14.0).tolist()])
            d['extra'] = extra
        return d
    # malformed stream
    kind = rng.choice(['dup-genes', 'wrong-count', 'dup-selected-all',
                       'dup-selected-node', 'unknown-all', 'unknown-node',
                       'node-not-in-all', 'dup-and-count'])
    d['label'] = kind
    if kind == 'dup-genes' and g >= 2:
        a, b = rng.sample(range(g), 2)
        d['genes'] = list(names)
        d['genes'][a] = names[b]
    elif kind == 'wrong-count':
        if rng.random() < 0.5 and g >= 2:
            d['genes'] = names[:-1]
        else:
            d['genes'] = names + ['Gx']
    elif kind == 'dup-selected-all' and am:
        d['allMarkers'] = am + [rng.choice(am)]
    elif kind == 'dup-selected-node' and nm:
        d['nodeMarkers'] = nm + [rng.choice(nm)]
    elif kind == 'unknown-all':
        d['allMarkers'] = am + ['Gunknown']
        rng.shuffle(d['allMarkers'])
    elif kind == 'unknown-node':
        d['nodeMarkers'] = nm + ['Gunknown']
        rng.shuffle(d['nodeMarkers'])
    elif kind == 'node-not-in-all':
        rest = [x for x in names if x not in am]
        if rest:
            d['nodeMarkers'] = nm + [rng.choice(rest)]
    elif kind == 'dup-and-count' and g >= 2:
        d['genes'] = names[:-1] + [names[0], 'Gy']
    return d


# ===========================================================================
# (B) pipeline level
# ===========================================================================

def _write_problem(dirpath, prob):
    dirpath = pathlib.Path(dirpath)
    stats = pipeline.write_stats_file(
        dirpath / 'stats.h5', prob['tree'], prob['ref_genes'],
        {k: np.array(v, dtype=float) for k, v in prob['leaf_sum'].items()},
        prob['leaf_n'])
    m = dirpath / 'markers.json'
    m.write_text(json.dumps(prob['markers']))
    return stats, m


def _run_one(scratch, stats, markers, q, cfg, tag, cache=None):
    """q: dict(X, genes, cell_ids, normalization, encoding, dtype)"""
    key = None
    if cache is not None:
        key = jkey(q, cfg)
        if key in cache:
            return cache[key]
    scratch = pathlib.Path(scratch)
    out = scratch / ('out_' + tag)
    tmp = scratch / ('tmp_' + tag)
    for p in (out, tmp):
        if p.exists():
            import shutil
            shutil.rmtree(p)
        p.mkdir()
    qpath = scratch / ('query_%s.h5ad' % tag)
    if qpath.exists():
        qpath.unlink()
    X = np.array(q['X'], dtype=np.dtype(q.get('dtype', 'float64')))
    if q.get('perm_on_csr') is not None:
        # the columns are permuted ON the csr matrix: the file keeps each
        # row's column indices out of order (legal CSR; what scipy
        # X[:, perm] / adata[:, genes].copy() produce)
        U.write_h5ad_csr_permuted(qpath, X, q['perm_on_csr'], q['cell_ids'],
                                  q['genes'])
    else:
        pipeline.write_h5ad(qpath, X, q['cell_ids'], q['genes'],
                            encoding=q.get('encoding', 'dense'))
    config = pipeline.mapping_config(
        qpath, stats, markers, out, tmp,
        n_processors=cfg.get('n_processors', 2),
        chunk_size=cfg.get('chunk_size', 10),
        bootstrap_factor=cfg['bootstrap_factor'],
        bootstrap_iteration=cfg.get('bootstrap_iteration', 10),
        rng_seed=cfg.get('rng_seed', 11),
        normalization=q['normalization'], min_markers=1,
        max_gb=cfg.get('max_gb', 1.0))
    trace = scratch / ('trace_' + tag)
    for f in scratch.glob('trace_%s.*' % tag):
        f.unlink()
    os.environ['CELL_TYPE_MAPPER_VERIF_TRACE'] = str(trace)
    try:
        res = pipeline.run_mapping(config)
    finally:
        os.environ.pop('CELL_TYPE_MAPPER_VERIF_TRACE', None)
    chunks = []
    for f in scratch.glob('trace_%s.*' % tag):
        for line in f.read_text().splitlines():
            ev = json.loads(line)
            if ev.get('kind') == 'chunk':
                chunks.append([int(ev['r0']), int(ev['r1'])])
        f.unlink()
    err = res['error']
    res = {'ok': res['ok'], 'json': res['json'], 'qpath': qpath,
           'chunks': sorted(chunks),
           'error': None if err is None
           else '%s: %s' % (type(err).__name__, err)}
    if err is not None:
        # the exception keeps the mapper's FileTracker alive, whose __del__
        # prints; release it here, silently
        with pipeline.quiet():
            err = None
            gc.collect()
    if cache is not None:
        cache[key] = res
    return res


def _n_leaves(tree):
    return len(tree[tree['hierarchy'][-1]])


def check_pipeline(ctx, d, scratch, cache=None, skipped=None):
    """
    d: kind=pipeline, relation, problem{tree, ref_genes, leaf_sum, leaf_n,
    markers}, base{X, genes, cell_ids, normalization[, encoding, dtype]},
    variant{...same...}, config{bootstrap_factor, bootstrap_iteration,
    rng_seed, n_processors, chunk_size}, nontrivial
    """
    rel = d['relation']
    prob = d['problem']
    cfg = d['config']
    stats, markers = _write_problem(scratch, prob)
    hierarchy = prob['tree']['hierarchy']
    ctx.count('pipeline:' + rel)
    ntkey = jkey(rel, d.get('base'), d['variant'], prob['markers'], cfg) \
        if (_n_leaves(prob['tree']) >= 2 and d.get('nontrivial', True)) \
        else None

    if rel == 'negative':
        v = d['variant']
        res = _run_one(scratch, stats, markers, v, cfg, 'neg')
        ctx.case(ntkey, sample={'kind': 'pipeline', 'relation': rel,
                                'encoding': v.get('encoding'),
                                'dtype': v.get('dtype'),
                                'error': str(res['error'])[:120]})
        ctx.traces += 1
        ctx.count('pipeline:negative/%s/%s' % (v.get('encoding'),
                                               v.get('dtype')))
        has_results = isinstance(res['json'], dict) and \
            'results' in res['json']
        if res['ok'] or has_results:
            ctx.violation(
                'C07/pipeline/negative/mapped',
                'raw input with a negative value (%s, %s) was %s'
                % (v.get('encoding'), v.get('dtype'),
                   'mapped' if res['ok'] else
                   'rejected but results were written'), d)
            return
        model_ok = True
        if ctx.driver_ok:
            import h5py
            with h5py.File(res['qpath'], 'r') as f:
                if v.get('encoding', 'dense') == 'dense':
                    ds = f['X']
                    out = ctx.model('norm.minDense', {
                        'X': U.fr_rows(ds[()].tolist()),
                        'width': int(ds.shape[1]),
                        'chunk': None if ds.chunks is None
                        else [int(c) for c in ds.chunks],
                        'unsigned': U.is_unsigned(ds.dtype), 'norm': 'raw'})
                else:
                    ds = f['X/data']
                    out = ctx.model('norm.minSparse', {
                        'stored': [U.fr(x) for x in ds[()].tolist()],
                        'chunk': None if ds.chunks is None
                        else int(ds.chunks[0]),
                        'unsigned': U.is_unsigned(ds.dtype), 'norm': 'raw'})
            model_ok = out['check'] == {'err': 'negativeRaw'}
        # the rejection the property speaks of happens BEFORE any cell is
        # mapped: a RuntimeError, no chunk dispatched (hook trace); the
        # wording of the message is not looked at
        early = str(res['error']).startswith('RuntimeError') and \
            not res.get('chunks')
        if not early or not model_ok:
            ctx.disagreements_checked += 1
            dd = dict(d)
            dd.update({'error': str(res['error'])[:300],
                       'broken': 'correspondence CTM.Normalize.negativeCheck '
                                 '~ run_type_assignment_on_h5ad'})
            ctx.violation('C07/correspondence/negative',
                          'negative raw input is rejected, but not by the '
                          'minimum check: %r' % (res['error'],), dd,
                          found_input=False)
        return

    b = d['base']
    v = d['variant']
    if b.get('dtype', 'float64') != 'float64':
        ctx.count('pipeline:%s/stored-%s/%s' % (rel, b['dtype'],
                                                b.get('encoding', 'dense')))
    rb = _run_one(scratch, stats, markers, b, cfg, 'base', cache)
    if not rb['ok'] or not isinstance(rb['json'], dict) or \
            'results' not in rb['json']:
        ctx.count('base-skipped')
        ctx.log('base run failed (%s): %r' % (rel, rb['error']))
        if skipped is not None:
            skipped.append(str(rb['error'])[:200])
        return
    rv = _run_one(scratch, stats, markers, v, cfg, 'variant')
    ctx.traces += 1
    ctx.case(ntkey, sample={
        'kind': 'pipeline', 'relation': rel, 'n_cells': len(b['cell_ids']),
        'n_genes': len(b['genes']), 'hierarchy': hierarchy,
        'bootstrap_factor': cfg['bootstrap_factor'],
        'first_result': rb['json']['results'][:1]})
    if not rv['ok'] or not isinstance(rv['json'], dict) or \
            'results' not in rv['json']:
        ctx.violation('C07/pipeline/%s/variant-fails' % rel,
                      'the base input maps but the %s variant fails: %r'
                      % (rel, rv['error']), d)
        return
    res_b = rb['json']['results']
    res_v = rv['json']['results']
    if rel in ('declared', 'scale', 'gene-permutation'):
        mb = rb['json'].get('marker_genes')
        mv = rv['json'].get('marker_genes')
        if mb != mv:
            ctx.violation('C07/pipeline/%s/marker-genes-differ' % rel,
                          'marker_genes differ between base and variant at '
                          '%s' % U.first_difference(mb, mv), d)
            return
    if rel in ('gene-permutation', 'extra-genes'):
        ctx.count('pipeline:%s/%s/%s' % (rel, b['normalization'],
                                         b.get('encoding', 'dense')))
        # the rows each worker gets (hence its random generator) must not
        # depend on the gene columns of the file: direct predicate on the
        # hook trace of chunk borders
        if len(rb.get('chunks') or []) >= 2:
            ctx.count('pipeline:%s/multi-chunk' % rel)
        if rb.get('chunks') and rv.get('chunks') and \
                rb['chunks'] != rv['chunks']:
            ctx.violation(
                'C07/pipeline/%s/chunk-borders-differ' % rel,
                'the row chunks handed to the workers depend on the gene '
                'columns of the query: %r for the base, %r for the variant '
                '(max_gb=%r, n_processors=%r, chunk_size=%r)'
                % (rb['chunks'], rv['chunks'], cfg.get('max_gb', 1.0),
                   cfg.get('n_processors'), cfg.get('chunk_size')), d)
            return
        if U.results_bytes(res_b) != U.results_bytes(res_v):
            ctx.violation(
                'C07/pipeline/%s/results-differ' % rel,
                'results are not byte-equal (%s input, factor %r): first '
                'difference at %s' % (b['normalization'],
                                      cfg['bootstrap_factor'],
                                      U.first_difference(res_b, res_v)), d)
        return
    # float relations: declared, scale
    skip = U.constant_marker_cells(b['X'], b['genes'], b['cell_ids'],
                                   rb['json'].get('marker_genes') or {})
    if skip:
        ctx.count('excused-constant-markers', len(skip))
    problems, st = U.compare_tolerant(res_b, res_v, hierarchy,
                                      skip_cells=skip)
    for k, n in st.items():
        if n:
            ctx.count(k if k.startswith('excused') else
                      'pipeline:%s/%s' % (rel, k), n)
    if problems:
        cls, cid, lvl, what = problems[0]
        dd = dict(d)
        dd['problems'] = problems[:5]
        ctx.violation('C07/pipeline/%s/%s-differ' % (rel, cls),
                      '%s: cell %r level %r: %s' % (rel, cid, lvl, what), dd)


# ---- generators -----------------------------------------------------------

def gen_base(ctx, rng, i):
    """a MappingProblem turned into plain data"""
    for attempt in range(50):
        mp = pipeline.MappingProblem(
            rng, n_genes=rng.randint(6, 12), n_cells=rng.randint(1, 12),
            max_depth=3)
        if _n_leaves(mp.tree) >= 2:
            break
    else:
        raise core.InfraError('cannot generate a tree with two leaves')
    shared = [g for g in mp.ref_genes if g in mp.query_genes]
    markers = {k: list(v) for k, v in mp.markers.items()}
    if i % 4 != 3 and len(shared) >= 3:
        # mostly >= 3 markers per parent: with 2 markers every correlation is
        # +-1 and the choice is a tie decided by round-off
        for k, v in markers.items():
            rest = [g for g in shared if g not in v]
            rng.shuffle(rest)
            while len(v) < 3 and rest:
                v.append(rest.pop())
        ctx.count('pipeline:markers>=3')
    else:
        # some parents with exactly 2 markers: exercises the near-tie policy
        for k in sorted(markers):
            if rng.random() < 0.5:
                markers[k] = markers[k][:2]
        ctx.count('pipeline:markers>=2')
    X = mp.X.copy()
    col = {g: j for j, g in enumerate(mp.query_genes)}
    for _ in range(20):
        changed = False
        for k, v in markers.items():
            idx = [col[g] for g in v]
            for r in range(X.shape[0]):
                if len(set(X[r, idx])) <= 1:
                    X[r, idx[0]] += 1.0 + rng.randint(0, 5)
                    changed = True
        if not changed:
            break
    prob = {'tree': mp.tree, 'ref_genes': list(mp.ref_genes),
            'leaf_sum': {k: np.asarray(v).tolist()
                         for k, v in mp.leaf_sum.items()},
            'leaf_n': {k: int(v) for k, v in mp.leaf_n.items()},
            'markers': markers}
    return prob, X, list(mp.query_genes), list(mp.cell_ids)


def log2cpm(X):
    X = np.asarray(X, dtype=np.float64)
    s = X.sum(axis=1)
    return np.log2(1.0 + 1.0e6 * X / s[:, None])


def gen_pipeline_cases(ctx, rng, i):
    """the relation cases of one base problem"""
    prob, X, genes, cells = gen_base(ctx, rng, i)
    nprng = np.random.default_rng(rng.randrange(2**31))
    n, g = X.shape
    marker_union = set(x for v in prob['markers'].values() for x in v)

    def cfg(factor):
        return {'bootstrap_factor': factor,
                'bootstrap_iteration': rng.choice([5, 10]),
                'rng_seed': rng.randrange(10**6),
                'n_processors': rng.choice([1, 2]),
                'chunk_size': rng.choice([2, 3, 5, 100])}

    def case(rel, base, variant, config, nontrivial=True):
        return {'kind': 'pipeline', 'relation': rel, 'problem': prob,
                'base': base, 'variant': variant, 'config': config,
                'nontrivial': nontrivial}

    def q(Xq, gq, norm, encoding='dense', dtype='float64', cell_ids=None):
        return {'X': np.asarray(Xq).tolist(), 'genes': list(gq),
                'cell_ids': cells if cell_ids is None else cell_ids,
                'normalization': norm,
                'encoding': encoding, 'dtype': dtype}

    out = []
    c1 = cfg(1.0)
    base_raw = q(X, genes, 'raw')
    L = log2cpm(X)
    # a. declared normalisation
    out.append(case('declared', base_raw, q(L, genes, 'log2CPM'), c1))
    # b. scale
    if i % 2 == 0:
        k = np.array([float(rng.randint(1, 1000)) for _ in range(n)])
    else:
        k = np.array([float(10.0 ** rng.uniform(-3, 3)) for _ in range(n)])
    Xs = X * k[:, None]
    out.append(case('scale', base_raw, q(Xs, genes, 'raw'), c1,
                    nontrivial=bool((k != 1).any())))
    # a'/b'. the same two relations for raw counts STORED in a narrow
    # integer dtype with per-cell totals beyond the dtype's range (deep
    # cells); the normalised / scaled copies are computed in float64
    dt = INT_DTYPES[i % len(INT_DTYPES)]
    enc_i = ENCODINGS[(i // len(INT_DTYPES) + i) % 3]
    Xd = U.deepen(rng, X, genes, prob['markers'], dt)
    base_int = q(Xd, genes, 'raw', enc_i, dt)
    out.append(case('declared', base_int, q(log2cpm(Xd), genes, 'log2CPM'),
                    c1))
    ki = np.array([float(rng.randint(2, 9)) for _ in range(n)])
    out.append(case('scale', base_int, q(Xd * ki[:, None], genes, 'raw'),
                    c1))
    # c. gene permutation, raw and normalised, any factor
    enc = ENCODINGS[i % 3]
    c2 = cfg(round(rng.uniform(0.3, 0.95), 2))
    perm = list(range(g))
    rng.shuffle(perm)
    gp = [genes[j] for j in perm]
    out.append(case('gene-permutation', q(X, genes, 'raw', enc),
                    q(X[:, perm], gp, 'raw', enc), c2,
                    nontrivial=perm != list(range(g))))
    enc2 = ENCODINGS[(i + 1) % 3]
    c3 = cfg(round(rng.uniform(0.3, 0.95), 2))
    base_log = q(L, genes, 'log2CPM', enc2)
    perm2 = list(range(g))
    rng.shuffle(perm2)
    out.append(case('gene-permutation', base_log,
                    q(L[:, perm2], [genes[j] for j in perm2], 'log2CPM',
                      enc2), c3, nontrivial=perm2 != list(range(g))))
    # d. extra / removed genes, normalised input only
    removable = [x for x in genes if x not in marker_union]
    drop = set(rng.sample(removable, rng.randint(0, len(removable))))
    keep = [j for j, x in enumerate(genes) if x not in drop]
    cols = [L[:, j] for j in keep]
    gx = [genes[j] for j in keep]
    pool = [x for x in prob['ref_genes'] if x not in genes] + \
        ['zz_extra_%d' % e for e in range(4)]
    rng.shuffle(pool)
    n_add = rng.randint(0 if drop else 1, 4)
    for name in pool[:n_add]:
        pos = rng.randint(0, len(cols))
        vals = nprng.random(n) * 16.0
        vals[nprng.random(n) < 0.3] = 0.0
        cols.insert(pos, vals)
        gx.insert(pos, name)
    out.append(case('extra-genes', base_log,
                    q(np.stack(cols, axis=1), gx, 'log2CPM', enc2), c3,
                    nontrivial=bool(drop) or n_add > 0))
    # c'. gene permutation of a csr query WITHOUT implicit zeros whose
    # columns were permuted on the sparse matrix (unsorted column indices in
    # every row); raw and normalised alternate
    Xf = X + 1.0
    permc = list(range(g))
    for _ in range(10):
        rng.shuffle(permc)
        if permc != sorted(permc):
            break
    gpc = [genes[j] for j in permc]
    c5 = cfg(round(rng.uniform(0.3, 0.95), 2))
    if i % 2 == 0:
        vq = q(Xf, gpc, 'raw', 'csr')
        bq = q(Xf, genes, 'raw', 'csr')
    else:
        vq = q(log2cpm(Xf), gpc, 'log2CPM', 'csr')
        bq = q(log2cpm(Xf), genes, 'log2CPM', 'csr')
    vq['perm_on_csr'] = permc
    out.append(case('gene-permutation', bq, vq, c5,
                    nontrivial=permc != list(range(g))))
    # d'. WIDE queries: the reference has <= 255 genes, the query 300-600
    # columns, with the markers beyond column 255 (query column positions
    # need a wider integer type than reference positions)
    n_w = rng.randint(300, 600)
    wnames = ['wq%d' % e for e in range(n_w)]
    #   extra genes PREPENDED to the normalised query
    Wl = nprng.random((n, n_w)) * 16.0
    Wl[nprng.random((n, n_w)) < 0.5] = 0.0
    out.append(case('extra-genes', base_log,
                    q(np.concatenate([Wl, L], axis=1), wnames + list(genes),
                      'log2CPM', enc2), c3))
    #   gene permutation of a wide raw query: markers first in the base,
    #   anywhere (mostly beyond column 255) in the variant
    Wr = nprng.integers(0, 40, (n, n_w)).astype(float)
    Xw = np.concatenate([X, Wr], axis=1)
    gw = list(genes) + wnames
    permw = list(range(g + n_w))
    rng.shuffle(permw)
    if rng.random() < 0.5:
        # all original genes pushed behind the extra ones
        permw = list(range(g, g + n_w)) + list(range(g))
    encw = ENCODINGS[(i + 2) % 3]
    c4 = cfg(round(rng.uniform(0.3, 0.95), 2))
    out.append(case('gene-permutation', q(Xw, gw, 'raw', encw),
                    q(Xw[:, permw], [gw[j] for j in permw], 'raw', encw),
                    c4))
    # d''. extra genes under a TIGHT memory budget with several workers:
    # small max_gb, 2-4 processes, chunk_size far above any cap,
    # bootstrap_factor < 1, enough cells for several chunks.  Whatever the
    # implementation derives from max_gb, the rows (and random generator) a
    # cell is mapped with must not depend on how many gene columns the file
    # has.
    n_big = rng.randint(20, 36)
    Xb = nprng.integers(0, 40, (n_big, g)).astype(float)
    Xb[:, 0] += 1.0
    Lb = log2cpm(Xb)
    cells_b = ['b%d' % e for e in range(n_big)]
    n_proc = rng.randint(2, 4)
    rows_cap = rng.randint(2, 5)
    # a budget that holds about rows_cap rows of the BASE width per worker
    tight = {'bootstrap_factor': round(rng.uniform(0.3, 0.8), 2),
             'bootstrap_iteration': rng.choice([5, 10]),
             'rng_seed': rng.randrange(10**6), 'n_processors': n_proc,
             'chunk_size': rng.choice([1000, 10000]),
             'max_gb': rows_cap * n_proc * 8 * g / 1024.0 ** 3 * 1.01}
    extra_n = rng.choice([1, 2, g, 3 * g, 40])
    colsb = [Lb[:, j] for j in range(g)]
    gb = list(genes)
    for e in range(extra_n):
        pos = rng.randint(0, len(colsb))
        vals = nprng.random(n_big) * 16.0
        vals[nprng.random(n_big) < 0.3] = 0.0
        colsb.insert(pos, vals)
        gb.insert(pos, 'tb_extra_%d' % e)
    out.append(case('extra-genes',
                    q(Lb, genes, 'log2CPM', 'dense', cell_ids=cells_b),
                    q(np.stack(colsb, axis=1), gb, 'log2CPM', 'dense',
                      cell_ids=cells_b), tight))
    # e. negative
    a, b_ = rng.randrange(n), rng.randrange(g)
    if rng.random() < 0.5:
        a, b_ = rng.choice([(0, 0), (n - 1, g - 1), (0, g - 1), (n - 1, 0)])
    for enc3 in ENCODINGS:
        for dt in NEG_DTYPES:
            Xn = X.copy()
            if dt.startswith('float') and rng.random() < 0.5:
                Xn[a, b_] = -rng.choice([0.5, 0.25, 1.0e-3, 7.5])
            else:
                Xn[a, b_] = -float(rng.randint(1, 20))
            out.append(case('negative', None,
                            q(Xn, genes, 'raw', enc3, dt), c1))
    return out


# ===========================================================================
# (C) same-process histories: one query path rewritten in place
# ===========================================================================

def _hist_run(route, scratch, stats, markers, prob, qpath, cfg, tag):
    """one mapping of the raw query at qpath; returns dict(ok, results, error)"""
    import tempfile
    scratch = pathlib.Path(scratch)
    out = scratch / ('hout_' + tag)
    systmp = scratch / 'hist_systmp'
    for p_ in (out,):
        if p_.exists():
            import shutil
            shutil.rmtree(p_)
        p_.mkdir()
    systmp.mkdir(exist_ok=True)
    old_tmp = tempfile.tempdir
    old_env = os.environ.get('TMPDIR')
    tempfile.tempdir = str(systmp)      # tmp_dir=None must not leak
    os.environ['TMPDIR'] = str(systmp)
    err = None
    results = None
    try:
        if route == 'run_mapping':
            config = pipeline.mapping_config(
                qpath, stats, markers, out, None,
                n_processors=cfg.get('n_processors', 2),
                chunk_size=cfg.get('chunk_size', 10),
                bootstrap_factor=cfg['bootstrap_factor'],
                bootstrap_iteration=cfg.get('bootstrap_iteration', 10),
                rng_seed=cfg.get('rng_seed', 11),
                normalization='raw', min_markers=1, csv=False)
            res = pipeline.run_mapping(config)
            err = res['error']
            if isinstance(res['json'], dict) and 'results' in res['json']:
                results = res['json']['results']
        else:
            from cell_type_mapper.taxonomy.taxonomy_tree import TaxonomyTree
            from cell_type_mapper.type_assignment.marker_cache_v2 import (
                create_marker_cache_from_specified_markers)
            from cell_type_mapper.type_assignment.election_runner import (
                run_type_assignment_on_h5ad)
            import anndata
            with pipeline.quiet():
                tree = TaxonomyTree(data=json.loads(json.dumps(prob['tree'])))
                a = anndata.read_h5ad(qpath, backed='r')
                qgenes = list(a.var_names)
                a.file.close()
                cpath = out / 'cache.h5'
                try:
                    create_marker_cache_from_specified_markers(
                        marker_lookup=json.loads(json.dumps(prob['markers'])),
                        reference_gene_names=list(prob['ref_genes']),
                        query_gene_names=qgenes, output_cache_path=cpath,
                        taxonomy_tree=tree, min_markers=1)
                    lookup = {lv: cfg['bootstrap_factor']
                              for lv in tree.hierarchy[:-1]}
                    lookup['None'] = cfg['bootstrap_factor']
                    results = run_type_assignment_on_h5ad(
                        query_h5ad_path=qpath,
                        precomputed_stats_path=stats,
                        marker_gene_cache_path=cpath,
                        taxonomy_tree=tree,
                        n_processors=cfg.get('n_processors', 2),
                        chunk_size=cfg.get('chunk_size', 10),
                        bootstrap_factor_lookup=lookup,
                        bootstrap_iteration=cfg.get('bootstrap_iteration',
                                                    10),
                        rng=np.random.default_rng(cfg.get('rng_seed', 11)),
                        n_assignments=3, normalization='raw',
                        tmp_dir=None, results_output_path=None)
                    results = core.jsonable(results)
                except BaseException as e:      # noqa
                    if isinstance(e, KeyboardInterrupt):
                        raise
                    err = e
                    results = None
    finally:
        tempfile.tempdir = old_tmp
        if old_env is None:
            os.environ.pop('TMPDIR', None)
        else:
            os.environ['TMPDIR'] = old_env
    text = None if err is None else '%s: %s' % (type(err).__name__, err)
    with pipeline.quiet():
        err = None
        gc.collect()
    return {'ok': text is None, 'results': results, 'error': text}


def check_history(ctx, d, scratch):
    """
    d: kind=history, problem, genes, cell_ids, X (clean raw integer counts),
    neg [row, col, value], encoding, dtype, route (run_mapping | direct),
    steps (list of 'clean' | 'neg'), config.
    ONE query path is rewritten in place between the steps (same shape, dtype,
    encoding, hence the same byte size) and mapped again in the same process:
    negative version => raises and writes no results; clean version => maps
    exactly like the same matrix at a fresh path.
    """
    prob = d['problem']
    cfg = d['config']
    route = d['route']
    enc = d.get('encoding', 'dense')
    dt = np.dtype(d.get('dtype', 'float64'))
    stats, markers = _write_problem(scratch, prob)
    scratch = pathlib.Path(scratch)
    X = np.array(d['X'], dtype=dt)
    Xn = X.copy()
    Xn[d['neg'][0], d['neg'][1]] = d['neg'][2]
    fresh = scratch / 'hist_fresh.h5ad'
    fixed = scratch / 'hist_query.h5ad'
    for p_ in (fresh, fixed):
        if p_.exists():
            p_.unlink()
    ctx.count('history:%s/%s/%s' % (route, enc, dt.name))
    pipeline.write_h5ad(fresh, X, d['cell_ids'], d['genes'], encoding=enc)
    ref = _hist_run(route, scratch, stats, markers, prob, fresh, cfg, 'fresh')
    ctx.traces += 1
    if not ref['ok'] or ref['results'] is None:
        ctx.count('history:base-skipped')
        ctx.log('history base run failed: %r' % (ref['error'],))
        return
    size0 = None
    for j, what in enumerate(d['steps']):
        if fixed.exists():
            fixed.unlink()
        pipeline.write_h5ad(fixed, Xn if what == 'neg' else X,
                            d['cell_ids'], d['genes'], encoding=enc)
        size = os.path.getsize(fixed)
        if size0 is None:
            size0 = size
        elif size != size0:
            ctx.count('history:step-skipped-size-differs')
            continue
        r = _hist_run(route, scratch, stats, markers, prob, fixed, cfg,
                      'step')
        ctx.traces += 1
        hist = dict(d)
        hist['failing_step'] = j
        hist['steps_run'] = d['steps'][:j + 1]
        ctx.case(jkey('history', route, enc, dt.name, d['steps'][:j + 1],
                      d['X'], d['neg'], cfg),
                 sample={'kind': 'history', 'route': route, 'encoding': enc,
                         'steps': d['steps'][:j + 1], 'ok': r['ok']}
                 if j == len(d['steps']) - 1 else None)
        if what == 'neg':
            if r['ok'] or r['results'] is not None:
                ctx.violation(
                    'C07/history/negative/mapped',
                    'step %d of %r (%s, %s, %s): the query file, rewritten in '
                    'place with a negative raw value, was mapped'
                    % (j + 1, d['steps'], route, enc, dt.name), hist)
                return
            if not str(r['error']).startswith('RuntimeError'):
                ctx.violation(
                    'C07/correspondence/negative',
                    'negative raw input is rejected, but not by the minimum '
                    'check: %r' % (r['error'],),
                    dict(hist, broken='correspondence CTM.Normalize.'
                         'negativeCheck ~ run_type_assignment_on_h5ad'),
                    found_input=False)
                return
        else:
            if not r['ok'] or r['results'] is None:
                ctx.violation(
                    'C07/history/clean/rejected',
                    'step %d of %r (%s, %s, %s): the query file, rewritten in '
                    'place WITHOUT any negative value, is refused: %r'
                    % (j + 1, d['steps'], route, enc, dt.name, r['error']),
                    hist)
                return
            if U.results_bytes(r['results']) != \
                    U.results_bytes(ref['results']):
                ctx.violation(
                    'C07/history/clean/results-differ',
                    'step %d of %r: the clean matrix at the reused path maps '
                    'differently from the same matrix at a fresh path: %s'
                    % (j + 1, d['steps'],
                       U.first_difference(ref['results'], r['results'])),
                    hist)
                return


def gen_history(ctx, rng, i):
    prob, X, genes, cells = gen_base(ctx, rng, i)
    n, g = X.shape
    enc = ENCODINGS[i % 3]
    dt = ['float64', 'float32', 'int32', 'int64'][(i // 3) % 4]
    # the negative value replaces a POSITIVE count, so that the sparse
    # encodings store the same number of entries (same byte size)
    pos = [(a, b) for a in range(n) for b in range(g) if X[a, b] > 0]
    a, b = rng.choice(pos)
    steps = rng.choice([['clean', 'neg', 'clean'], ['neg', 'clean', 'neg'],
                        ['clean', 'neg'], ['neg', 'clean']])
    return {'kind': 'history', 'problem': prob, 'genes': genes,
            'cell_ids': cells, 'X': X.tolist(),
            'neg': [a, b, -float(rng.randint(1, 20))],
            'encoding': enc, 'dtype': dt,
            'route': 'run_mapping' if i % 2 == 0 else 'direct',
            'steps': steps,
            'config': {'bootstrap_factor': 0.9, 'bootstrap_iteration': 5,
                       'rng_seed': rng.randrange(10**6),
                       'n_processors': rng.choice([1, 2]),
                       'chunk_size': rng.choice([3, 100])}}


# ===========================================================================
# run / replay
# ===========================================================================

def _dispatch(ctx, d, scratch, cache=None, skipped=None):
    kind = d.get('kind')
    if kind == 'cpm':
        check_cpm(ctx, d)
    elif kind == 'ge_zero':
        check_ge_zero(ctx, d, scratch)
    elif kind == 'node':
        check_node(ctx, d)
    elif kind == 'pipeline':
        check_pipeline(ctx, d, scratch, cache, skipped)
    elif kind == 'history':
        check_history(ctx, d, scratch)
    else:
        return False
    return True


def run(ctx):
    rng = ctx.rng
    quick = ctx.tier == 'quick'
    n_unit = 150 if quick else 1500
    n_base = 10 if quick else 80
    with warnings.catch_warnings():
        warnings.simplefilter('ignore')
        with pipeline.workdir(prefix='ctmverif_c07_') as scratch:
            # corpus first
            cdir = core.VERIF / 'corpus' / 'C07'
            for f in sorted(cdir.glob('*.json')) if cdir.is_dir() else []:
                data = json.loads(f.read_text())
                replay(ctx, data, from_corpus=True, scratch=scratch)
            nprng = np.random.default_rng(rng.randrange(2**31))
            for i in range(n_unit):
                check_cpm(ctx, gen_cpm(rng, nprng, i))
            for i in range(n_unit):
                check_ge_zero(ctx, gen_ge_zero(rng, nprng, i), scratch)
            for i in range(n_unit):
                check_node(ctx, gen_node(rng, nprng, i))
            ctx.log('unit level done at %.1fs' % ctx.elapsed())
            n_skipped = 0
            for i in range(n_base):
                cache = {}
                skipped = []
                for d in gen_pipeline_cases(ctx, rng, i):
                    check_pipeline(ctx, d, scratch, cache, skipped)
                if skipped:
                    n_skipped += 1
            n_hist = 6 if quick else 48
            for i in range(n_hist):
                check_history(ctx, gen_history(ctx, rng, i), scratch)
            ctx.log('pipeline level done at %.1fs (%d bases, %d skipped)'
                    % (ctx.elapsed(), n_base, n_skipped))
            if 3 * n_skipped > n_base:
                raise core.InfraError(
                    '%d of %d base problems failed to map' % (n_skipped,
                                                              n_base))


def replay(ctx, data, from_corpus=False, scratch=None):
    d = data.get('detail', data)
    if scratch is not None:
        done = _dispatch(ctx, d, scratch)
    else:
        with warnings.catch_warnings():
            warnings.simplefilter('ignore')
            with pipeline.workdir(prefix='ctmverif_c07_') as s:
                done = _dispatch(ctx, d, s)
    if not done and not from_corpus:
        print('nothing to replay for kind', d.get('kind'))
